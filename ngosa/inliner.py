"""load-time inlining of helpers that the reference tree does not have.

Extracting a block of a function into a new private helper (and calling it) does not change behaviour, but it moves the
guards and construction sites a rule is anchored at out of the function the rule looks at.  Every function of the
current tree that is NOT part of the reference tree (locals_ref.json) is therefore copied back into its call sites
before any rule runs:

    T = self._helper(a, b)        ->      with __ngosa_inline__('mod:Class._helper') as T:
                                              p1 = a; p2 = b          (only where parameter and argument differ)
                                              <body of _helper>       (its `return E` binds T and leaves the block)

The `with` statement is only a container the interpreter understands (Interp.s_With); a call inside a larger expression
(`xs.append(self._helper(x))`, `if self._helper(x):`) is hoisted into a temporary first.  Helpers that are generators,
recursive, decorated (other than staticmethod/classmethod) or use *args/**kwargs are left alone; so is everything the
reference tree already has - inlining those would change the tree the rules were written against."""

from __future__ import annotations

import ast
import copy
from typing import Optional

MARK = "__ngosa_inline__"


def _params(node: ast.AST) -> list[str]:
    a = node.args  # type: ignore[attr-defined]
    return [x.arg for x in a.posonlyargs + a.args] + [x.arg for x in a.kwonlyargs]


def _locals(node: ast.AST) -> set[str]:
    out: set[str] = set()
    todo = list(node.body)  # type: ignore[attr-defined]
    while todo:
        cur = todo.pop()
        if isinstance(cur, (ast.FunctionDef, ast.AsyncFunctionDef, ast.ClassDef)):
            out.add(cur.name)
            continue
        if isinstance(cur, (ast.Lambda, ast.ListComp, ast.SetComp, ast.DictComp, ast.GeneratorExp)):
            continue
        if isinstance(cur, ast.Name) and isinstance(cur.ctx, (ast.Store, ast.Del)):
            out.add(cur.id)
        todo.extend(ast.iter_child_nodes(cur))
    return out


def _eligible(node: ast.AST) -> bool:
    if not isinstance(node, ast.FunctionDef):
        return False
    decos = [ast.unparse(d) for d in node.decorator_list]
    if any(d not in ("staticmethod", "classmethod") for d in decos):
        return False
    if node.args.vararg or node.args.kwarg:
        return False
    for sub in ast.walk(node):
        if isinstance(sub, (ast.Yield, ast.YieldFrom, ast.Await, ast.Global, ast.Nonlocal)):
            return False
    return True


def _eligible_generator(node: ast.AST) -> bool:
    """a generator helper without `return`: `yield from helper(args)` as a whole statement is the helper's body with the
    parameters bound (its yields are the caller's yields)"""
    if not isinstance(node, ast.FunctionDef):
        return False
    decos = [ast.unparse(d) for d in node.decorator_list]
    if any(d not in ("staticmethod", "classmethod") for d in decos) or node.args.vararg or node.args.kwarg:
        return False
    has_yield = False
    todo = list(node.body)
    while todo:
        sub = todo.pop()
        if isinstance(sub, (ast.FunctionDef, ast.AsyncFunctionDef, ast.Lambda, ast.ClassDef)):
            continue
        if isinstance(sub, (ast.Return, ast.Await, ast.Global, ast.Nonlocal)):
            return False
        if isinstance(sub, (ast.Yield, ast.YieldFrom)):
            has_yield = True
        todo.extend(ast.iter_child_nodes(sub))
    return has_yield


class _Rename(ast.NodeTransformer):
    def __init__(self, mapping: dict[str, str]):
        self.mapping = mapping

    def visit_Name(self, node: ast.Name) -> ast.AST:
        if node.id in self.mapping:
            return ast.copy_location(ast.Name(self.mapping[node.id], node.ctx), node)
        return node


def _hoistable(stmt: ast.stmt, call: ast.Call) -> Optional[str]:
    """where in `stmt` does `call` sit: 'whole' (statement is exactly T = call / call / return call), 'simple' (somewhere
    in the expression of a simple statement), 'test' (the test of an if/while, evaluated first), None (leave it)"""
    if isinstance(stmt, (ast.Assign, ast.AnnAssign, ast.Return, ast.Expr)) and stmt.value is call:
        return "whole"
    if isinstance(stmt, (ast.Assign, ast.AnnAssign, ast.AugAssign, ast.Return, ast.Expr)) and stmt.value is not None and any(n is call for n in ast.walk(stmt.value)):
        # not under a lambda / comprehension / conditional expression (evaluated later or not at all)
        stack: list[tuple[ast.AST, bool]] = [(stmt.value, True)]
        while stack:
            cur, sure = stack.pop()
            if cur is call:
                return "simple" if sure else None
            for fld, val in ast.iter_fields(cur):
                vals = val if isinstance(val, list) else [val]
                for i, v in enumerate(vals):
                    if not isinstance(v, ast.AST):
                        continue
                    ok = sure and not isinstance(cur, (ast.Lambda, ast.ListComp, ast.SetComp, ast.DictComp, ast.GeneratorExp))
                    if isinstance(cur, ast.BoolOp) and i > 0:
                        ok = False
                    if isinstance(cur, ast.IfExp) and fld != "test":
                        ok = False
                    stack.append((v, ok))
        return None
    if isinstance(stmt, (ast.If, ast.While)):
        test = stmt.test
        first = test
        while True:
            if isinstance(first, ast.UnaryOp) and isinstance(first.op, ast.Not):
                first = first.operand
            elif isinstance(first, ast.BoolOp):
                first = first.values[0]
            else:
                break
        if first is call and isinstance(stmt, ast.If):
            return "test"
    return None


def inline_new_helpers(prg) -> int:  # type: ignore[no-untyped-def]
    """prg: model.Program (all modules loaded).  Returns the number of inlined call sites."""
    new = prg.new_functions()
    if not new:
        return 0
    done = 0
    counter = [0]
    for _round in range(3):
        progress = 0
        for caller in list(prg.funcs.values()):
            if isinstance(caller.node, ast.Lambda) or caller.qualname in new:
                continue
            progress += _inline_in(prg, caller, new, counter)
        done += progress
        if not progress:
            break
    done += _substitute_expression_helpers(prg, new)
    if done:
        for caller in list(prg.funcs.values()):
            if not isinstance(caller.node, ast.Lambda):
                _forward_accumulators(caller.node)
    return done


def _forward_accumulators(fnode: ast.AST) -> int:
    """`with <inlined helper>: ...; R = []; for ..: R.append(E)` followed by `X.extend(R)` (R used nowhere else): the helper
    only collected what the caller extends X with, so the loop feeds X directly - the form `X.extend([E for ..])` has"""
    count = 0
    for block in _blocks(fnode):
        i = 0
        while i + 1 < len(block):
            w, nxt = block[i], block[i + 1]
            i += 1
            if not (is_inline_block(w) and isinstance(nxt, ast.Expr) and isinstance(nxt.value, ast.Call) and isinstance(nxt.value.func, ast.Attribute) and nxt.value.func.attr == "extend"
                    and len(nxt.value.args) == 1 and isinstance(nxt.value.args[0], ast.Name) and not nxt.value.keywords):
                continue
            r = nxt.value.args[0].id
            recv = nxt.value.func.value
            body = w.body  # type: ignore[attr-defined]
            if len(body) < 2 or not isinstance(body[-1], ast.For):
                continue
            init = body[-2]
            if not (isinstance(init, (ast.Assign, ast.AnnAssign)) and isinstance(init.value, ast.List) and not init.value.elts and isinstance(init.targets[0] if isinstance(init, ast.Assign) else init.target, ast.Name)
                    and (init.targets[0] if isinstance(init, ast.Assign) else init.target).id == r):  # type: ignore[union-attr]
                continue
            uses = [n for n in ast.walk(fnode) if isinstance(n, ast.Name) and n.id == r]
            appends = [n for n in ast.walk(body[-1]) if isinstance(n, ast.Call) and isinstance(n.func, ast.Attribute) and n.func.attr == "append" and isinstance(n.func.value, ast.Name) and n.func.value.id == r and len(n.args) == 1]
            if len(uses) != len(appends) + 2:
                continue  # R is read or written somewhere else
            recv_names = {n.id for n in ast.walk(recv) if isinstance(n, ast.Name)}
            stored = {n.id for n in ast.walk(w) if isinstance(n, ast.Name) and isinstance(n.ctx, ast.Store)}
            if recv_names & stored:
                continue
            for a in appends:
                a.func.value = copy.deepcopy(recv)  # type: ignore[attr-defined]
            del body[-2]
            block.remove(nxt)
            ast.fix_missing_locations(w)
            count += 1
    return count


def _substitute_expression_helpers(prg, new: set[str]) -> int:  # type: ignore[no-untyped-def]
    """a new helper that is nothing but `return <expr>` over its parameters (a constructor expression or a test that was
    given a name) is substituted wherever it is called, also inside larger expressions: rules that look for the
    constructor call find it where it used to be"""
    count = 0
    pure: dict[str, tuple[list[str], ast.expr]] = {}
    for q in new:
        f = prg.funcs.get(q)
        if f is None or isinstance(f.node, ast.Lambda) or not _eligible(f.node):
            continue
        body = [s for s in f.node.body if not (isinstance(s, ast.Expr) and isinstance(s.value, ast.Constant))]
        a = f.node.args
        if len(body) != 1 or not isinstance(body[0], ast.Return) or body[0].value is None or a.vararg or a.kwarg or a.kwonlyargs or a.defaults:
            continue
        params = [x.arg for x in a.posonlyargs + a.args]
        decos = [ast.unparse(d) for d in f.node.decorator_list]
        if params and params[0] in ("self", "cls") and "staticmethod" not in decos:
            if any(isinstance(n, ast.Name) and n.id == params[0] for n in ast.walk(body[0].value)):
                continue  # uses self: leave it to the interpreter
            params = params[1:]
        names_in = {n.id for n in ast.walk(body[0].value) if isinstance(n, ast.Name)}
        if any(isinstance(n, (ast.Lambda, ast.ListComp, ast.SetComp, ast.GeneratorExp, ast.DictComp, ast.NamedExpr)) for n in ast.walk(body[0].value)) and names_in & set(params):
            continue  # parameter names could be captured by inner scopes
        pure[q] = (params, body[0].value)
    if not pure:
        return 0
    for caller in list(prg.funcs.values()):
        if isinstance(caller.node, ast.Lambda) or caller.qualname in new:
            continue

        class Sub(ast.NodeTransformer):
            def visit_Call(self, call: ast.Call) -> ast.AST:
                nonlocal count
                self.generic_visit(call)
                res = prg.resolve_callee(caller, call.func)
                if res not in pure or call.keywords or any(isinstance(x, ast.Starred) for x in call.args):
                    return call
                params, expr = pure[res]
                if len(params) != len(call.args):
                    return call
                bind = dict(zip(params, call.args))

                class Ren(ast.NodeTransformer):
                    def visit_Name(self, n: ast.Name) -> ast.AST:
                        return copy.deepcopy(bind[n.id]) if isinstance(n.ctx, ast.Load) and n.id in bind else n

                count += 1
                return ast.fix_missing_locations(ast.copy_location(Ren().visit(copy.deepcopy(expr)), call))

        for stmt in caller.node.body:
            Sub().visit(stmt)
    return count


def _blocks(node: ast.AST):  # type: ignore[no-untyped-def]
    todo = [node]
    while todo:
        cur = todo.pop()
        for fld in ("body", "orelse", "finalbody"):
            block = getattr(cur, fld, None)
            if isinstance(block, list) and block and isinstance(block[0], ast.stmt):
                yield block
                for s in block:
                    if not isinstance(s, (ast.FunctionDef, ast.AsyncFunctionDef, ast.ClassDef)):
                        todo.append(s)
        for h in getattr(cur, "handlers", []) or []:
            todo.append(h)


def _inline_in(prg, caller, new: set[str], counter: list[int]) -> int:  # type: ignore[no-untyped-def]
    count = 0
    changed = True
    while changed:
        changed = False
        for block in _blocks(caller.node):
            for idx, stmt in enumerate(block):
                if isinstance(stmt, ast.With) and stmt.items and isinstance(stmt.items[0].context_expr, ast.Call) and getattr(stmt.items[0].context_expr.func, "id", "") == MARK:
                    continue
                if isinstance(stmt, ast.Expr) and isinstance(stmt.value, ast.YieldFrom) and isinstance(stmt.value.value, ast.Call):
                    gcall = stmt.value.value
                    gres = prg.resolve_callee(caller, gcall.func)
                    gtarget = prg.funcs.get(gres) if gres in new and gres != caller.qualname else None
                    if gtarget is not None and _eligible_generator(gtarget.node) and not any(isinstance(a, ast.Starred) for a in gcall.args) and not any(k.arg is None for k in gcall.keywords) \
                            and not any(isinstance(n, ast.Call) and prg.resolve_callee(gtarget, n.func) == gres for n in ast.walk(gtarget.node)):
                        fake = ast.copy_location(ast.Expr(value=gcall), stmt)
                        new_stmts = _expand(prg, caller, fake, gcall, gtarget, "whole", counter)
                        if new_stmts is not None:
                            block[idx : idx + 1] = new_stmts
                            count += 1
                            changed = True
                            break
                own = [stmt.test] if isinstance(stmt, (ast.If, ast.While)) else ([stmt.value] if isinstance(stmt, (ast.Assign, ast.AnnAssign, ast.AugAssign, ast.Return, ast.Expr)) and stmt.value is not None else [])
                for root in own:
                    for call in [n for n in ast.walk(root) if isinstance(n, ast.Call)]:
                        res = prg.resolve_callee(caller, call.func)
                        if res not in new or res == caller.qualname:
                            continue
                        target = prg.funcs.get(res)
                        if target is None or not _eligible(target.node) or any(isinstance(a, ast.Starred) for a in call.args) or any(k.arg is None for k in call.keywords):
                            continue
                        if any(isinstance(n, ast.Call) and prg.resolve_callee(target, n.func) == res for n in ast.walk(target.node)):
                            continue  # recursive
                        how = _hoistable(stmt, call)
                        if how is None:
                            continue
                        new_stmts = _expand(prg, caller, stmt, call, target, how, counter)
                        if new_stmts is None:
                            continue
                        block[idx : idx + 1] = new_stmts
                        count += 1
                        changed = True
                        break
                    if changed:
                        break
                if changed:
                    break
            if changed:
                break
    return count


def _expand(prg, caller, stmt: ast.stmt, call: ast.Call, target, how: str, counter: list[int]) -> Optional[list[ast.stmt]]:  # type: ignore[no-untyped-def]
    fnode = target.node
    params = [x.arg for x in fnode.args.posonlyargs + fnode.args.args]
    kwonly = [x.arg for x in fnode.args.kwonlyargs]
    decos = [ast.unparse(d) for d in fnode.decorator_list]
    bind: dict[str, ast.expr] = {}
    is_method = bool(params) and params[0] in ("self", "cls") and "staticmethod" not in decos
    if is_method:
        if not isinstance(call.func, ast.Attribute):
            return None
        bind[params[0]] = call.func.value
        params = params[1:]
    if len(call.args) > len(params):
        return None
    for name, arg in zip(params, call.args):
        bind[name] = arg
    for kw in call.keywords:
        if kw.arg not in params + kwonly or kw.arg in bind:
            return None
        bind[kw.arg] = kw.value  # type: ignore[index]
    pos_all = [x.arg for x in fnode.args.posonlyargs + fnode.args.args]
    defaults = dict(zip(reversed(pos_all), reversed(fnode.args.defaults)))
    for name, dflt in zip(kwonly, fnode.args.kw_defaults):
        if dflt is not None:
            defaults[name] = dflt
    for name in params + kwonly:
        if name not in bind:
            if name not in defaults:
                return None
            bind[name] = defaults[name]
    # names of the helper that would collide with names of the caller get a suffix
    caller_names = _locals(caller.node) | set(_params(caller.node)) if not isinstance(caller.node, ast.Lambda) else set()
    counter[0] += 1
    k = counter[0]
    rename: dict[str, str] = {}
    # a local that the helper returns into the caller's variable of the same name (`a, b = self._split(..)` with a final
    # `return a, b` in the helper), the caller binding that name nowhere else: the same thing under the same name
    same_slot: set[str] = set()
    if how == "whole" and isinstance(stmt, ast.Assign) and len(stmt.targets) == 1 and stmt.value is call:
        rets_ = [n for n in ast.walk(fnode) if isinstance(n, ast.Return)]
        tnames = [e.id if isinstance(e, ast.Name) else None for e in (stmt.targets[0].elts if isinstance(stmt.targets[0], ast.Tuple) else [stmt.targets[0]])]
        if len(rets_) == 1 and rets_[0] is fnode.body[-1] and rets_[0].value is not None:
            rnames = [e.id if isinstance(e, ast.Name) else None for e in (rets_[0].value.elts if isinstance(rets_[0].value, ast.Tuple) else [rets_[0].value])]
            if len(rnames) == len(tnames):
                for tn, rn in zip(tnames, rnames):
                    if tn is not None and tn == rn and rn not in _params(fnode):
                        stores = [n for n in ast.walk(caller.node) if isinstance(n, ast.Name) and n.id == tn and isinstance(n.ctx, ast.Store)]
                        if len(stores) == 1:
                            same_slot.add(tn)
    for name in sorted(_locals(fnode) | set(_params(fnode))):
        if name in bind and isinstance(bind[name], ast.Name) and bind[name].id == name:  # type: ignore[union-attr]
            continue  # the same thing under the same name
        if name in same_slot:
            continue
        if name in caller_names:
            rename[name] = f"{name}__i{k}"
    body = [copy.deepcopy(s) for s in fnode.body if not (isinstance(s, ast.Expr) and isinstance(s.value, ast.Constant) and isinstance(s.value.value, str))]
    body = [_Rename(rename).visit(s) for s in body]
    for s in body:
        for sub in ast.walk(s):
            if isinstance(sub, (ast.FunctionDef, ast.AsyncFunctionDef, ast.Lambda)):
                continue
        _mark_returns(s)
    # a helper that is one expression (after local definitions): no block needed
    plain = bool(body) and isinstance(body[-1], ast.Return) and body[-1].value is not None and all(
        isinstance(s, (ast.Assign, ast.AnnAssign)) and isinstance(s.targets[0] if isinstance(s, ast.Assign) else s.target, ast.Name) for s in body[:-1]
    )
    if plain and not (how == "whole" and isinstance(stmt, (ast.Assign, ast.AnnAssign, ast.Return))):
        return None  # the interpreter substitutes such calls where they stand (Interp._inline_expression_functions)
    prologue: list[ast.stmt] = []
    for name, arg in bind.items():
        tgt = rename.get(name, name)
        if isinstance(arg, ast.Name) and arg.id == tgt:
            continue
        prologue.append(ast.copy_location(ast.Assign(targets=[ast.Name(tgt, ast.Store())], value=copy.deepcopy(arg), type_comment=None), stmt))
    # where does the result go
    pre: list[ast.stmt] = []
    post: list[ast.stmt] = []
    if how == "whole" and isinstance(stmt, (ast.Assign, ast.AnnAssign)):
        tgt_expr = stmt.targets[0] if isinstance(stmt, ast.Assign) and len(stmt.targets) == 1 else (stmt.target if isinstance(stmt, ast.AnnAssign) else None)
        if tgt_expr is None:
            return None
        result_target: Optional[ast.expr] = copy.deepcopy(tgt_expr)
    elif how == "whole" and isinstance(stmt, ast.Expr):
        result_target = None
    elif how == "whole" and isinstance(stmt, ast.Return) and plain:
        result_target = None  # return helper(args)  ->  p = arg ...; local = ...; return <expression>
    else:
        tmp = f"__inl{k}"
        # a helper whose only exit is a final `return <name>`: that name IS the result (no temporary needed)
        rets = [n for s in body for n in ast.walk(s) if isinstance(n, ast.Return)]
        if len(rets) == 1 and body and rets[0] is body[-1] and isinstance(rets[0].value, ast.Name):
            tmp = rets[0].value.id
            body = body[:-1]
            result_target = None
        else:
            result_target = ast.Name(tmp, ast.Store())
        # the original statement keeps its shape, with the call replaced by the temporary
        class Repl(ast.NodeTransformer):
            def visit_Call(self, node: ast.Call) -> ast.AST:
                if node is call:
                    return ast.copy_location(ast.Name(tmp, ast.Load()), node)
                self.generic_visit(node)
                return node

        if isinstance(stmt, (ast.If, ast.While)):
            stmt.test = Repl().visit(stmt.test)
        else:
            stmt.value = Repl().visit(stmt.value)  # type: ignore[union-attr]
        post = [stmt]
    if how == "whole" and isinstance(stmt, (ast.Assign, ast.AnnAssign)) and isinstance(result_target, ast.Name):
        rets = [n for s in body for n in ast.walk(s) if isinstance(n, ast.Return)]
        if len(rets) == 1 and body and rets[0] is body[-1] and isinstance(rets[0].value, ast.Name) and rets[0].value.id == result_target.id:
            body = body[:-1]  # T = helper(..) where the helper ends in `return T`: the body already leaves its result in T
            result_target = None
    if plain:
        # T = helper(args)  ->  p = arg ...; local = ...; T = <expression>
        stmt.value = body[-1].value  # type: ignore[union-attr]
        out = prologue + body[:-1] + [stmt]
        for s in out:
            ast.fix_missing_locations(s)
        return out
    item = ast.withitem(context_expr=ast.Call(func=ast.Name(MARK, ast.Load()), args=[ast.Constant(target.qualname)], keywords=[]), optional_vars=result_target)
    block = ast.With(items=[item], body=prologue + body or [ast.Pass()], type_comment=None)
    ast.copy_location(block, stmt)
    ast.fix_missing_locations(block)
    block.ngosa_inline = target.qualname  # type: ignore[attr-defined]
    return pre + [block] + post


def _mark_returns(node: ast.AST) -> None:
    todo = [node]
    while todo:
        cur = todo.pop()
        if isinstance(cur, (ast.FunctionDef, ast.AsyncFunctionDef, ast.Lambda, ast.ClassDef)):
            continue
        if isinstance(cur, ast.Return):
            cur.ngosa_inline = True  # type: ignore[attr-defined]
        todo.extend(ast.iter_child_nodes(cur))


def is_inline_block(node: ast.AST) -> bool:
    return isinstance(node, ast.With) and bool(getattr(node, "ngosa_inline", None))
