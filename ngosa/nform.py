"""condition normal form of the analysed tree.

Rules name conditions of the code by their text.  A few rewrites of a condition never change behaviour and must not
change a verdict, so every module is brought into one normal form before anything else looks at it:

  * `not a == b` -> `a != b`, `not a in b` -> `a not in b`, `not a is b` -> `a is not b` (and the converses);
  * `a == b` / `a != b` between two plain names / attribute chains: enumeration constants (`ASTType.X`, `Sign.Y`) to the
    right, otherwise the textually smaller operand first (both are plain reads: `==` of the compared values - enum
    members, clingo AST nodes, strings, numbers - is symmetric);
  * `x == A or x == B` -> `x in (A, B)`, `x != A and x != B` -> `x not in (A, B)` for a plain `x` and enumeration
    constants, and a list/set display of such constants on the right of `in` becomes a tuple;
  * a condition temporary (`t = <cond>` directly followed by `if t:`, `t` used nowhere else) is put back into the `if`.

Only the analysed copy is rewritten; line numbers of the surviving nodes are kept for reports."""

from __future__ import annotations

import ast
import copy
import os
from typing import Optional


def _plain(node: ast.AST) -> bool:
    """a pure read: attribute / constant-or-name subscript chain that ends in a name"""
    while True:
        if isinstance(node, ast.Attribute):
            node = node.value
        elif isinstance(node, ast.Subscript) and isinstance(node.slice, (ast.Constant, ast.Name)):
            node = node.value
        else:
            break
    return isinstance(node, ast.Name)


def _root(node: ast.AST) -> str:
    while isinstance(node, ast.Attribute):
        node = node.value
    return node.id if isinstance(node, ast.Name) else ""


def is_enum_const(node: ast.AST) -> bool:
    """`ASTType.Literal`, `Sign.NoSign`, ... and capitalised global names (`Infimum`, sympy's `Add`)"""
    if isinstance(node, ast.Name):
        return node.id[:1].isupper()
    return isinstance(node, ast.Attribute) and isinstance(node.value, ast.Name) and node.value.id[:1].isupper() and node.attr[:1].isupper()


_NEG = {ast.Eq: ast.NotEq, ast.NotEq: ast.Eq, ast.In: ast.NotIn, ast.NotIn: ast.In, ast.Is: ast.IsNot, ast.IsNot: ast.Is}


class _Canon(ast.NodeTransformer):
    def __init__(self, sort_operands: bool = True, structure: bool = True):
        self.sort_operands = sort_operands
        self.structure = structure

    def visit_UnaryOp(self, node: ast.UnaryOp) -> ast.AST:
        self.generic_visit(node)
        if self.structure and isinstance(node.op, ast.Not) and isinstance(node.operand, ast.Compare) and len(node.operand.ops) == 1 and type(node.operand.ops[0]) in _NEG:
            cmp_ = node.operand
            new = ast.Compare(left=cmp_.left, ops=[_NEG[type(cmp_.ops[0])]()], comparators=cmp_.comparators)
            return ast.copy_location(new, node)
        return node

    def visit_Compare(self, node: ast.Compare) -> ast.AST:
        self.generic_visit(node)
        if len(node.ops) != 1:
            return node
        op, left, right = node.ops[0], node.left, node.comparators[0]
        if isinstance(op, (ast.Eq, ast.NotEq)):
            cl, cr = is_enum_const(left), is_enum_const(right)
            if (self.structure and cl and not cr and not isinstance(right, ast.Constant)) or (self.sort_operands and cl == cr and _plain(left) and _plain(right) and ast.unparse(left) > ast.unparse(right)):
                node.left, node.comparators = right, [left]
        if self.structure and isinstance(op, (ast.In, ast.NotIn)) and isinstance(right, (ast.List, ast.Set)) and right.elts and all(is_enum_const(e) for e in right.elts):
            node.comparators = [ast.copy_location(ast.Tuple(elts=right.elts, ctx=ast.Load()), right)]
        return node

    def visit_Call(self, node: ast.Call) -> ast.AST:
        """map(lambda x: E, xs) -> (E for x in xs); filter(lambda x: C, xs) -> (x for x in xs if C);
        list(<generator>) -> [..], set(<generator>) -> {..}"""
        self.generic_visit(node)
        if not self.structure or node.keywords:
            return node
        # D.setdefault(K, set()) / D.get(K, set()): the entry of a table whose missing entries are empty containers, i.e.
        # what `D[K]` is for a defaultdict(set)
        if isinstance(node.func, ast.Attribute) and node.func.attr in ("setdefault", "get") and len(node.args) == 2 and _plain(node.func.value):
            dflt = node.args[1]
            empty = (isinstance(dflt, ast.Call) and isinstance(dflt.func, ast.Name) and dflt.func.id in ("set", "list", "dict", "frozenset") and not dflt.args and not dflt.keywords) or \
                (isinstance(dflt, (ast.List, ast.Set, ast.Tuple)) and not dflt.elts) or (isinstance(dflt, ast.Dict) and not dflt.keys)
            if empty:
                return ast.copy_location(ast.Subscript(value=node.func.value, slice=node.args[0], ctx=ast.Load()), node)
        fname = node.func.id if isinstance(node.func, ast.Name) else None
        if fname in ("map", "filter") and len(node.args) == 2 and isinstance(node.args[0], ast.Lambda):
            lam = node.args[0]
            a = lam.args
            if len(a.args) == 1 and not (a.posonlyargs or a.kwonlyargs or a.vararg or a.kwarg or a.defaults):
                var = a.args[0].arg
                target = ast.Name(var, ast.Store())
                if fname == "map":
                    gen = ast.GeneratorExp(elt=lam.body, generators=[ast.comprehension(target=target, iter=node.args[1], ifs=[], is_async=0)])
                else:
                    gen = ast.GeneratorExp(elt=ast.Name(var, ast.Load()), generators=[ast.comprehension(target=target, iter=node.args[1], ifs=[lam.body], is_async=0)])
                return ast.copy_location(gen, node)
        if fname == "map" and len(node.args) == 2 and isinstance(node.args[0], (ast.Name, ast.Attribute)) and _plain(node.args[0]):
            gen = ast.GeneratorExp(elt=ast.Call(func=node.args[0], args=[ast.Name("_m", ast.Load())], keywords=[]),
                                   generators=[ast.comprehension(target=ast.Name("_m", ast.Store()), iter=node.args[1], ifs=[], is_async=0)])
            return ast.fix_missing_locations(ast.copy_location(gen, node))
        if fname in ("list", "set") and len(node.args) == 1 and isinstance(node.args[0], ast.GeneratorExp):
            gen = node.args[0]
            new = (ast.ListComp if fname == "list" else ast.SetComp)(elt=gen.elt, generators=gen.generators)
            return ast.copy_location(new, node)
        return node

    def _merge_predicate_parts(self, node: ast.BoolOp) -> None:
        """`p.name == N and p.arity == K` (either operand order, anywhere in one conjunction) is `p == Predicate(N, K)`:
        Predicate is a frozen dataclass of exactly these two fields"""
        if not isinstance(node.op, ast.And):
            return

        def side(cmp_: ast.AST, attr: str):  # type: ignore[no-untyped-def]
            if isinstance(cmp_, ast.Compare) and len(cmp_.ops) == 1 and isinstance(cmp_.ops[0], ast.Eq):
                l, r = cmp_.left, cmp_.comparators[0]
                for a, b in ((l, r), (r, l)):
                    if isinstance(a, ast.Attribute) and a.attr == attr and _plain(a.value):
                        yield a.value, b

        for i, c2 in enumerate(list(node.values)):
            for owner, arity in side(c2, "arity"):
                key = ast.unparse(owner)
                for j, c1 in enumerate(list(node.values)):
                    if j == i:
                        continue
                    hit = [(o, n) for o, n in side(c1, "name") if ast.unparse(o) == key]
                    if hit:
                        new = ast.Compare(left=owner, ops=[ast.Eq()], comparators=[ast.Call(func=ast.Name("Predicate", ast.Load()), args=[hit[0][1], arity], keywords=[])])
                        ast.fix_missing_locations(ast.copy_location(new, node.values[min(i, j)]))
                        lo, hi = min(i, j), max(i, j)
                        node.values[lo] = new
                        del node.values[hi]
                        self._merge_predicate_parts(node)
                        return

    def visit_BoolOp(self, node: ast.BoolOp) -> ast.AST:
        self.generic_visit(node)
        if not self.structure:
            return node
        self._merge_predicate_parts(node)
        if len(node.values) == 1:
            return node.values[0]
        want = ast.Eq if isinstance(node.op, ast.Or) else ast.NotEq
        groups: dict[str, list[int]] = {}
        for i, val in enumerate(node.values):
            if isinstance(val, ast.Compare) and len(val.ops) == 1 and _plain(val.left):
                cop, right = val.ops[0], val.comparators[0]
                if isinstance(cop, want) and is_enum_const(right):
                    groups.setdefault(ast.unparse(val.left), []).append(i)
                elif isinstance(cop, ast.In if want is ast.Eq else ast.NotIn) and isinstance(right, ast.Tuple) and right.elts and all(is_enum_const(e) for e in right.elts):
                    groups.setdefault(ast.unparse(val.left), []).append(i)
        drop: set[int] = set()
        for _key, idxs in groups.items():
            if len(idxs) < 2:
                continue
            elts: list[ast.expr] = []
            for i in idxs:
                right = node.values[i].comparators[0]  # type: ignore[attr-defined]
                elts.extend(right.elts if isinstance(right, ast.Tuple) else [right])
            first = node.values[idxs[0]]
            new = ast.Compare(left=first.left, ops=[ast.In() if want is ast.Eq else ast.NotIn()], comparators=[ast.Tuple(elts=elts, ctx=ast.Load())])  # type: ignore[attr-defined]
            ast.copy_location(new, first)
            ast.copy_location(new.comparators[0], first)
            node.values[idxs[0]] = new
            drop |= set(idxs[1:])
        if drop:
            node.values = [v for i, v in enumerate(node.values) if i not in drop]
            if len(node.values) == 1:
                return node.values[0]
        return node


def _name_uses(func: ast.AST, name: str) -> tuple[int, int]:
    loads = stores = 0
    for cur in ast.walk(func):
        if isinstance(cur, ast.Name) and cur.id == name:
            if isinstance(cur.ctx, ast.Load):
                loads += 1
            else:
                stores += 1
        elif isinstance(cur, (ast.Global, ast.Nonlocal)) and name in cur.names:
            stores += 2
    return loads, stores


def _inline_temps(func: ast.AST) -> int:
    done = 0
    for holder in ast.walk(func):
        for fld in ("body", "orelse", "finalbody"):
            block = getattr(holder, fld, None)
            if not isinstance(block, list) or len(block) < 2 or not isinstance(block[0], ast.stmt):
                continue
            i = 0
            while i + 1 < len(block):
                cur, nxt = block[i], block[i + 1]
                if (
                    isinstance(cur, ast.Assign)
                    and len(cur.targets) == 1
                    and isinstance(cur.targets[0], ast.Name)
                    and isinstance(cur.value, (ast.BoolOp, ast.Compare, ast.UnaryOp))
                    and isinstance(nxt, ast.If)
                    and isinstance(nxt.test, ast.Name)
                    and nxt.test.id == cur.targets[0].id
                    and _name_uses(func, nxt.test.id) == (1, 1)
                ):
                    nxt.test = cur.value
                    del block[i]
                    done += 1
                    continue
                i += 1
    return done


# ------------------------------------------------------------------------------------------------ comprehensions
def _loops_for(comp: ast.AST, leaf: list[ast.stmt], rename: dict[str, str]) -> list[ast.stmt]:
    """nested for/if statements that run `leaf` once per element the comprehension produces"""

    class Ren(ast.NodeTransformer):
        def visit_Name(self, node: ast.Name) -> ast.AST:
            if node.id in rename:
                return ast.copy_location(ast.Name(rename[node.id], node.ctx), node)
            return node

    body = leaf
    for gen in reversed(comp.generators):  # type: ignore[attr-defined]
        for cond in reversed(gen.ifs):
            body = [ast.copy_location(ast.If(test=Ren().visit(copy.deepcopy(cond)), body=body, orelse=[]), comp)]
        loop = ast.For(target=Ren().visit(copy.deepcopy(gen.target)), iter=Ren().visit(copy.deepcopy(gen.iter)), body=body, orelse=[], type_comment=None)
        body = [ast.copy_location(loop, comp)]
    for stmt in body:
        ast.fix_missing_locations(stmt)
    return body, Ren  # type: ignore[return-value]


def _expand_comprehensions(func: ast.AST) -> int:
    """statement-level comprehensions become the loops they abbreviate:
         T = [E for x in xs if c]        ->  T = [];  for x in xs: if c: T.append(E)
         T = {E for ..} / {K: V for ..}  ->  T = set() / {};  ... T.add(E) / T[K] = V
         R.extend([E for ..]) / R += [..] / R.update({E for ..})  ->  for ..: R.append(E) / R.add(E)
         return [E for ..]               ->  _ret = []; for ..: _ret.append(E); return _ret
    so that rules see one form whichever way the code is written (filters become `if` statements the flow engine reads)"""
    # names that are bound outside of comprehensions (parameters, assignment / loop / with / except targets)
    bound_outside: set[str] = set()

    def scan(node: ast.AST, in_comp: bool) -> None:
        for child in ast.iter_child_nodes(node):
            if isinstance(child, (ast.ListComp, ast.SetComp, ast.DictComp, ast.GeneratorExp)):
                scan(child, True)
                continue
            if isinstance(child, ast.Lambda):
                continue
            if not in_comp:
                if isinstance(child, ast.Name) and isinstance(child.ctx, (ast.Store, ast.Del)):
                    bound_outside.add(child.id)
                elif isinstance(child, ast.arg):
                    bound_outside.add(child.arg)
                elif isinstance(child, ast.ExceptHandler) and child.name:
                    bound_outside.add(child.name)
            scan(child, in_comp)

    scan(func, False)
    done = 0
    counter = [0]

    loads: dict[str, list[ast.Name]] = {}
    for n_ in ast.walk(func):
        if isinstance(n_, ast.Name) and isinstance(n_.ctx, ast.Load):
            loads.setdefault(n_.id, []).append(n_)
    loop_stack: list[ast.AST] = []

    def read_elsewhere(name: str, comp: ast.AST) -> bool:
        """is the outer binding of `name` still needed after (or around, inside an enclosing loop) this comprehension?"""
        inside = {id(x) for x in ast.walk(comp)}
        end = getattr(comp, "end_lineno", None) or getattr(comp, "lineno", 0)
        for ld in loads.get(name, []):
            if id(ld) in inside:
                continue
            if getattr(ld, "lineno", 0) > end:
                return True
            if any(id(ld) in {id(x) for x in ast.walk(lp)} for lp in loop_stack):
                return True
        return False

    def fresh_names(comp: ast.AST) -> dict[str, str]:
        rename: dict[str, str] = {}
        for gen in comp.generators:  # type: ignore[attr-defined]
            for n in ast.walk(gen.target):
                if isinstance(n, ast.Name) and n.id in bound_outside and read_elsewhere(n.id, comp):
                    counter[0] += 1
                    rename[n.id] = f"{n.id}__c{counter[0]}"  # the name is also used outside the comprehension: keep the scopes apart
        return rename

    def mentions(comp: ast.AST, name: str) -> bool:
        return any(isinstance(n, ast.Name) and n.id == name for n in ast.walk(comp))

    def expand(stmt: ast.stmt) -> Optional[list[ast.stmt]]:
        # a. T = <comprehension>
        if isinstance(stmt, (ast.Assign, ast.AnnAssign)):
            target = stmt.targets[0] if isinstance(stmt, ast.Assign) and len(stmt.targets) == 1 else (stmt.target if isinstance(stmt, ast.AnnAssign) else None)
            val = stmt.value
            if isinstance(target, ast.Name) and isinstance(val, (ast.ListComp, ast.SetComp, ast.DictComp)) and not mentions(val, target.id):
                rename = fresh_names(val)
                recv = ast.Name(target.id, ast.Load())
                if isinstance(val, ast.ListComp):
                    init: ast.expr = ast.List(elts=[], ctx=ast.Load())
                    leaf: ast.stmt = ast.Expr(ast.Call(func=ast.Attribute(value=recv, attr="append", ctx=ast.Load()), args=[val.elt], keywords=[]))
                elif isinstance(val, ast.SetComp):
                    init = ast.Call(func=ast.Name("set", ast.Load()), args=[], keywords=[])
                    leaf = ast.Expr(ast.Call(func=ast.Attribute(value=recv, attr="add", ctx=ast.Load()), args=[val.elt], keywords=[]))
                else:
                    init = ast.Dict(keys=[], values=[])
                    leaf = ast.Assign(targets=[ast.Subscript(value=recv, slice=val.key, ctx=ast.Store())], value=val.value, type_comment=None)
                ast.copy_location(leaf, stmt)
                loops, ren = _loops_for(val, [leaf], rename)  # type: ignore[misc]
                leaf_r = ren().visit(leaf)
                loops2, _ = _loops_for(val, [leaf_r], rename)  # type: ignore[misc]
                stmt.value = ast.copy_location(init, val)
                return [stmt] + loops2
        # b. R.extend(<comp>) / R.update(<comp>) / R += [comp]
        recv_e = elt = comp = None
        method = ""
        if isinstance(stmt, ast.Expr) and isinstance(stmt.value, ast.Call) and isinstance(stmt.value.func, ast.Attribute) and stmt.value.func.attr in ("extend", "update") and len(stmt.value.args) == 1 and not stmt.value.keywords:
            arg = stmt.value.args[0]
            if isinstance(arg, (ast.ListComp, ast.SetComp, ast.GeneratorExp)):
                recv_e, comp = stmt.value.func.value, arg
                method = "append" if stmt.value.func.attr == "extend" else "add"
        elif isinstance(stmt, ast.AugAssign) and isinstance(stmt.op, ast.Add) and isinstance(stmt.value, ast.ListComp):
            recv_e, comp, method = stmt.target, stmt.value, "append"
        if comp is not None and recv_e is not None and _plain(recv_e) and not (method == "add" and isinstance(comp.elt, ast.Tuple) and len(comp.elt.elts) == 2):
            rename = fresh_names(comp)
            recv_l = copy.deepcopy(recv_e)
            for n in ast.walk(recv_l):
                if isinstance(n, (ast.Name, ast.Attribute, ast.Subscript)):
                    n.ctx = ast.Load()
            leaf = ast.copy_location(ast.Expr(ast.Call(func=ast.Attribute(value=recv_l, attr=method, ctx=ast.Load()), args=[comp.elt], keywords=[])), stmt)
            _, ren = _loops_for(comp, [leaf], rename)  # type: ignore[misc]
            loops2, _ = _loops_for(comp, [ren().visit(leaf)], rename)  # type: ignore[misc]
            return loops2
        # c. return <comprehension>
        if isinstance(stmt, ast.Return) and isinstance(stmt.value, (ast.ListComp, ast.SetComp, ast.DictComp)) and not mentions(stmt.value, "_ret"):
            tmp = ast.copy_location(ast.Assign(targets=[ast.Name("_ret", ast.Store())], value=stmt.value, type_comment=None), stmt)
            out = expand(tmp)
            if out is not None:
                stmt.value = ast.copy_location(ast.Name("_ret", ast.Load()), stmt.value)
                return out + [stmt]
        # e. next(<generator>, default): the search loop it abbreviates
        #      return next((E for x in xs if c), D)   ->  for x in xs: if c: return E      return D
        #      T = next((E for x in xs if c), D)      ->  T = D;  for x in xs: if c: T = E; break     (one generator only)
        def is_next(v: Optional[ast.expr]) -> bool:
            return (isinstance(v, ast.Call) and isinstance(v.func, ast.Name) and v.func.id == "next" and len(v.args) == 2 and not v.keywords
                    and isinstance(v.args[0], ast.GeneratorExp) and "next" not in bound_outside)

        if isinstance(stmt, ast.Return) and is_next(stmt.value):
            gen_, dflt = stmt.value.args  # type: ignore[union-attr]
            rename = fresh_names(gen_)
            found = ast.copy_location(ast.Return(value=gen_.elt), stmt)
            _, ren = _loops_for(gen_, [found], rename)  # type: ignore[misc]
            loops2, _ = _loops_for(gen_, [ren().visit(found)], rename)  # type: ignore[misc]
            last = ast.copy_location(ast.Return(value=dflt), stmt)
            for mark in ("ngosa_inline",):
                if getattr(stmt, mark, None) is not None:
                    setattr(found, mark, getattr(stmt, mark))
                    setattr(last, mark, getattr(stmt, mark))
            return loops2 + [last]
        if isinstance(stmt, (ast.Assign, ast.AnnAssign)) and is_next(stmt.value) and len(stmt.value.args[0].generators) == 1:  # type: ignore[union-attr]
            target = stmt.targets[0] if isinstance(stmt, ast.Assign) and len(stmt.targets) == 1 else (stmt.target if isinstance(stmt, ast.AnnAssign) else None)
            if isinstance(target, ast.Name) and not mentions(stmt.value, target.id):
                gen_, dflt = stmt.value.args  # type: ignore[union-attr]
                rename = fresh_names(gen_)
                hit_ = ast.copy_location(ast.Assign(targets=[ast.Name(target.id, ast.Store())], value=gen_.elt, type_comment=None), stmt)
                brk_ = ast.copy_location(ast.Break(), stmt)
                _, ren = _loops_for(gen_, [hit_], rename)  # type: ignore[misc]
                # the break must sit next to the assignment, inside the innermost if
                inner_if_body = [ren().visit(hit_), brk_]
                loops2, _ = _loops_for(gen_, inner_if_body, rename)  # type: ignore[misc]
                stmt.value = dflt
                return [stmt] + loops2
        # d. return [not] any(<generator>) / all(<generator>): the search loop it abbreviates
        if isinstance(stmt, ast.Return) and isinstance(stmt.value, ast.BoolOp) and isinstance(stmt.value.op, ast.And) and len(stmt.value.values) >= 2:
            # return A and all(<generator>)   ->   if not A: return False;  return all(<generator>)   (A a comparison)
            lastv = stmt.value.values[-1]
            inner = lastv.operand if isinstance(lastv, ast.UnaryOp) and isinstance(lastv.op, ast.Not) else lastv
            if (isinstance(inner, ast.Call) and isinstance(inner.func, ast.Name) and inner.func.id in ("any", "all") and len(inner.args) == 1 and isinstance(inner.args[0], (ast.GeneratorExp, ast.ListComp))
                    and all(isinstance(v, ast.Compare) for v in stmt.value.values[:-1])):
                prefix = stmt.value.values[:-1]
                pre = prefix[0] if len(prefix) == 1 else ast.BoolOp(op=ast.And(), values=prefix)
                guard = ast.copy_location(ast.If(test=_negate(copy.deepcopy(pre)), body=[ast.copy_location(ast.Return(value=ast.Constant(False)), stmt)], orelse=[]), stmt)
                rest_ret = ast.copy_location(ast.Return(value=lastv), stmt)
                for mark in ("ngosa_inline",):
                    if getattr(stmt, mark, None) is not None:
                        setattr(guard.body[0], mark, getattr(stmt, mark))
                        setattr(rest_ret, mark, getattr(stmt, mark))
                tail = expand(rest_ret)
                if tail is not None:
                    return [guard] + tail
        if isinstance(stmt, ast.Return) and stmt.value is not None:
            val_, neg = stmt.value, False
            if isinstance(val_, ast.UnaryOp) and isinstance(val_.op, ast.Not):
                val_, neg = val_.operand, True
            if (isinstance(val_, ast.Call) and isinstance(val_.func, ast.Name) and val_.func.id in ("any", "all") and len(val_.args) == 1 and not val_.keywords
                    and isinstance(val_.args[0], (ast.GeneratorExp, ast.ListComp)) and "any" not in bound_outside and "all" not in bound_outside):
                comp_ = val_.args[0]
                is_any = val_.func.id == "any"
                rename = fresh_names(comp_)
                test = comp_.elt if is_any else _negate(copy.deepcopy(comp_.elt))
                found = ast.copy_location(ast.Return(value=ast.Constant((is_any) != neg)), stmt)
                leaf = ast.copy_location(ast.If(test=test, body=[found], orelse=[]), stmt)
                _, ren = _loops_for(comp_, [leaf], rename)  # type: ignore[misc]
                loops2, _ = _loops_for(comp_, [ren().visit(leaf)], rename)  # type: ignore[misc]
                last = ast.copy_location(ast.Return(value=ast.Constant((not is_any) != neg)), stmt)
                for mark in ("ngosa_inline",):
                    if getattr(stmt, mark, None) is not None:
                        setattr(found, mark, getattr(stmt, mark))
                        setattr(last, mark, getattr(stmt, mark))
                return loops2 + [last]
        return None

    def walk_block(block: list[ast.stmt]) -> None:
        nonlocal done
        i = 0
        while i < len(block):
            stmt = block[i]
            if isinstance(stmt, (ast.FunctionDef, ast.AsyncFunctionDef, ast.ClassDef)):
                i += 1
                continue
            new = expand(stmt)
            if new is not None:
                for s in new:
                    ast.fix_missing_locations(s)
                block[i : i + 1] = new
                done += 1
                i += len(new)
                continue
            is_loop = isinstance(stmt, (ast.For, ast.While))
            if is_loop:
                loop_stack.append(stmt)
            for fld in ("body", "orelse", "finalbody"):
                sub_ = getattr(stmt, fld, None)
                if isinstance(sub_, list) and sub_ and isinstance(sub_[0], ast.stmt):
                    walk_block(sub_)
            for h in getattr(stmt, "handlers", []) or []:
                walk_block(h.body)
            if is_loop:
                loop_stack.pop()
            i += 1

    walk_block(func.body)  # type: ignore[attr-defined]
    return done


def rename_comp_vars(tree: ast.AST) -> ast.AST:
    """variables of comprehensions / generator expressions that remain expressions get positional names (_g0, _g1, ..
    per outermost expression): `any(f(x) for x in xs)` and `any(f(y) for y in xs)` are the same condition"""

    class R(ast.NodeTransformer):
        def __init__(self) -> None:
            self.env: list[dict[str, str]] = []
            self.n = 0

        def _comp(self, node: ast.AST) -> ast.AST:
            top = not self.env
            if top:
                self.n = 0
            env: dict[str, str] = {}
            for gen in node.generators:  # type: ignore[attr-defined]
                for t in ast.walk(gen.target):
                    if isinstance(t, ast.Name) and t.id not in env:
                        env[t.id] = f"_g{self.n}"
                        self.n += 1
            # the first iterable is evaluated outside the comprehension's scope
            first = node.generators[0]  # type: ignore[attr-defined]
            first.iter = self.visit(first.iter)
            self.env.append(env)
            first.target = self.visit(first.target)
            first.ifs = [self.visit(x) for x in first.ifs]
            for gen in node.generators[1:]:  # type: ignore[attr-defined]
                gen.target = self.visit(gen.target)
                gen.iter = self.visit(gen.iter)
                gen.ifs = [self.visit(x) for x in gen.ifs]
            if isinstance(node, ast.DictComp):
                node.key = self.visit(node.key)
                node.value = self.visit(node.value)
            else:
                node.elt = self.visit(node.elt)  # type: ignore[attr-defined]
            self.env.pop()
            return node

        visit_ListComp = visit_SetComp = visit_DictComp = visit_GeneratorExp = _comp  # type: ignore[assignment]

        def visit_Lambda(self, node: ast.Lambda) -> ast.AST:
            shadow = {a.arg: a.arg for a in node.args.posonlyargs + node.args.args + node.args.kwonlyargs}
            self.env.append(shadow)
            self.generic_visit(node)
            self.env.pop()
            return node

        def visit_Name(self, node: ast.Name) -> ast.AST:
            for env in reversed(self.env):
                if node.id in env:
                    return ast.copy_location(ast.Name(env[node.id], node.ctx), node)
            return node

    return R().visit(tree)


def _lift_ifexp(tree: ast.AST) -> int:
    """`xs.append(A if c else B)` -> `if c: xs.append(A) else: xs.append(B)`; same for `return A if c else B` and
    `t = A if c else B`: a choice written as a conditional expression reads like the statement-level choice"""
    done = 0
    for holder in ast.walk(tree):
        for fld in ("body", "orelse", "finalbody"):
            block = getattr(holder, fld, None)
            if not isinstance(block, list) or not block or not isinstance(block[0], ast.stmt):
                continue
            for i, stmt in enumerate(block):
                ife = None
                if isinstance(stmt, ast.Expr) and isinstance(stmt.value, ast.Call) and len(stmt.value.args) == 1 and not stmt.value.keywords and isinstance(stmt.value.args[0], ast.IfExp) and _plain(stmt.value.func):
                    ife = stmt.value.args[0]

                    def mk(v: ast.expr, stmt: ast.stmt = stmt) -> ast.stmt:
                        new = copy.deepcopy(stmt)
                        new.value.args = [v]  # type: ignore[attr-defined]
                        return new
                elif isinstance(stmt, (ast.Return, ast.Assign, ast.AnnAssign)) and isinstance(stmt.value, ast.IfExp) and (
                    isinstance(stmt, ast.Return) or (isinstance(stmt, ast.Assign) and len(stmt.targets) == 1 and isinstance(stmt.targets[0], ast.Name)) or (isinstance(stmt, ast.AnnAssign) and isinstance(stmt.target, ast.Name))
                ):
                    ife = stmt.value

                    def mk(v: ast.expr, stmt: ast.stmt = stmt) -> ast.stmt:  # type: ignore[misc]
                        new = copy.copy(stmt)
                        new.value = v  # type: ignore[attr-defined]
                        return new
                if ife is None:
                    continue
                new_if = ast.If(test=ife.test, body=[mk(ife.body)], orelse=[mk(ife.orelse)])
                ast.copy_location(new_if, stmt)
                ast.fix_missing_locations(new_if)
                block[i] = new_if
                done += 1
    return done


def fold_accumulator(name: str, init: ast.expr, loop: ast.stmt) -> Optional[ast.expr]:
    """inverse of the expansion: `name = [] / set() / {}` followed by a loop nest whose only effect is
    `name.append(E)` / `name.add(E)` / `name[K] = V`  ->  the comprehension that says the same"""
    if isinstance(init, ast.List) and not init.elts:
        kind = "list"
    elif isinstance(init, ast.Call) and isinstance(init.func, ast.Name) and init.func.id == "set" and not init.args and not init.keywords:
        kind = "set"
    elif isinstance(init, ast.Dict) and not init.keys:
        kind = "dict"
    else:
        return None
    gens: list[ast.comprehension] = []
    cur: ast.stmt = loop
    while True:
        if isinstance(cur, ast.For) and not cur.orelse and len(cur.body) == 1:
            gens.append(ast.comprehension(target=cur.target, iter=cur.iter, ifs=[], is_async=0))
            cur = cur.body[0]
        elif isinstance(cur, ast.If) and not cur.orelse and len(cur.body) == 1 and gens:
            gens[-1].ifs.append(cur.test)
            cur = cur.body[0]
        else:
            break
    if not gens:
        return None
    # `if c: name.append(A) else: name.append(B)` as the innermost statement: the element is `A if c else B`
    if kind in ("list", "set") and isinstance(cur, ast.If) and len(cur.body) == 1 and len(cur.orelse) == 1:
        meth = "append" if kind == "list" else "add"

        def arg_of(s: ast.stmt) -> Optional[ast.expr]:
            if isinstance(s, ast.Expr) and isinstance(s.value, ast.Call) and isinstance(s.value.func, ast.Attribute) and isinstance(s.value.func.value, ast.Name) and s.value.func.value.id == name \
                    and s.value.func.attr == meth and len(s.value.args) == 1 and not s.value.keywords:
                return s.value.args[0]
            return None

        a, b = arg_of(cur.body[0]), arg_of(cur.orelse[0])
        if a is not None and b is not None:
            elt = ast.IfExp(test=cur.test, body=a, orelse=b)
            if any(isinstance(n, ast.Name) and n.id == name for g in gens for n in ast.walk(g)) or any(isinstance(n, ast.Name) and n.id == name for n in ast.walk(elt)):
                return None
            return (ast.ListComp if kind == "list" else ast.SetComp)(elt=elt, generators=gens)
    # `name.extend(E)` / `name.update(E)` as the innermost statement: one more generator over E
    if kind in ("list", "set") and isinstance(cur, ast.Expr) and isinstance(cur.value, ast.Call) and isinstance(cur.value.func, ast.Attribute) and isinstance(cur.value.func.value, ast.Name) \
            and cur.value.func.value.id == name and cur.value.func.attr == ("extend" if kind == "list" else "update") and len(cur.value.args) == 1 and not cur.value.keywords:
        gens.append(ast.comprehension(target=ast.Name("_e", ast.Store()), iter=cur.value.args[0], ifs=[], is_async=0))
        if any(isinstance(n, ast.Name) and n.id == name for g in gens for n in ast.walk(g)):
            return None
        return (ast.ListComp if kind == "list" else ast.SetComp)(elt=ast.Name("_e", ast.Load()), generators=gens)
    if kind in ("list", "set") and isinstance(cur, ast.Expr) and isinstance(cur.value, ast.Call) and isinstance(cur.value.func, ast.Attribute) and isinstance(cur.value.func.value, ast.Name) \
            and cur.value.func.value.id == name and cur.value.func.attr == ("append" if kind == "list" else "add") and len(cur.value.args) == 1 and not cur.value.keywords:
        elt = cur.value.args[0]
        if any(isinstance(n, ast.Name) and n.id == name for g in gens for n in ast.walk(g)) or any(isinstance(n, ast.Name) and n.id == name for n in ast.walk(elt)):
            return None
        return (ast.ListComp if kind == "list" else ast.SetComp)(elt=elt, generators=gens)
    if kind == "dict" and isinstance(cur, ast.Assign) and len(cur.targets) == 1 and isinstance(cur.targets[0], ast.Subscript) and isinstance(cur.targets[0].value, ast.Name) and cur.targets[0].value.id == name:
        return ast.DictComp(key=cur.targets[0].slice, value=cur.value, generators=gens)
    return None


_NEGATIVE = (ast.NotEq, ast.NotIn, ast.IsNot)


def _negate(test: ast.expr) -> ast.expr:
    if isinstance(test, ast.UnaryOp) and isinstance(test.op, ast.Not):
        return test.operand
    if isinstance(test, ast.Compare) and len(test.ops) == 1 and type(test.ops[0]) in _NEG:
        return ast.copy_location(ast.Compare(left=test.left, ops=[_NEG[type(test.ops[0])]()], comparators=test.comparators), test)
    return ast.copy_location(ast.UnaryOp(op=ast.Not(), operand=test), test)


def _is_negative(test: ast.expr) -> bool:
    if isinstance(test, ast.UnaryOp) and isinstance(test.op, ast.Not):
        return True
    return isinstance(test, ast.Compare) and len(test.ops) == 1 and isinstance(test.ops[0], _NEGATIVE)


def _terminates(block: list[ast.stmt]) -> bool:
    if not block:
        return False
    last = block[-1]
    if isinstance(last, (ast.Return, ast.Raise, ast.Continue, ast.Break)):
        return True
    if isinstance(last, ast.If):
        return bool(last.orelse) and _terminates(last.body) and _terminates(last.orelse)
    return False


def _shape_ifs(tree: ast.AST) -> tuple[int, int]:
    """`if <negative test>: A else: B` -> `if <positive test>: B else: A`;  `if c: ...return` + `else: rest` -> the
    rest follows the `if` (no else after a branch that cannot fall through)"""
    flipped = flattened = 0
    for node in ast.walk(tree):
        if isinstance(node, ast.If) and node.orelse and _is_negative(node.test):
            node.test = _negate(node.test)
            node.body, node.orelse = node.orelse, node.body
            flipped += 1
    changed = True
    while changed:
        changed = False
        for holder in ast.walk(tree):
            for fld in ("body", "orelse", "finalbody"):
                block = getattr(holder, fld, None)
                if not isinstance(block, list) or not block or not isinstance(block[0], ast.stmt):
                    continue
                for i, stmt in enumerate(block):
                    if isinstance(stmt, ast.If) and stmt.orelse and _terminates(stmt.body):
                        rest = stmt.orelse
                        stmt.orelse = []
                        block[i + 1 : i + 1] = rest
                        flattened += 1
                        changed = True
                        break
    return flipped, flattened


_LOG_METHODS = {"debug", "info", "warning", "warn", "error", "critical", "exception", "log"}


def _strip_logging(tree: ast.Module) -> int:
    """statements that only write to the module logger (`log.info(...)`, `logging.debug(...)`) are dropped: they do not
    take part in any property, and adding or removing one must not change what a loop or branch looks like to a rule"""
    loggers = {"logging"}
    for n in tree.body:
        if isinstance(n, ast.Assign) and isinstance(n.value, ast.Call) and ast.unparse(n.value.func).endswith("getLogger"):
            loggers |= {t.id for t in n.targets if isinstance(t, ast.Name)}
    done = 0
    for holder in ast.walk(tree):
        for fld in ("body", "orelse", "finalbody"):
            block = getattr(holder, fld, None)
            if not isinstance(block, list) or not block or not isinstance(block[0], ast.stmt):
                continue
            keep = [s for s in block if not (isinstance(s, ast.Expr) and isinstance(s.value, ast.Call) and isinstance(s.value.func, ast.Attribute) and s.value.func.attr in _LOG_METHODS
                                             and isinstance(s.value.func.value, ast.Name) and s.value.func.value.id in loggers)]
            if len(keep) != len(block):
                done += len(block) - len(keep)
                if not keep and fld == "body":
                    keep = [ast.copy_location(ast.Pass(), block[0])]
                block[:] = keep
    return done


def normal_form(tree: ast.Module) -> ast.Module:
    """the name-independent part: run before local names are alpha-normalised"""
    _strip_logging(tree)
    tree = _Canon(sort_operands=False).visit(tree)
    if not os.environ.get("NGOSA_NO_LOOPS"):
        for node in ast.walk(tree):
            if isinstance(node, (ast.FunctionDef, ast.AsyncFunctionDef)):
                _expand_comprehensions(node)
    for _ in range(3):
        if not _lift_ifexp(tree):
            break
    done = 0
    for node in ast.walk(tree):
        if isinstance(node, (ast.FunctionDef, ast.AsyncFunctionDef)):
            done += _inline_temps(node)
    _shape_ifs(tree)
    rename_comp_vars(tree)
    tree.ngosa_temps_inlined = done  # type: ignore[attr-defined]
    return tree


def inline_condition_temps(tree: ast.Module) -> ast.Module:
    """only the part of the normal form that matters to a type checker: condition temporaries back into their `if`"""
    for node in ast.walk(tree):
        if isinstance(node, (ast.FunctionDef, ast.AsyncFunctionDef)):
            _inline_temps(node)
    return tree


def sort_operands(tree: ast.AST) -> ast.AST:
    """the name-dependent part (textual order of the operands of == / !=): run after alpha-normalisation"""
    return _Canon(sort_operands=True, structure=False).visit(tree)


def canon_expr(text: str) -> str:
    """normal form of a condition given as text (for tables keyed by condition text)"""
    tree = ast.parse(text, mode="eval")
    return ast.unparse(canon_inplace(tree))  # type: ignore[arg-type]


def canon_inplace(node: ast.expr) -> ast.expr:
    """structure first, then positional names for comprehension variables, then the (name dependent) operand order"""
    node = _Canon(sort_operands=False).visit(node)
    node = rename_comp_vars(node)
    return _Canon(sort_operands=True, structure=False).visit(node)  # type: ignore[no-any-return]


def canon_node(node: ast.AST) -> ast.AST:
    return canon_inplace(copy.deepcopy(node))  # type: ignore[arg-type]
