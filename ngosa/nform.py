"""condition normal form of the analysed tree.

Rules name conditions of the code by their text.  A few rewrites of a condition never change behaviour and must not
change a verdict, so every module is brought into one normal form before anything else looks at it:

  * `not a == b` -> `a != b`, `not a in b` -> `a not in b`, `not a is b` -> `a is not b` (and the converses);
  * `a == b` / `a != b` between two plain names / attribute chains: enumeration constants (`ASTType.X`, `Sign.Y`) to the
    right, otherwise the textually smaller operand first (both are plain reads: `==` of the compared values - enum
    members, clingo AST nodes, strings, numbers - is symmetric);
  * `x == A or x == B` -> `x in (A, B)`, `x != A and x != B` -> `x not in (A, B)` for a plain `x` and enumeration
    constants, and a list/set display of such constants on the right of `in` becomes a tuple;
  * a condition temporary (`t = <cond>` directly followed by `if t:`, `t` used nowhere else) is put back into the `if`.

Only the analysed copy is rewritten; line numbers of the surviving nodes are kept for reports."""

from __future__ import annotations

import ast
import copy


def _plain(node: ast.AST) -> bool:
    """a pure read: attribute / constant-or-name subscript chain that ends in a name"""
    while True:
        if isinstance(node, ast.Attribute):
            node = node.value
        elif isinstance(node, ast.Subscript) and isinstance(node.slice, (ast.Constant, ast.Name)):
            node = node.value
        else:
            break
    return isinstance(node, ast.Name)


def _root(node: ast.AST) -> str:
    while isinstance(node, ast.Attribute):
        node = node.value
    return node.id if isinstance(node, ast.Name) else ""


def is_enum_const(node: ast.AST) -> bool:
    """`ASTType.Literal`, `Sign.NoSign`, ... and capitalised global names (`Infimum`, sympy's `Add`)"""
    if isinstance(node, ast.Name):
        return node.id[:1].isupper()
    return isinstance(node, ast.Attribute) and isinstance(node.value, ast.Name) and node.value.id[:1].isupper() and node.attr[:1].isupper()


_NEG = {ast.Eq: ast.NotEq, ast.NotEq: ast.Eq, ast.In: ast.NotIn, ast.NotIn: ast.In, ast.Is: ast.IsNot, ast.IsNot: ast.Is}


class _Canon(ast.NodeTransformer):
    def __init__(self, sort_operands: bool = True, structure: bool = True):
        self.sort_operands = sort_operands
        self.structure = structure

    def visit_UnaryOp(self, node: ast.UnaryOp) -> ast.AST:
        self.generic_visit(node)
        if self.structure and isinstance(node.op, ast.Not) and isinstance(node.operand, ast.Compare) and len(node.operand.ops) == 1 and type(node.operand.ops[0]) in _NEG:
            cmp_ = node.operand
            new = ast.Compare(left=cmp_.left, ops=[_NEG[type(cmp_.ops[0])]()], comparators=cmp_.comparators)
            return ast.copy_location(new, node)
        return node

    def visit_Compare(self, node: ast.Compare) -> ast.AST:
        self.generic_visit(node)
        if len(node.ops) != 1:
            return node
        op, left, right = node.ops[0], node.left, node.comparators[0]
        if isinstance(op, (ast.Eq, ast.NotEq)):
            cl, cr = is_enum_const(left), is_enum_const(right)
            if (self.structure and cl and not cr and not isinstance(right, ast.Constant)) or (self.sort_operands and cl == cr and _plain(left) and _plain(right) and ast.unparse(left) > ast.unparse(right)):
                node.left, node.comparators = right, [left]
        if self.structure and isinstance(op, (ast.In, ast.NotIn)) and isinstance(right, (ast.List, ast.Set)) and right.elts and all(is_enum_const(e) for e in right.elts):
            node.comparators = [ast.copy_location(ast.Tuple(elts=right.elts, ctx=ast.Load()), right)]
        return node

    def visit_BoolOp(self, node: ast.BoolOp) -> ast.AST:
        self.generic_visit(node)
        if not self.structure:
            return node
        want = ast.Eq if isinstance(node.op, ast.Or) else ast.NotEq
        groups: dict[str, list[int]] = {}
        for i, val in enumerate(node.values):
            if isinstance(val, ast.Compare) and len(val.ops) == 1 and _plain(val.left):
                cop, right = val.ops[0], val.comparators[0]
                if isinstance(cop, want) and is_enum_const(right):
                    groups.setdefault(ast.unparse(val.left), []).append(i)
                elif isinstance(cop, ast.In if want is ast.Eq else ast.NotIn) and isinstance(right, ast.Tuple) and right.elts and all(is_enum_const(e) for e in right.elts):
                    groups.setdefault(ast.unparse(val.left), []).append(i)
        drop: set[int] = set()
        for _key, idxs in groups.items():
            if len(idxs) < 2:
                continue
            elts: list[ast.expr] = []
            for i in idxs:
                right = node.values[i].comparators[0]  # type: ignore[attr-defined]
                elts.extend(right.elts if isinstance(right, ast.Tuple) else [right])
            first = node.values[idxs[0]]
            new = ast.Compare(left=first.left, ops=[ast.In() if want is ast.Eq else ast.NotIn()], comparators=[ast.Tuple(elts=elts, ctx=ast.Load())])  # type: ignore[attr-defined]
            ast.copy_location(new, first)
            ast.copy_location(new.comparators[0], first)
            node.values[idxs[0]] = new
            drop |= set(idxs[1:])
        if drop:
            node.values = [v for i, v in enumerate(node.values) if i not in drop]
            if len(node.values) == 1:
                return node.values[0]
        return node


def _name_uses(func: ast.AST, name: str) -> tuple[int, int]:
    loads = stores = 0
    for cur in ast.walk(func):
        if isinstance(cur, ast.Name) and cur.id == name:
            if isinstance(cur.ctx, ast.Load):
                loads += 1
            else:
                stores += 1
        elif isinstance(cur, (ast.Global, ast.Nonlocal)) and name in cur.names:
            stores += 2
    return loads, stores


def _inline_temps(func: ast.AST) -> int:
    done = 0
    for holder in ast.walk(func):
        for fld in ("body", "orelse", "finalbody"):
            block = getattr(holder, fld, None)
            if not isinstance(block, list) or len(block) < 2 or not isinstance(block[0], ast.stmt):
                continue
            i = 0
            while i + 1 < len(block):
                cur, nxt = block[i], block[i + 1]
                if (
                    isinstance(cur, ast.Assign)
                    and len(cur.targets) == 1
                    and isinstance(cur.targets[0], ast.Name)
                    and isinstance(cur.value, (ast.BoolOp, ast.Compare, ast.UnaryOp))
                    and isinstance(nxt, ast.If)
                    and isinstance(nxt.test, ast.Name)
                    and nxt.test.id == cur.targets[0].id
                    and _name_uses(func, nxt.test.id) == (1, 1)
                ):
                    nxt.test = cur.value
                    del block[i]
                    done += 1
                    continue
                i += 1
    return done


_NEGATIVE = (ast.NotEq, ast.NotIn, ast.IsNot)


def _negate(test: ast.expr) -> ast.expr:
    if isinstance(test, ast.UnaryOp) and isinstance(test.op, ast.Not):
        return test.operand
    if isinstance(test, ast.Compare) and len(test.ops) == 1 and type(test.ops[0]) in _NEG:
        return ast.copy_location(ast.Compare(left=test.left, ops=[_NEG[type(test.ops[0])]()], comparators=test.comparators), test)
    return ast.copy_location(ast.UnaryOp(op=ast.Not(), operand=test), test)


def _is_negative(test: ast.expr) -> bool:
    if isinstance(test, ast.UnaryOp) and isinstance(test.op, ast.Not):
        return True
    return isinstance(test, ast.Compare) and len(test.ops) == 1 and isinstance(test.ops[0], _NEGATIVE)


def _terminates(block: list[ast.stmt]) -> bool:
    if not block:
        return False
    last = block[-1]
    if isinstance(last, (ast.Return, ast.Raise, ast.Continue, ast.Break)):
        return True
    if isinstance(last, ast.If):
        return bool(last.orelse) and _terminates(last.body) and _terminates(last.orelse)
    return False


def _shape_ifs(tree: ast.AST) -> tuple[int, int]:
    """`if <negative test>: A else: B` -> `if <positive test>: B else: A`;  `if c: ...return` + `else: rest` -> the
    rest follows the `if` (no else after a branch that cannot fall through)"""
    flipped = flattened = 0
    for node in ast.walk(tree):
        if isinstance(node, ast.If) and node.orelse and _is_negative(node.test):
            node.test = _negate(node.test)
            node.body, node.orelse = node.orelse, node.body
            flipped += 1
    changed = True
    while changed:
        changed = False
        for holder in ast.walk(tree):
            for fld in ("body", "orelse", "finalbody"):
                block = getattr(holder, fld, None)
                if not isinstance(block, list) or not block or not isinstance(block[0], ast.stmt):
                    continue
                for i, stmt in enumerate(block):
                    if isinstance(stmt, ast.If) and stmt.orelse and _terminates(stmt.body):
                        rest = stmt.orelse
                        stmt.orelse = []
                        block[i + 1 : i + 1] = rest
                        flattened += 1
                        changed = True
                        break
    return flipped, flattened


def normal_form(tree: ast.Module) -> ast.Module:
    """the name-independent part: run before local names are alpha-normalised"""
    tree = _Canon(sort_operands=False).visit(tree)
    done = 0
    for node in ast.walk(tree):
        if isinstance(node, (ast.FunctionDef, ast.AsyncFunctionDef)):
            done += _inline_temps(node)
    _shape_ifs(tree)
    tree.ngosa_temps_inlined = done  # type: ignore[attr-defined]
    return tree


def sort_operands(tree: ast.AST) -> ast.AST:
    """the name-dependent part (textual order of the operands of == / !=): run after alpha-normalisation"""
    return _Canon(sort_operands=True, structure=False).visit(tree)


def canon_expr(text: str) -> str:
    """normal form of a condition given as text (for tables keyed by condition text)"""
    tree = ast.parse(text, mode="eval")
    return ast.unparse(_Canon().visit(tree))


def canon_inplace(node: ast.expr) -> ast.expr:
    return _Canon().visit(node)  # type: ignore[no-any-return]


def canon_node(node: ast.AST) -> ast.AST:
    return _Canon().visit(copy.deepcopy(node))
