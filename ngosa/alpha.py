"""alpha-normalisation of local variable names.

Rules are written against the local names of the reference tree.  A pure renaming of locals (or parameters) is a
behaviour-preserving edit and must not change a verdict, so every function of the current tree is renamed *back* to
the reference names before any rule runs.  Locals are matched by a fingerprint of their binding sites that does not
depend on local names:  (kind of binding, position inside a tuple target, the bound expression with all local names
blanked), in source order; locals with equal fingerprints are matched by their order of first binding.
`locals_ref.json` holds the fingerprints of the reference tree (regenerate with tools/gen_locals_ref.py).
A local without a match simply keeps its name."""

from __future__ import annotations

import ast
import copy
import hashlib
import json
import os
from typing import Optional

REF_FILE = os.path.join(os.path.dirname(os.path.abspath(__file__)), "locals_ref.json")


def _params(node: ast.AST) -> list[str]:
    a = node.args  # type: ignore[attr-defined]
    out = [x.arg for x in a.posonlyargs + a.args]
    if a.vararg:
        out.append(a.vararg.arg)
    out += [x.arg for x in a.kwonlyargs]
    if a.kwarg:
        out.append(a.kwarg.arg)
    return out


def _own_nodes(func: ast.AST) -> list[ast.AST]:
    """nodes of the function body in source order, not descending into nested functions / lambdas / classes"""
    out: list[ast.AST] = []
    body = [func.body] if isinstance(func, ast.Lambda) else list(func.body)  # type: ignore[attr-defined]
    todo: list[ast.AST] = list(reversed(body))
    while todo:
        cur = todo.pop()
        out.append(cur)
        if isinstance(cur, (ast.FunctionDef, ast.AsyncFunctionDef, ast.Lambda, ast.ClassDef)):
            continue
        todo.extend(reversed(list(ast.iter_child_nodes(cur))))
    return out


def local_names(func: ast.AST) -> set[str]:
    params = set(_params(func))
    assigned: set[str] = set()
    glob: set[str] = set()
    defs: set[str] = set()
    for cur in _own_nodes(func):
        if isinstance(cur, (ast.FunctionDef, ast.AsyncFunctionDef, ast.ClassDef)):
            defs.add(cur.name)
        elif isinstance(cur, ast.Global):
            glob |= set(cur.names)
        elif isinstance(cur, ast.Name) and isinstance(cur.ctx, (ast.Store, ast.Del)):
            assigned.add(cur.id)
        elif isinstance(cur, ast.ExceptHandler) and cur.name:
            assigned.add(cur.name)
    return {n for n in assigned - params - glob - defs if not n.startswith("__")}


class _Blank(ast.NodeTransformer):
    def __init__(self, names: set[str]):
        self.names = names

    def visit_Name(self, node: ast.Name) -> ast.AST:
        if node.id in self.names:
            return ast.Name("_", node.ctx)
        return node

    def visit_Lambda(self, node: ast.Lambda) -> ast.AST:
        # parameters of a lambda are bound names too: blank them together with the locals
        inner = _Blank(self.names | set(_params(node)))
        body = inner.visit(node.body)
        return ast.Call(func=ast.Name("LAMBDA", ast.Load()), args=[ast.Constant(len(_params(node))), body], keywords=[])

    def visit_arg(self, node: ast.arg) -> ast.AST:
        return node


def _shape(expr: Optional[ast.AST], names: set[str]) -> str:
    if expr is None:
        return "-"
    from .nform import sort_operands

    return ast.unparse(sort_operands(_Blank(names).visit(copy.deepcopy(expr))))


def _targets(target: ast.AST, path: str = "") -> list[tuple[str, str]]:
    if isinstance(target, ast.Name):
        return [(target.id, path)]
    if isinstance(target, (ast.Tuple, ast.List)):
        out = []
        for i, e in enumerate(target.elts):
            out.extend(_targets(e, f"{path}.{i}"))
        return out
    if isinstance(target, ast.Starred):
        return _targets(target.value, path + "*")
    return []


def fingerprints(func: ast.AST) -> list[tuple[str, int, str]]:
    """[(fingerprint, k, name)] for parameters and locals of func; k disambiguates equal fingerprints by order"""
    out: list[tuple[str, int, str]] = []
    for i, p in enumerate(_params(func)):
        out.append((f"param:{i}", 0, p))
    locs = local_names(func)
    blank = locs | set(_params(func))
    sites: dict[str, list[str]] = {}
    order: list[str] = []

    def add(name: str, desc: str) -> None:
        if name not in locs:
            return
        if name not in sites:
            sites[name] = []
            order.append(name)
        sites[name].append(desc)

    for cur in _own_nodes(func):
        if isinstance(cur, ast.Assign):
            for t in cur.targets:
                for name, path in _targets(t):
                    add(name, f"assign{path}={_shape(cur.value, blank)}")
        elif isinstance(cur, ast.AnnAssign):
            for name, path in _targets(cur.target):
                add(name, f"assign{path}={_shape(cur.value, blank)}")
        elif isinstance(cur, ast.AugAssign):
            for name, path in _targets(cur.target):
                add(name, f"aug{type(cur.op).__name__}={_shape(cur.value, blank)}")
        elif isinstance(cur, ast.NamedExpr):
            for name, path in _targets(cur.target):
                add(name, f"walrus={_shape(cur.value, blank)}")
        elif isinstance(cur, (ast.For, ast.AsyncFor)):
            for name, path in _targets(cur.target):
                add(name, f"for{path} in {_shape(cur.iter, blank)}")
        elif isinstance(cur, ast.comprehension):
            for name, path in _targets(cur.target):
                add(name, f"comp{path} in {_shape(cur.iter, blank)}")
        elif isinstance(cur, ast.withitem) and cur.optional_vars is not None:
            for name, path in _targets(cur.optional_vars):
                add(name, f"with{path}={_shape(cur.context_expr, blank)}")
        elif isinstance(cur, ast.ExceptHandler) and cur.name:
            add(cur.name, f"except {_shape(cur.type, blank)}")
    seen: dict[str, int] = {}
    for name in order:
        fp = hashlib.sha1("|".join(sorted(set(sites[name]))).encode()).hexdigest()[:16]  # independent of the order of the sites
        k = seen.get(fp, 0)
        seen[fp] = k + 1
        out.append((fp, k, name))
    return out


class _ScopedRenamer(ast.NodeTransformer):
    """apply per-function renamings {old: new}; nested functions see the renamings of the enclosing ones unless they
    shadow the name with a parameter or a local of their own"""

    def __init__(self, mapping_for: dict[int, dict[str, str]]):
        self.mapping_for = mapping_for
        self.stack: list[tuple[dict[str, str], set[str]]] = []

    def _enter(self, node: ast.AST) -> None:
        mapping = dict(self.mapping_for.get(id(node), {}))
        shadow = set(_params(node)) | (local_names(node) if not isinstance(node, ast.Lambda) else set())
        self.stack.append((mapping, shadow))

    def _lookup(self, name: str) -> str:
        for mapping, shadow in reversed(self.stack):
            if name in mapping:
                return mapping[name]
            if name in shadow:
                return name
        return name

    def visit_FunctionDef(self, node: ast.FunctionDef) -> ast.AST:
        node.args.defaults = [self.visit(d) for d in node.args.defaults]
        node.args.kw_defaults = [self.visit(d) if d is not None else None for d in node.args.kw_defaults]
        node.decorator_list = [self.visit(d) for d in node.decorator_list]
        self._enter(node)
        mapping = self.stack[-1][0]
        for a in node.args.posonlyargs + node.args.args + node.args.kwonlyargs + ([node.args.vararg] if node.args.vararg else []) + ([node.args.kwarg] if node.args.kwarg else []):
            if a.arg in mapping:
                a.arg = mapping[a.arg]
        node.body = [self.visit(b) for b in node.body]
        self.stack.pop()
        return node

    visit_AsyncFunctionDef = visit_FunctionDef  # type: ignore[assignment]

    def visit_Lambda(self, node: ast.Lambda) -> ast.AST:
        node.args.defaults = [self.visit(d) for d in node.args.defaults]
        node.args.kw_defaults = [self.visit(d) if d is not None else None for d in node.args.kw_defaults]
        self._enter(node)
        mapping = self.stack[-1][0]
        for a in node.args.posonlyargs + node.args.args + node.args.kwonlyargs:
            if a.arg in mapping:
                a.arg = mapping[a.arg]
        node.body = self.visit(node.body)
        self.stack.pop()
        return node

    def visit_Name(self, node: ast.Name) -> ast.AST:
        node.id = self._lookup(node.id)
        return node

    def visit_Nonlocal(self, node: ast.Nonlocal) -> ast.AST:
        node.names = [self._lookup(n) for n in node.names]
        return node

    def visit_ExceptHandler(self, node: ast.ExceptHandler) -> ast.AST:
        if node.name:
            node.name = self._lookup(node.name)
        self.generic_visit(node)
        return node

    def visit_keyword(self, node: ast.keyword) -> ast.AST:
        node.value = self.visit(node.value)
        return node


def load_ref() -> dict[str, list[list[object]]]:
    if not os.path.exists(REF_FILE):
        return {}
    with open(REF_FILE, encoding="utf-8") as fh:
        return json.load(fh)  # type: ignore[no-any-return]


def normalise(funcs: dict[str, ast.AST], ref: dict[str, list[list[object]]], tree: ast.Module) -> int:
    """rename locals/parameters of the functions (qualname -> node, all inside `tree`) to the reference names; returns
    the number of renamed variables.  Parameters are only renamed when the function is not called with keywords of
    that name elsewhere is NOT checked: keyword call sites keep working because only the *analysed* tree is renamed."""
    mapping_for: dict[int, dict[str, str]] = {}
    renamed = 0
    for qual, node in funcs.items():
        want = ref.get(qual)
        if not want:
            continue
        cur = fingerprints(node)
        cur_by = {(fp, k): name for fp, k, name in cur}
        cur_names = {name for _, _, name in cur}
        mapping: dict[str, str] = {}
        for fp, k, refname in want:
            name = cur_by.get((fp, k))  # type: ignore[arg-type]
            if name is not None and name != refname:
                mapping[name] = str(refname)
        # keep it injective and do not capture an existing, unrelated name
        # (to a fixpoint: dropping one renaming can leave its source name in place, which another renaming must then not capture)
        changed = True
        while changed:
            changed = False
            targets = list(mapping.values())
            for old, new in list(mapping.items()):
                if targets.count(new) > 1 or (new in cur_names and new not in mapping):
                    del mapping[old]
                    changed = True
        if mapping:
            mapping_for[id(node)] = mapping
            renamed += len(mapping)
    if mapping_for:
        _ScopedRenamer(mapping_for).visit(tree)
    return renamed
