"""command line of the analyser: ./check <Cxx|all> [--tier quick|thorough] | replay <file> | list"""

from __future__ import annotations

import importlib
import json
import os
import sys
import time
import traceback

from .core import Checker, Ob, Rule, finish
from .model import AnalysisError

RULE_MODULES = ["generic", "c19", "c08", "c09", "c11", "c12", "c13", "c05", "c16", "c10", "c15", "c20", "c18", "c17", "c03", "c07", "c14"]


def all_rules() -> list[Rule]:
    rules: list[Rule] = []
    for name in RULE_MODULES:
        mod = importlib.import_module(f"ngosa.rules.{name}")
        rules.extend(mod.RULES)
    return rules


def claimed() -> list[str]:
    return sorted({p for r in all_rules() for p in tuple(r.props) + tuple(r.extra)})


def run_property(prop: str, tier: str) -> int:
    started = time.time()
    rules = [r for r in all_rules() if r.applies(prop)]
    if not rules:
        print(f"ANALYSIS-ERROR no rules registered for {prop}")
        return 2
    checker = Checker()
    checker.prop = prop
    stats = checker.prg.stats()
    if stats["modules"] < 15 or stats["functions_and_lambdas"] < 200:
        print(f"ANALYSIS-ERROR unit count below floor: {stats}")
        return 2
    checker.run(rules)
    obs = [ob for ob in checker.obs]
    # precision escalation: the engine merges path classes beyond fixed bounds, which can lose a fact that a guard
    # needs. Before anything is REPORTED, the property is decided again with much larger bounds (what the thorough
    # tier's stability run uses); that run's verdict is the one that counts. Costs time only when something fails.
    if not os.environ.get("NGOSA_ESCALATED") and not os.environ.get("NGOSA_DUMP"):
        from .core import known_match, load_known

        known = load_known()
        live = {f.short for f in checker.prg.funcs.values()}
        if any(not ob.ok and known_match(ob, known, live) is None for ob in obs) or checker.errors:
            import subprocess

            env = dict(os.environ)
            env.update({"NGOSA_ESCALATED": "1", "NGOSA_LOOP_ROUNDS": "6", "NGOSA_MAX_STATES": "160", "NGOSA_GROUP_STATES": "160"})
            res = subprocess.run([sys.executable, "-m", "ngosa.cli", prop, "--tier", tier], cwd=os.path.dirname(os.path.dirname(os.path.abspath(__file__))), env=env, capture_output=True, text=True, check=False)
            sys.stdout.write(res.stdout)
            sys.stderr.write(res.stderr)
            return res.returncode
    extra: dict[str, object] = {"rules_run": [r.rid for r in rules]}
    if tier == "thorough" and not os.environ.get("NGOSA_DUMP"):
        from . import selftest

        extra["selftest"] = selftest.run(prop, [r.rid for r in rules])
        extra["stability"] = stability(prop, obs)
        for name, res in extra["stability"].items():  # type: ignore[union-attr]
            if res.get("verdict_changes"):
                checker.errors.append(f"stability: the {name} run decides obligations differently: {res['verdict_changes'][:3]}")
    for mod_name in RULE_MODULES:
        mod = importlib.import_module(f"ngosa.rules.{mod_name}")
        floors = getattr(mod, "FLOORS", {})
        if prop in floors:
            count = sum(1 for ob in obs if any(ob.rule.startswith(r.rid) for r in mod.RULES))
            if count < floors[prop]:
                print(f"ANALYSIS-ERROR {prop}: only {count} rule instances from {mod_name}, floor is {floors[prop]}")
                return 2
    if checker.errors:
        extra["analysis_errors"] = checker.errors
    rc = finish(prop, tier, checker, obs, started, extra)
    for err in checker.errors:
        print(f"ANALYSIS-ERROR {err}")
    if checker.errors and rc == 0:
        return 2
    return rc


def stability(prop: str, obs: list) -> dict[str, dict[str, object]]:  # type: ignore[type-arg]
    """thorough tier: decide the same obligations again (a) with much larger engine bounds (more loop rounds, more path
    classes before widening) and (b) on the raw tree without alpha-normalisation / condition normal form; an obligation
    that is decided differently shows an imprecision of the engine or of a normalisation and is reported as analysis error"""
    import subprocess
    import tempfile

    base = {(o.rule, o.func, o.sig): o.ok for o in obs}
    out: dict[str, dict[str, object]] = {}
    runs = {
        "precise-bounds": {"NGOSA_LOOP_ROUNDS": "6", "NGOSA_MAX_STATES": "160", "NGOSA_GROUP_STATES": "64"},
        "raw-tree": {"NGOSA_NO_ALPHA": "1", "NGOSA_NO_NFORM": "1"},
    }
    for name, env_extra in runs.items():
        fd, path = tempfile.mkstemp(prefix="ngosa-stab-", suffix=".json")
        os.close(fd)
        env = dict(os.environ)
        env.update(env_extra)
        env["NGOSA_DUMP"] = path
        env["VERIF_TIER"] = "quick"
        started = time.time()
        res = subprocess.run([sys.executable, "-m", "ngosa.cli", prop, "--tier", "quick"], cwd=os.path.dirname(os.path.dirname(os.path.abspath(__file__))), env=env, capture_output=True, text=True, check=False)
        try:
            with open(path, encoding="utf-8") as fh:
                table = {(r, f, s): ok for r, f, s, ok in json.load(fh)}
        except (OSError, ValueError):
            table = None
        finally:
            if os.path.exists(path):
                os.unlink(path)
        if table is None:
            out[name] = {"ran": False, "exit": res.returncode, "output": res.stdout[-300:]}
            continue
        changes = sorted(f"{k[0]} {k[1]} [{k[2]}]: {base[k]} -> {table[k]}" for k in base if k in table and table[k] != base[k])
        out[name] = {"ran": True, "settings": env_extra, "obligations": len(table), "same_verdict": sum(1 for k in base if table.get(k) == base[k]), "only_here": len(set(table) - set(base)), "missing_here": len(set(base) - set(table)),
                     "verdict_changes": changes, "wall_s": round(time.time() - started, 2)}
    return out


def main(argv: list[str]) -> int:
    if not argv or argv[0] in ("-h", "--help"):
        print(__doc__)
        return 2
    tier = os.environ.get("VERIF_TIER", "quick")
    if "--tier" in argv:
        i = argv.index("--tier")
        tier = argv[i + 1]
        argv = argv[:i] + argv[i + 2 :]
    if tier not in ("quick", "thorough"):
        print(f"ANALYSIS-ERROR unknown tier {tier}")
        return 2
    cmd = argv[0]
    try:
        if cmd == "list":
            for rule in all_rules():
                print(rule.rid, ",".join(rule.props))
            return 0
        if cmd == "replay":
            with open(argv[1], encoding="utf-8") as fh:
                rec = json.load(fh)
            checker = Checker()
            rules = [r for r in all_rules() if rec["rule"].startswith(r.rid)]
            checker.run(rules)
            hits = [ob for ob in checker.obs if list(ob.key()) == [rec["rule"], rec["func"], rec["sig"]]]
            for ob in hits:
                print(f"{'ok' if ob.ok else 'VIOLATED'} {ob.rule} {ob.func} [{ob.sig}] at {ob.loc}\n  {ob.detail}\n  {ob.reason}")
            if not hits:
                print("obligation no longer exists in the current tree")
            return 1 if any(not ob.ok for ob in hits) else 0
        if cmd == "selftest":
            from . import selftest

            return selftest.main(argv[1:])
        if cmd == "all":
            rc = 0
            for prop in claimed():
                rc = max(rc, run_property(prop, tier))
            return rc
        return run_property(cmd, tier)
    except BrokenPipeError:
        return 2
    except AnalysisError as err:
        print(f"ANALYSIS-ERROR {err}")
        return 2
    except Exception:  # pylint: disable=broad-exception-caught
        print("ANALYSIS-ERROR internal error in the analyser:")
        traceback.print_exc()
        return 2


if __name__ == "__main__":
    sys.exit(main(sys.argv[1:]))
