"""Program model of /repo/src/ngo: modules, classes, functions, imports, module constants,
resolved callees.  Everything is derived from the *source text* of the current working tree;
nothing of ngo is imported or executed."""

from __future__ import annotations

import ast
import hashlib
import json
import os
from dataclasses import dataclass, field
from typing import Iterator, Optional

REPO = os.environ.get("NGOSA_REPO", "/repo")
SRC = os.path.join(REPO, "src")
PKG = "ngo"


class AnalysisError(Exception):
    """the analyser cannot do its job (unparsable source, vanished anchor, count below floor)"""


@dataclass
class Module:
    name: str  # dotted, e.g. ngo.utils.ast
    path: str
    source: str
    tree: ast.Module
    imports: dict[str, str] = field(default_factory=dict)  # local name -> dotted origin
    consts: dict[str, ast.expr] = field(default_factory=dict)  # module level NAME = expr (single assignment)

    @property
    def relpath(self) -> str:
        return os.path.relpath(self.path, REPO)


@dataclass
class Func:
    qualname: str  # ngo.cleanup:CleanupTranslator._superseeded  /  ngo.api:optimize / ...:f.<locals>.g
    node: ast.AST  # FunctionDef | Lambda
    module: Module
    cls: Optional[str]  # dotted class path inside module, e.g. SymmetryTranslator.SymmetryBundle
    parent: Optional["Func"]

    @property
    def name(self) -> str:
        return self.qualname.split(":")[1]

    @property
    def short(self) -> str:
        return self.module.name.removeprefix("ngo.") + ":" + self.name

    def params(self) -> list[str]:
        a = self.node.args  # type: ignore[attr-defined]
        return [x.arg for x in a.posonlyargs + a.args] + ([a.vararg.arg] if a.vararg else []) + [
            x.arg for x in a.kwonlyargs
        ] + ([a.kwarg.arg] if a.kwarg else [])

    def loc(self, node: Optional[ast.AST] = None) -> str:
        n = node if node is not None else self.node
        return f"{self.module.relpath}:{getattr(n, 'lineno', 0)}"


@dataclass
class Class:
    qualname: str  # ngo.cleanup:CleanupTranslator
    node: ast.ClassDef
    module: Module
    attr_types: dict[str, str] = field(default_factory=dict)  # self.x -> dotted class (from __init__ assignments)


class Program:
    """all of src/ngo, parsed"""

    def __init__(self, src: str = SRC) -> None:
        self.src = src
        self.modules: dict[str, Module] = {}
        self.funcs: dict[str, Func] = {}
        self.folded: dict[str, str] = {}
        self.classes: dict[str, Class] = {}
        self.node2func: dict[int, Func] = {}
        self._alpha_ref: Optional[dict] = None
        self.alpha_renamed = 0
        self._load()

    # ------------------------------------------------------------------ loading
    def _load(self) -> None:
        root = os.path.join(self.src, PKG)
        if not os.path.isdir(root):
            raise AnalysisError(f"package directory {root} not found")
        for dirpath, dirnames, filenames in sorted(os.walk(root)):
            dirnames[:] = sorted(d for d in dirnames if d != "__pycache__")
            for fn in sorted(filenames):
                if not fn.endswith(".py"):
                    continue
                path = os.path.join(dirpath, fn)
                rel = os.path.relpath(path, self.src)[:-3].replace(os.sep, ".")
                if rel.endswith(".__init__"):
                    rel = rel[: -len(".__init__")]
                with open(path, encoding="utf-8") as fh:
                    source = fh.read()
                try:
                    tree = ast.parse(source, filename=path)
                except SyntaxError as err:
                    raise AnalysisError(f"cannot parse {path}: {err}") from err
                if not os.environ.get("NGOSA_NO_NFORM"):
                    from . import nform

                    tree = nform.normal_form(tree)
                mod = Module(rel, path, source, tree)
                self.modules[rel] = mod
                before = set(self.funcs)
                self._index_module(mod)
                if not os.environ.get("NGOSA_NO_ALPHA"):
                    from . import alpha

                    if self._alpha_ref is None:
                        self._alpha_ref = alpha.load_ref()
                    mine = {q: f.node for q, f in self.funcs.items() if q not in before}
                    self.alpha_renamed += alpha.normalise(mine, self._alpha_ref, tree)
                if not os.environ.get("NGOSA_NO_NFORM"):
                    nform.sort_operands(tree)
        self.positionalised = 0
        if not os.environ.get("NGOSA_NO_NFORM"):
            self.positionalised = self._positionalise_calls()
        self.inlined_calls = 0
        if not os.environ.get("NGOSA_NO_INLINE") and not os.environ.get("NGOSA_NO_ALPHA"):
            from . import inliner

            self.inlined_calls = inliner.inline_new_helpers(self)

    def _signature(self, res: str) -> Optional[list[str]]:
        """positional parameter names of a resolved callee (ngo function / class / clingo.ast constructor), None if unknown"""
        if res.startswith("clingo.ast."):
            from .grammar import schema

            kind = res.split(".")[-1]
            sch = schema()
            return list(sch.kinds[kind].keys()) if kind in sch.kinds else None
        target = self.funcs.get(res)
        skip_self = False
        if target is None and res in self.classes:
            target = self.funcs.get(f"{res}.__init__")
            skip_self = True
            if target is None:
                # dataclass / NamedTuple: the annotated class attributes in order
                cls = self.classes[res].node
                fields = [s.target.id for s in cls.body if isinstance(s, ast.AnnAssign) and isinstance(s.target, ast.Name)]
                return fields or None
        if target is None or isinstance(target.node, ast.Lambda):
            return None
        a = target.node.args  # type: ignore[attr-defined]
        if a.vararg or a.kwarg:
            return None
        params = [x.arg for x in a.posonlyargs + a.args]
        decos = [ast.unparse(d) for d in target.node.decorator_list]  # type: ignore[attr-defined]
        if skip_self or (params and params[0] in ("self", "cls") and "staticmethod" not in decos and self.class_of_func(target) is not None):
            params = params[1:]
        return params

    def _positionalise_calls(self) -> int:
        """f(a, y=c, x=b) -> f(a, b, c) for callees whose signature is known (clingo.ast constructors from the grammar,
        ngo functions and classes): positional and keyword spelling of a call read the same"""
        done = 0
        for func in list(self.funcs.values()):
            for call in [n for n in ast.walk(func.node) if isinstance(n, ast.Call) and n.keywords]:
                if any(kw.arg is None for kw in call.keywords) or any(isinstance(a, ast.Starred) for a in call.args):
                    continue
                if isinstance(call.func, ast.Attribute) and call.func.attr == "update":
                    continue  # AST.update(field=value): keywords are the interface
                try:
                    res = self.resolve_callee(func, call.func)
                except Exception:  # pylint: disable=broad-exception-caught
                    res = None
                if not res:
                    continue
                sig = self._signature(res)
                if not sig:
                    continue
                names = [kw.arg for kw in call.keywords]
                n_pos = len(call.args)
                if any(n not in sig for n in names) or len(set(names)) != len(names):
                    continue
                want = sig[n_pos : n_pos + len(names)]
                if sorted(want) != sorted(names):  # type: ignore[type-var]
                    continue  # a gap (a default in between): keep the keywords
                by = {kw.arg: kw.value for kw in call.keywords}
                call.args = list(call.args) + [by[n] for n in want]
                call.keywords = []
                done += 1
        return done

    def new_functions(self) -> set[str]:
        """qualified names of functions that the reference tree (locals_ref.json) does not have: helpers that were extracted"""
        if getattr(self, "_new_funcs", None) is None:
            from . import alpha

            ref = alpha.load_ref()
            fresh = {q for q in self.funcs if q not in ref} if ref else set()
            # a function of the reference tree that is gone while a function of the same name appeared elsewhere in
            # the same module was MOVED (method <-> module-level function), not extracted: it is not copied into its
            # call sites, rules that ask for the old name get the new one
            def last(q: str) -> str:
                return q.rsplit(".", 1)[-1].rsplit(":", 1)[-1]

            gone: dict[tuple[str, str], int] = {}
            for q in ref or {}:
                if q not in self.funcs and "<locals>" not in q:
                    gone[(q.split(":")[0], last(q))] = gone.get((q.split(":")[0], last(q)), 0) + 1
            self._moved_funcs = {q for q in fresh if "<locals>" not in q and gone.get((q.split(":")[0], last(q))) == 1 and sum(1 for f in fresh if f.split(":")[0] == q.split(":")[0] and last(f) == last(q)) == 1}
            self._new_funcs = fresh - self._moved_funcs
        return self._new_funcs  # type: ignore[return-value]

    def moved_functions(self) -> set[str]:
        self.new_functions()
        return getattr(self, "_moved_funcs", set())

    def _index_module(self, mod: Module) -> None:
        assigned: dict[str, int] = {}
        for stmt in mod.tree.body:
            for node in ast.walk(stmt) if isinstance(stmt, (ast.If, ast.Try)) else [stmt]:
                if isinstance(node, ast.Import):
                    for alias in node.names:
                        mod.imports[alias.asname or alias.name.split(".")[0]] = (
                            alias.name if alias.asname else alias.name.split(".")[0]
                        )
                elif isinstance(node, ast.ImportFrom):
                    base = node.module or ""
                    if node.level:
                        parts = mod.name.split(".")
                        if not mod.path.endswith("__init__.py"):
                            parts = parts[:-1]
                        parts = parts[: len(parts) - (node.level - 1)]
                        base = ".".join(parts + ([node.module] if node.module else []))
                    for alias in node.names:
                        mod.imports[alias.asname or alias.name] = f"{base}.{alias.name}"
            if isinstance(stmt, ast.Assign) and len(stmt.targets) == 1 and isinstance(stmt.targets[0], ast.Name):
                name = stmt.targets[0].id
                assigned[name] = assigned.get(name, 0) + 1
                mod.consts[name] = stmt.value
            elif isinstance(stmt, ast.AnnAssign) and isinstance(stmt.target, ast.Name) and stmt.value is not None:
                name = stmt.target.id
                assigned[name] = assigned.get(name, 0) + 1
                mod.consts[name] = stmt.value
        for name, count in assigned.items():
            if count > 1:
                mod.consts.pop(name, None)
        self._index_scope(mod, mod.tree.body, None, None, "")

    def _index_scope(self, mod: Module, body: list[ast.stmt], cls: Optional[str], parent: Optional[Func], prefix: str) -> None:
        for stmt in body:
            if isinstance(stmt, (ast.FunctionDef, ast.AsyncFunctionDef)):
                self._add_func(mod, stmt, cls, parent, prefix + stmt.name)
            elif isinstance(stmt, ast.ClassDef):
                cname = prefix + stmt.name
                klass = Class(f"{mod.name}:{cname}", stmt, mod)
                self.classes[klass.qualname] = klass
                self._index_scope(mod, stmt.body, cname, parent, cname + ".")
            elif isinstance(stmt, (ast.If, ast.Try, ast.With, ast.For, ast.While)):
                for sub in ast.iter_child_nodes(stmt):
                    if isinstance(sub, ast.stmt):
                        self._index_scope(mod, [sub], cls, parent, prefix)
                for fld in ("body", "orelse", "finalbody"):
                    self._index_scope(mod, [s for s in getattr(stmt, fld, []) if isinstance(s, ast.stmt)], cls, parent, prefix)

    def _add_func(self, mod: Module, node: ast.AST, cls: Optional[str], parent: Optional[Func], name: str) -> Func:
        qual = f"{mod.name}:{name}"
        if qual in self.funcs:  # e.g. conditional redefinition (negate_if): number them
            k = 2
            while f"{qual}#{k}" in self.funcs:
                k += 1
            qual = f"{qual}#{k}"
        func = Func(qual, node, mod, cls, parent)
        self.funcs[qual] = func
        self.node2func[id(node)] = func
        # nested defs and lambdas
        counter = 0
        for sub in self._direct_nested(node):
            if isinstance(sub, (ast.FunctionDef, ast.AsyncFunctionDef)):
                self._add_func(mod, sub, cls, func, f"{name}.<locals>.{sub.name}")
            elif isinstance(sub, ast.Lambda):
                counter += 1
                self._add_func(mod, sub, cls, func, f"{name}.<lambda{counter}>")
        return func

    @staticmethod
    def _direct_nested(node: ast.AST) -> Iterator[ast.AST]:
        """function definitions and lambdas directly nested in node (not inside a deeper def)"""
        todo = list(ast.iter_child_nodes(node))
        while todo:
            cur = todo.pop(0)
            if isinstance(cur, (ast.FunctionDef, ast.AsyncFunctionDef, ast.Lambda)):
                yield cur
                continue
            if isinstance(cur, ast.ClassDef):
                continue
            todo = list(ast.iter_child_nodes(cur)) + todo

    # ------------------------------------------------------------------ queries
    def func(self, qualname: str) -> Func:
        """look up a function by 'module:Qual.name' (module without the ngo. prefix allowed)"""
        if not qualname.startswith("ngo"):
            qualname = "ngo." + qualname
        if qualname not in self.funcs:
            # a method that became a module-level function or a static method of another class (or the reverse): the
            # same name somewhere else in the same module, once
            mod_, _, rest_ = qualname.partition(":")
            last_ = rest_.rsplit(".", 1)[-1]
            moved = [q for q in self.moved_functions() if q.startswith(mod_ + ":") and q.rsplit(".", 1)[-1].rsplit(":", 1)[-1] == last_]
            if len(moved) == 1:
                self.folded[qualname] = moved[0]
                return self.funcs[moved[0]]
            folded = self._folded_into(qualname)
            if folded is not None:
                return folded
            raise AnalysisError(f"anchor function {qualname} not found in the current tree")
        return self.funcs[qualname]

    def _folded_into(self, qualname: str) -> Optional[Func]:
        """a private helper of the reference tree that no longer exists and had exactly one caller there was most
        likely folded into that caller: the rules look for their constructs in the caller instead (recorded in
        `self.folded`); whatever they do not find there is an analysis error, as before"""
        if os.environ.get("NGOSA_NO_FOLD"):
            return None
        if getattr(self, "_callers_ref", None) is None:
            path = os.path.join(os.path.dirname(os.path.abspath(__file__)), "callers_ref.json")
            try:
                with open(path, encoding="utf-8") as fh:
                    self._callers_ref = json.load(fh)
            except (OSError, ValueError):
                self._callers_ref = {}
        last = qualname.rsplit(".", 1)[-1].rsplit(":", 1)[-1]
        if not last.startswith("_") or last.startswith("__"):
            return None
        callers = self._callers_ref.get(qualname, [])  # type: ignore[attr-defined]
        if len(callers) != 1 or callers[0] not in self.funcs:
            return None
        self.folded[qualname] = callers[0]
        return self.funcs[callers[0]]

    def has_func(self, qualname: str) -> bool:
        if not qualname.startswith("ngo"):
            qualname = "ngo." + qualname
        return qualname in self.funcs

    def klass(self, qualname: str) -> Class:
        if not qualname.startswith("ngo"):
            qualname = "ngo." + qualname
        if qualname not in self.classes:
            raise AnalysisError(f"anchor class {qualname} not found in the current tree")
        return self.classes[qualname]

    def module(self, name: str) -> Module:
        if not name.startswith("ngo"):
            name = "ngo." + name
        if name not in self.modules:
            raise AnalysisError(f"anchor module {name} not found in the current tree")
        return self.modules[name]

    def enclosing_func(self, mod: Module, node: ast.AST) -> Optional[Func]:
        best: Optional[Func] = None
        for func in self.funcs.values():
            if func.module is not mod:
                continue
            fn = func.node
            if fn.lineno <= node.lineno <= (fn.end_lineno or fn.lineno):  # type: ignore[attr-defined]
                if any(sub is node for sub in ast.walk(fn)):
                    if best is None or fn.lineno >= best.node.lineno:  # type: ignore[attr-defined]
                        best = func
        return best

    def digest(self) -> str:
        h = hashlib.sha256()
        for name in sorted(self.modules):
            h.update(name.encode())
            h.update(self.modules[name].source.encode())
        return h.hexdigest()

    def stats(self) -> dict[str, int]:
        return {
            "modules": len(self.modules),
            "classes": len(self.classes),
            "functions_and_lambdas": len(self.funcs),
            "lines": sum(m.source.count("\n") for m in self.modules.values()),
        }

    # ------------------------------------------------------------------ name resolution
    def origin(self, mod: Module, name: str) -> Optional[str]:
        """dotted origin of a module-level name: imported symbol, or module-local def/class/const"""
        if name in mod.imports:
            return mod.imports[name]
        if f"{mod.name}:{name}" in self.funcs or f"{mod.name}:{name}" in self.classes or name in mod.consts:
            return f"{mod.name}.{name}"
        return None

    def resolve_dotted(self, dotted: str) -> Optional[str]:
        """ngo.utils.ast.is_predicate -> function qualname 'ngo.utils.ast:is_predicate' (following re-exports)"""
        seen = set()
        while dotted not in seen:
            seen.add(dotted)
            parts = dotted.split(".")
            for i in range(len(parts) - 1, 0, -1):
                modname = ".".join(parts[:i])
                if modname in self.modules:
                    rest = ".".join(parts[i:])
                    qual = f"{modname}:{rest}"
                    if qual in self.funcs or qual in self.classes:
                        return qual
                    mod = self.modules[modname]
                    if parts[i] in mod.imports:
                        dotted = ".".join([mod.imports[parts[i]]] + parts[i + 1 :])
                        break
                    return None
            else:
                return None
        return None

    def const_value(self, mod: Module, name: str, depth: int = 0) -> Optional[ast.expr]:
        """the defining expression of a module-level constant (following imports between ngo modules)"""
        if depth > 5:
            return None
        if name in mod.consts:
            return mod.consts[name]
        if name in mod.imports:
            dotted = mod.imports[name]
            modname, _, attr = dotted.rpartition(".")
            if modname in self.modules:
                return self.const_value(self.modules[modname], attr, depth + 1)
        return None

    def fold(self, mod: Module, expr: ast.expr, depth: int = 0) -> object:
        """statically evaluate str/list/tuple constants, +, names of module constants, sorted(); else raise"""
        if depth > 20:
            raise ValueError("too deep")
        if isinstance(expr, ast.Constant):
            return expr.value
        if isinstance(expr, (ast.List, ast.Tuple)):
            vals = [self.fold(mod, e, depth + 1) for e in expr.elts]
            return vals if isinstance(expr, ast.List) else tuple(vals)
        if isinstance(expr, ast.Set):
            return frozenset(self.fold(mod, e, depth + 1) for e in expr.elts)  # type: ignore[misc]
        if isinstance(expr, ast.BinOp) and isinstance(expr.op, ast.Add):
            left, right = self.fold(mod, expr.left, depth + 1), self.fold(mod, expr.right, depth + 1)
            return left + right  # type: ignore[operator]
        if isinstance(expr, ast.Name):
            val = self.const_value(mod, expr.id)
            if val is None:
                raise ValueError(f"not a constant: {expr.id}")
            home = mod
            if expr.id not in mod.consts and expr.id in mod.imports:
                modname = mod.imports[expr.id].rpartition(".")[0]
                home = self.modules.get(modname, mod)
            return self.fold(home, val, depth + 1)
        if isinstance(expr, ast.Call) and isinstance(expr.func, ast.Name) and expr.func.id in ("sorted", "list", "tuple") and len(expr.args) == 1 and not expr.keywords:
            val = self.fold(mod, expr.args[0], depth + 1)
            if expr.func.id == "sorted":
                return sorted(val)  # type: ignore[type-var,arg-type]
            return list(val) if expr.func.id == "list" else tuple(val)  # type: ignore[arg-type,call-overload]
        if isinstance(expr, ast.JoinedStr):
            out = ""
            for part in expr.values:
                if isinstance(part, ast.Constant):
                    out += str(part.value)
                elif isinstance(part, ast.FormattedValue):
                    out += str(self.fold(mod, part.value, depth + 1))
            return out
        raise ValueError(f"cannot fold {ast.dump(expr)[:80]}")

    # ------------------------------------------------------------------ classes
    def class_of_func(self, func: Func) -> Optional[Class]:
        if func.cls is None:
            return None
        return self.classes.get(f"{func.module.name}:{func.cls}")

    def self_attr_class(self, klass: Class, attr: str) -> Optional[str]:
        """class qualname of self.<attr> if __init__ assigns a constructor call of an ngo class to it"""
        if not klass.attr_types:
            init = self.funcs.get(f"{klass.qualname}.__init__")
            klass.attr_types["<done>"] = ""
            if init is not None:
                for node in ast.walk(init.node):
                    target = None
                    value = None
                    if isinstance(node, ast.Assign) and len(node.targets) == 1:
                        target, value = node.targets[0], node.value
                    elif isinstance(node, ast.AnnAssign):
                        target, value = node.target, node.value
                    if (
                        isinstance(target, ast.Attribute)
                        and isinstance(target.value, ast.Name)
                        and target.value.id == "self"
                        and isinstance(value, ast.Call)
                    ):
                        callee = self.resolve_callee(init, value.func)
                        if callee and callee in self.classes:
                            klass.attr_types[target.attr] = callee
                    # parameters annotated with an ngo class:  self.x = x  (x: DomainPredicates)
                    if (
                        isinstance(target, ast.Attribute)
                        and isinstance(target.value, ast.Name)
                        and target.value.id == "self"
                        and isinstance(value, ast.Name)
                    ):
                        for arg in init.node.args.args:  # type: ignore[attr-defined]
                            if arg.arg == value.id and arg.annotation is not None:
                                ann = arg.annotation
                                if isinstance(ann, ast.Constant) and isinstance(ann.value, str):
                                    try:
                                        ann = ast.parse(ann.value, mode="eval").body
                                    except SyntaxError:
                                        continue
                                callee = self.resolve_callee(init, ann)
                                if callee and callee in self.classes:
                                    klass.attr_types[target.attr] = callee
        return klass.attr_types.get(attr)

    def local_type(self, func: Func, name: str) -> Optional[str]:
        """ngo class of a local: a parameter annotated with it, or a local always assigned from its constructor"""
        cache = self.__dict__.setdefault("_ltypes", {})
        key = (func.qualname, name)
        if key in cache:
            return cache[key]  # type: ignore[no-any-return]
        cache[key] = None
        result: Optional[str] = None
        node = func.node
        args = node.args  # type: ignore[attr-defined]
        for arg in args.posonlyargs + args.args + args.kwonlyargs:
            if arg.arg == name and arg.annotation is not None:
                ann = arg.annotation
                if isinstance(ann, ast.Constant) and isinstance(ann.value, str):
                    try:
                        ann = ast.parse(ann.value, mode="eval").body
                    except SyntaxError:
                        ann = None
                if ann is not None and isinstance(ann, (ast.Name, ast.Attribute)):
                    res = self.resolve_callee(func, ann)
                    if res in self.classes:
                        result = res
        if result is None and not isinstance(node, ast.Lambda):
            found: set[Optional[str]] = set()
            todo: list[ast.AST] = list(node.body)  # type: ignore[attr-defined]
            while todo:
                cur = todo.pop()
                if isinstance(cur, (ast.FunctionDef, ast.Lambda, ast.ClassDef)):
                    continue
                if isinstance(cur, (ast.Assign, ast.AnnAssign)):
                    targets = cur.targets if isinstance(cur, ast.Assign) else [cur.target]
                    for t in targets:
                        if isinstance(t, ast.Name) and t.id == name:
                            val = cur.value
                            if isinstance(val, ast.Call):
                                res = self.resolve_callee(func, val.func)
                                found.add(res if res in self.classes else None)
                            else:
                                found.add(None)
                    if cur.value is not None:
                        todo.append(cur.value)
                    todo.extend(t for t in targets if not isinstance(t, ast.Name))
                    continue
                elif isinstance(cur, ast.Name) and isinstance(cur.ctx, ast.Store) and cur.id == name:
                    found.add(None)
                todo.extend(ast.iter_child_nodes(cur))
            if len(found) == 1 and None not in found:
                result = next(iter(found))
        if result is None and func.parent is not None and name not in func.params():
            result = self.local_type(func.parent, name)
        cache[key] = result
        return result

    def resolve_callee(self, func: Func, callee: ast.expr) -> Optional[str]:
        """qualname ('mod:Name') of an ngo function/class, or dotted name of an external symbol
        ('clingo.ast.Rule', 'builtins.len'), or None"""
        mod = func.module
        if isinstance(callee, ast.Name):
            # local nested function?
            cur: Optional[Func] = func
            while cur is not None:
                cand = f"{mod.name}:{cur.name}.<locals>.{callee.id}"
                if cand in self.funcs:
                    return cand
                cur = cur.parent
            org = self.origin(mod, callee.id)
            if org is None:
                return f"builtins.{callee.id}"
            return self.resolve_dotted(org) or org
        if isinstance(callee, ast.Attribute):
            base = callee.value
            if isinstance(base, ast.Name) and base.id in ("self", "cls"):
                klass = self.class_of_func(func)
                while klass is not None:
                    cand = f"{klass.qualname}.{callee.attr}"
                    if cand in self.funcs:
                        return cand
                    klass = None
                return None
            if isinstance(base, ast.Attribute) and isinstance(base.value, ast.Name) and base.value.id == "self":
                klass = self.class_of_func(func)
                if klass is not None:
                    tname = self.self_attr_class(klass, base.attr)
                    if tname is not None:
                        cand = f"{tname}.{callee.attr}"
                        if cand in self.funcs:
                            return cand
                return None
            if isinstance(base, ast.Name):
                ltype = self.local_type(func, base.id)
                if ltype is not None:
                    cand = f"{ltype}.{callee.attr}"
                    return cand if cand in self.funcs else None
            inner = self.resolve_callee(func, base)
            if inner is None:
                return None
            if inner in self.classes:
                cand = f"{inner}.{callee.attr}"
                if cand in self.funcs or cand in self.classes:
                    return cand
                return None
            if ":" not in inner:
                dotted = f"{inner}.{callee.attr}"
                return self.resolve_dotted(dotted) or dotted
        return None
