"""node-kind typing of expressions against clingo's AST schema (DESIGN §2.4, definite-error stance)"""

from __future__ import annotations

import ast
from typing import Optional

from .grammar import Schema, schema
from .interp import Interp, State, load_enums, unparse


def _tok_kinds(tokens: frozenset[str]) -> frozenset[str]:
    return frozenset(t.split(".", 1)[1] for t in tokens if t.startswith("ASTType."))


class Kinds:
    def __init__(self, it: Interp):
        self.it = it
        self.sch: Schema = schema()

    def of(self, expr: ast.expr, st: State) -> Optional[frozenset[str]]:
        """possible node kinds of the value of expr in state st; None = unknown"""
        return self._of(self.it.expand(expr, st), st, 0)

    def _of(self, node: ast.expr, st: State, depth: int) -> Optional[frozenset[str]]:
        if depth > 12:
            return None
        key = unparse(node)
        vals = self.it._vals(f"{key}.ast_type", st)  # pylint: disable=protected-access
        structural = self._structural(node, st, depth)
        if vals is not None:
            kinds = _tok_kinds(vals)
            return kinds & structural if structural is not None else kinds
        excluded = _tok_kinds(st.nvals.get(f"{key}.ast_type", frozenset()))
        if structural is not None:
            return structural - excluded
        return None

    def _structural(self, node: ast.expr, st: State, depth: int) -> Optional[frozenset[str]]:
        if isinstance(node, ast.Attribute):
            parent = self._of(node.value, st, depth + 1)
            if parent:
                child = self.sch.child_kinds(parent, node.attr)
                if child is not None and child[1] in ("1", "?") and child[0]:
                    return child[0]
            return None
        if isinstance(node, ast.Subscript):
            return self._elements(node.value, st, depth + 1)
        if isinstance(node, ast.Name):
            org = st.origin.get(node.id)
            if org and org.endswith("[*]"):
                try:
                    tree = ast.parse(org[:-3], mode="eval").body
                except SyntaxError:
                    return None
                return self._elements(tree, st, depth + 1)
            return None
        if isinstance(node, ast.Call):
            if isinstance(node.func, ast.Name) and node.func.id in self.sch.kinds and node.func.id not in self.it.locals:
                return frozenset({node.func.id})
            if isinstance(node.func, ast.Attribute) and node.func.attr == "update" and not node.args:
                return self._of(node.func.value, st, depth + 1)
            if isinstance(node.func, ast.Name) and node.func.id == "transform_ast" and len(node.args) == 3 and node.func.id not in self.it.locals:
                # ngo.utils.ast.transform_ast rewrites nodes of one kind BELOW its argument: the argument keeps its kind
                # unless it is itself of the rewritten kind
                inner = self._of(node.args[0], st, depth + 1)
                if inner and isinstance(node.args[1], ast.Constant) and node.args[1].value not in inner:
                    return inner
        return None

    def _elements(self, seq: ast.expr, st: State, depth: int) -> Optional[frozenset[str]]:
        """kinds of the elements of a sequence-valued expression"""
        if isinstance(seq, ast.Call) and isinstance(seq.func, ast.Name) and seq.func.id in ("list", "tuple", "sorted", "reversed", "iter") and len(seq.args) == 1:
            return self._elements(seq.args[0], st, depth)
        if isinstance(seq, ast.Call) and isinstance(seq.func, ast.Name) and seq.func.id == "filter" and len(seq.args) == 2:
            return self._elements(seq.args[1], st, depth)
        if isinstance(seq, (ast.GeneratorExp, ast.ListComp)) and len(seq.generators) == 1 and isinstance(seq.elt, ast.Name) and isinstance(seq.generators[0].target, ast.Name) and seq.elt.id == seq.generators[0].target.id:
            return self._elements(seq.generators[0].iter, st, depth)  # a filtered copy of the sequence
        if isinstance(seq, ast.Call) and isinstance(seq.func, ast.Attribute) and seq.func.attr == "transform_args" and len(seq.args) >= 3:
            return self._elements(seq.args[2], st, depth + 1)  # InlineTranslator.transform_args renames variables inside each given node
        if isinstance(seq, ast.Call) and isinstance(seq.func, ast.Name) and seq.func.id == "collect_ast" and len(seq.args) == 2 and isinstance(seq.args[1], ast.Constant) and seq.args[1].value in self.sch.kinds:
            return frozenset({seq.args[1].value})  # ngo.utils.ast.collect_ast(x, "Kind") returns nodes of that kind
        if isinstance(seq, ast.Name) and depth < 8:
            # a local list that is only ever filled by append(): its elements are what was appended
            acc = self._accumulated(seq.id, st, depth)
            if acc is not None:
                return acc
        if isinstance(seq, ast.BinOp) and isinstance(seq.op, ast.Add):
            left, right = self._elements(seq.left, st, depth + 1), self._elements(seq.right, st, depth + 1)
            if left is not None and right is not None:
                return left | right
        if isinstance(seq, (ast.List, ast.Tuple)) and seq.elts:
            parts = [self._of(e, st, depth + 1) for e in seq.elts]
            if all(p is not None for p in parts):
                return frozenset().union(*parts)  # type: ignore[arg-type]
        if isinstance(seq, ast.Attribute):
            parent = self._of(seq.value, st, depth + 1)
            if parent:
                child = self.sch.child_kinds(parent, seq.attr)
                if child is not None and child[1] == "*" and child[0]:
                    return child[0]
            if not parent:
                # the holder's kind is unknown, but every kind of the grammar that has this sequence field agrees on
                # what its elements are (`<stm>.body` holds body literals whatever the statement is)
                holders = [k for k in self.sch.kinds if self.sch.field(k, seq.attr) is not None]
                kids = {self.sch.child_kinds(frozenset({k}), seq.attr) for k in holders}
                if len(kids) == 1:
                    child = next(iter(kids))
                    if child is not None and child[1] == "*" and child[0]:
                        return child[0]
            if not parent and seq.attr == "arguments" and isinstance(seq.value, ast.Attribute) and seq.value.attr == "symbol":
                # `<atom>.symbol.arguments`: whatever the atom is, a symbol that HAS arguments is a Function: its arguments are terms
                f = self.sch.field("Function", "arguments")
                if f is not None:
                    return f.kinds
        return None

    def _accumulated(self, name: str, st: State, depth: int) -> Optional[frozenset[str]]:
        func = self.it.func.node
        inits = [n for n in ast.walk(func) if isinstance(n, (ast.Assign, ast.AnnAssign)) and isinstance(getattr(n, "target", None) or (n.targets[0] if len(n.targets) == 1 else None), ast.Name)
                 and (getattr(n, "target", None) or n.targets[0]).id == name]  # type: ignore[union-attr]
        if len(inits) != 1 or not (isinstance(inits[0].value, ast.List) and not inits[0].value.elts):
            return None
        out: frozenset[str] = frozenset()
        seen = False
        for node in ast.walk(func):
            if isinstance(node, ast.Call) and isinstance(node.func, ast.Attribute) and isinstance(node.func.value, ast.Name) and node.func.value.id == name:
                if node.func.attr == "append" and len(node.args) == 1:
                    states = self.it.states(node) or [st]
                    for s in states:
                        k = self._of(self.it.expand(node.args[0], s), s, depth + 2)
                        if k is None:
                            return None
                        out |= k
                    seen = True
                elif node.func.attr in ("extend", "insert", "__setitem__", "pop", "remove", "sort", "reverse", "clear"):
                    if node.func.attr in ("extend", "insert"):
                        return None
            elif isinstance(node, (ast.Assign, ast.AugAssign)) and any(isinstance(t, ast.Subscript) and isinstance(t.value, ast.Name) and t.value.id == name for t in (node.targets if isinstance(node, ast.Assign) else [node.target])):
                return None
        return out if seen else None

    def mult(self, expr: ast.expr, st: State) -> Optional[tuple[str, bool, frozenset[str]]]:
        """for an attribute access X.f: (multiplicity over the known kinds of X, field defined for all of them, kinds of X)"""
        node = self.it.expand(expr, st)
        if not isinstance(node, ast.Attribute):
            return None
        parent = self._of(node.value, st, 0)
        if not parent:
            return None
        child = self.sch.child_kinds(parent, node.attr)
        if child is None:
            return ("none", False, parent)
        return (child[1], child[2], parent)
