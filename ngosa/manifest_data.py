"""what MANIFEST.json says per property (consumed by tools/gen_manifest.py)"""

NOTE = "Trusted: Python's ast module, the analyser itself, clingo's AST grammar docstring/enum definitions read as text, argparse/clingo behaving as documented. Decides only the listed structural clauses; an unchanged verdict says nothing about clauses listed as 'not decided' in DESIGN.md."

CLAIMS = {
    "C19": {
        "text": "Decides the wiring clause of the property essentially completely (argparse itself trusted): option lists = optimize's bool flags and their defaults; main passes flag b as `'b' in args.enable` and the predicate options un-swapped; --enable declaration (choices, nargs, default, action, type); VerifyEnable tabulated under the four option cases by abstract interpretation (none exclusive, all = nine traits, default = defaults + named, names = themselves); PredicateList cases (auto verbatim, empty -> [], name/arity parsing); auto only triggers the matching detector; the only print in the package is the loop over optimize's result, logging on stderr; stdin is what is optimised; in api.optimize every pass is control dependent on exactly its own flag and built from the documented class. This is the right level because the property is about finite wiring that is fully visible in the source; running main() is not needed and not done.",
        "technique": "ast wiring rules + abstract interpretation of VerifyEnable/PredicateList/optimize under pinned option cases",
        "note": NOTE,
    },
}

NOT_APPLICABLE: dict[str, str] = {}
