"""what MANIFEST.json says per property (consumed by tools/gen_manifest.py)"""

NOTE = "Trusted: Python's ast module, the analyser itself, clingo's AST grammar docstring/enum definitions read as text, argparse/clingo behaving as documented. Decides only the listed structural clauses; an unchanged verdict says nothing about clauses listed as 'not decided' in DESIGN.md."

CLAIMS = {
    "C19": {
        "text": "Decides the wiring clause of the property essentially completely (argparse itself trusted): option lists = optimize's bool flags and their defaults; main passes flag b as `'b' in args.enable` and the predicate options un-swapped; --enable declaration (choices, nargs, default, action, type); VerifyEnable tabulated under the four option cases by abstract interpretation (none exclusive, all = nine traits, default = defaults + named, names = themselves); PredicateList cases (auto verbatim, empty -> [], name/arity parsing); auto only triggers the matching detector; the only print in the package is the loop over optimize's result, logging on stderr; stdin is what is optimised; in api.optimize every pass is control dependent on exactly its own flag and built from the documented class. This is the right level because the property is about finite wiring that is fully visible in the source; running main() is not needed and not done.",
        "technique": "ast wiring rules + abstract interpretation of VerifyEnable/PredicateList/optimize under pinned option cases",
        "note": NOTE,
    },
}

CLAIMS["C08"] = {
    "text": "Decides the side conditions under which cleanup may delete something, as must-pass-through / table obligations over cleanup.py: definitions are registered only for non-input predicates (closed-world guard); per-predicate implication sets are combined over ALL defining rules by intersection only; a mapping exists only if every body argument occurs in the head, with the literal's own sign; closure composes only through a positive middle literal with composed argument maps; the subsumption test answers True only for a positive implier, never for a negated copy of the same atom, with matching mapping sign and position-wise equal arguments (path query with loop marks); implier and implied come from one scope and the implied one is removed; truth tables of true()/false() over sign x value; literals/elements/statements are dropped only when constant true / condition constant false / body constant false. It does not decide that the computed implications are semantically valid for every program (that needs solving).",
    "technique": "must-pass-through guards and enum decision tables by path-sensitive abstract interpretation of cleanup.py",
    "note": NOTE,
}

CLAIMS["C09"] = {
    "text": "Decides (i) exhaustiveness of the usage scan against clingo's AST grammar: every statement kind with a body field (except #show terms, observable only through OUT) and every non-literal head kind (Disjunction, Aggregate, HeadAggregate, TheoryAtom) has its element conditions and literals scanned, with arguments of the right multiplicity for the callee (kind typing over the schema - this is what found the TypeError on head aggregates, now fixed); #show/#project signatures and the declared IN/OUT predicates get every position marked unconditionally; (ii) projection keeps exactly the observed positions, names the shrunken predicate freshly and is applied to every symbolic atom; (iii) a rule is deleted only if it is a Rule with a plain positive symbolic head whose predicate is not in `used`; (iv) the unfold side-condition matrix for copy rules (not IN/OUT, single definition, positive predicate head and single positive predicate body literal, variable head arguments, equal arity, no self copy, every statement rewritten) - the missing 'pairwise distinct head variables' condition is a recorded known finding (A-02); (v) anonymisation only for variables counted once over the whole statement, outside aggregates. Does not decide that 'unobserved' implies unobservable for every program.",
    "technique": "grammar-driven exhaustiveness + kind/multiplicity typing + must-pass-through guards by abstract interpretation of unused.py",
    "note": NOTE,
}

CLAIMS["C11"] = {
    "text": "Decides the syntactic side conditions the pass relies on: the complete 3x6 (sign, operator) decision table of _inequalities against the valid table (only != / not = prove difference, only positive < / > give an order - the two negated-strict rows were a genuine defect, fixed); _unequal answers only for exactly the recorded pair; a candidate group is accepted only if every pair at every differing position has a proof (path query with edge marks), over all pairs (combinations), with at least one inequality, non-overlapping; proofs are classified strict/ordered by operator; _crosscheck yields only when no variable at an unequal position is visible in the rest of the scope, and callers pass the complete scope (tuple terms + whole body; head / objective variables as globals); counting translation only for a single symmetry with exactly one unequal position, != -> < only if no order literal was used, new < literals over the sorted variables of exactly the removed literals; shape of the generated k <= #count aggregate and projected domain atom. Not decided: that the rest of the rule is symmetric in the copies for every program.",
    "technique": "enum decision table + path-sensitive must-pass-through and edge-mark reachability queries over symmetry.py",
    "note": NOTE,
}

CLAIMS["C12"] = {
    "text": "Decides: the complete (3 signs x {min,max} x 6 operators x right-guard) dispatch table of _process_rule against the table derived from `t < #max S iff some s > t` and its duals (72 rows): the one-rule-per-element translation is used exactly for a single bound in the aggregate's own direction; candidate selection (_minmax_agg kinds); shape of the simple translation (sign, bound op weight, per-element fresh renaming of element-local variables, every element yields a rule); chain translation only for a single element and only when a static domain exists, domain = weight under element condition + connected body literals; function -> (border #inf/#sup, extreme predicate, chain direction, step direction) table of the generated rules; _characteristic_variables per term kind; the template-G side conditions for replacing a min/max result inside #minimize and #sum elements (weight is V/-V with the sign table, weight IS the result argument - missing, genuine defect, fixed -, no other objective/sibling tuple may unify, all variables of the result literal occur as characteristic variables of the tuple), difference orientation and base tuple per aggregate type. The empty-candidate-domain defect of the border rule is a recorded known finding (A-08). Not decided: correctness of the chain encoding relative to every instance.",
    "technique": "enum decision tables (72 rows) + constructor-argument/template features + must-pass-through guards by abstract interpretation of minmax_aggregates.py",
    "note": NOTE,
}

NOT_APPLICABLE: dict[str, str] = {}
