"""abstract execution of ngo's hand-written predicate collectors over clingo's AST grammar (DESIGN §4 C18).

A *path* is a tuple of (field, kind) steps from a start node to a SymbolicAtom, e.g.
  (("head","Disjunction"), ("elements[*]","ConditionalLiteral"), ("literal","Literal"), ("atom","SymbolicAtom"))
`required_paths` enumerates them from the grammar; `Collect.run` computes the paths on which a collector function
yields a predicate, by interpreting the collector's source under `param.ast_type == kind` for every kind and
following its calls to other collectors through the schema.
"""

from __future__ import annotations

import ast
import re
from typing import Optional

from .core import Checker
from .grammar import schema
from .interp import Interp, Pins, State, find_nodes, unparse
from .kinds import Kinds
from .model import Func

Step = tuple[str, str]
Path = tuple[Step, ...]

TERM_KINDS = None


def required_paths(kind: str) -> set[Path]:
    """all grammar paths from a node of `kind` to a SymbolicAtom (theory atoms and guards excluded; inside a
    condition a literal's atom is a comparison, boolean constant or symbolic atom - the grammar's `literal`)"""
    sch = schema()
    terms = sch.nonterminals["term"]
    out: set[Path] = set()

    def walk(k: str, path: Path, in_condition: bool, depth: int) -> None:
        if k == "SymbolicAtom":
            out.add(path)
            return
        if depth > 8 or k in ("TheoryAtom", "Guard", "TheoryGuard"):
            return
        for fname, f in sch.kinds.get(k, {}).items():
            if not f.kinds or f.kinds <= terms or fname in ("left_guard", "right_guard"):
                continue
            kinds = set(f.kinds)
            if k == "Literal" and fname == "atom" and in_condition:
                kinds &= {"Comparison", "BooleanConstant", "SymbolicAtom"}
            step = fname + ("[*]" if f.is_seq else "")
            for child in sorted(kinds):
                walk(child, path + ((step, child),), in_condition or fname in ("condition", "head") or (k == "ConditionalLiteral" and fname == "literal"), depth + 1)

    walk(kind, (), False, 0)
    return out


def fmt_path(path: Path) -> str:
    return "".join(f".{f}:{k}" for f, k in path) or "<self>"


class Collect:
    """which grammar paths does a collector yield predicates on"""

    def __init__(self, ck: Checker):
        self.ck = ck
        self.sch = schema()
        self.memo: dict[tuple[str, str, str], frozenset[tuple[Path, str, str]]] = {}
        self.active: set[tuple[str, str, str]] = set()
        self.unresolved: list[str] = []

    def _rel_chain(self, it: Interp, st: State, expr: ast.expr, root: str) -> Optional[list[str]]:
        """field chain (with [*] for iteration) from the collector's parameter `root` to expr"""
        node = it.expand(expr, st)
        for _ in range(8):
            base = node
            while isinstance(base, (ast.Attribute, ast.Subscript)):
                base = base.value
            if not isinstance(base, ast.Name):
                return None
            if base.id == root:
                break
            org = st.origin.get(base.id)
            if not org or not org.endswith("[*]"):
                return None
            text = unparse(node)
            text = org + text[len(base.id):]
            node = ast.parse(text.replace("[*]", "[STAR]"), mode="eval").body
        chain: list[str] = []
        cur = node
        while not isinstance(cur, ast.Name):
            if isinstance(cur, ast.Subscript):
                inner = cur.value
                if isinstance(inner, ast.Attribute):
                    chain.append(inner.attr + "[*]")
                    cur = inner.value
                    continue
                return None
            if isinstance(cur, ast.Attribute):
                chain.append(cur.attr)
                cur = cur.value
                continue
            return None
        if cur.id != root:
            return None
        return list(reversed(chain))

    SIMPLE = frozenset({"Comparison", "BooleanConstant", "SymbolicAtom"})

    def _walk_chain(self, kind: str, chain: list[str]) -> list[tuple[Path, str]]:
        """follow a field chain through the schema from `kind`: list of (steps, final kind).  A kind with suffix '!'
        is a literal inside a conditional literal / element condition, whose atom is simple (grammar's `literal`)."""
        results: list[tuple[Path, str]] = [((), kind)]
        for fld in chain:
            name = fld.removesuffix("[*]")
            nxt: list[tuple[Path, str]] = []
            for steps, k in results:
                simple = k.endswith("!")
                base = k.rstrip("!")
                f = self.sch.field(base, name)
                if f is None or not f.kinds:
                    continue
                if f.is_seq != fld.endswith("[*]"):
                    continue
                kinds = set(f.kinds)
                if base == "Literal" and name == "atom" and simple:
                    kinds &= self.SIMPLE
                for child in sorted(kinds):
                    mark = "!" if child == "Literal" and (name in ("condition", "head") or (base == "ConditionalLiteral" and name == "literal")) else ""
                    nxt.append((steps + ((fld, child),), child + mark))
            results = nxt
        return results

    def run(self, fq: str, kind: str, signs: str) -> frozenset[tuple[Path, str, str]]:
        """(path, sign filter, symbol kinds) triples on which collector `fq` yields for an argument of `kind`"""
        key = (fq, kind, signs)
        if key in self.memo:
            return self.memo[key]
        if key in self.active:
            return frozenset()
        self.active.add(key)
        func = self.ck.prg.funcs[fq]
        p0 = func.params()[0]
        sparam = func.params()[1] if len(func.params()) > 1 else None
        vals: dict[str, object] = {f"{p0}.ast_type": f"ASTType.{kind.rstrip('!')}"}
        if kind == "Literal!":
            vals[f"{p0}.atom.ast_type"] = [f"ASTType.{k}" for k in self.SIMPLE]
        it = self.ck.interp(func, Pins.of(vals=vals))  # type: ignore[arg-type]
        kd = Kinds(it)
        out: set[tuple[Path, str, str]] = set()
        for node in find_nodes(func.node, lambda n: isinstance(n, (ast.Yield, ast.YieldFrom))):
            for st in it.states(node):
                val = node.value  # type: ignore[attr-defined]
                if isinstance(node, ast.Yield):
                    # yield SignedPredicate(sign, Predicate(<sym>.name, len(<sym>.arguments)))
                    syms = [n for n in ast.walk(val) if isinstance(n, ast.Attribute) and n.attr == "name"]
                    if not syms:
                        continue
                    chain = self._rel_chain(it, st, syms[0].value, p0)
                    if chain is None or not chain or chain[-1] != "symbol":
                        self.unresolved.append(f"{func.short}: yield {unparse(val)}")
                        continue
                    sign_f = "all"
                    for cand in ([sparam] if sparam else []):
                        lit_txt = unparse(it.expand(ast.parse(f"{p0}.sign", mode="eval").body, st))
                        if it.holds(node, f"{lit_txt} in {cand}"):
                            sign_f = signs
                    sk = kd.of(syms[0].value, st)
                    symk = ",".join(sorted(sk)) if sk else "?"
                    sym_x = it.expand(syms[0].value, st)  # `symbol = atom.symbol` read through the local
                    atomk = kd.of(sym_x.value, st) if isinstance(sym_x, ast.Attribute) else None
                    for steps, k in self._walk_chain(kind, chain[:-1]):
                        if atomk is not None and k.rstrip("!") not in atomk:
                            continue
                        out.add((steps, sign_f, symk))
                    continue
                if not isinstance(val, ast.Call):
                    continue
                callee = self.ck.prg.resolve_callee(func, val.func)
                if callee is None or callee not in self.ck.prg.funcs or not val.args:
                    continue
                chain = self._rel_chain(it, st, val.args[0], p0)
                if chain is None:
                    self.unresolved.append(f"{func.short}: {unparse(val)}")
                    continue
                sub_signs = signs
                if len(val.args) > 1:
                    s_txt = unparse(it.expand(val.args[1], st))
                    sub_signs = signs if s_txt == sparam else s_txt
                elif len(self.ck.prg.funcs[callee].params()) > 1:
                    # default argument of the callee
                    d = self.ck.prg.funcs[callee].node.args.defaults  # type: ignore[attr-defined]
                    sub_signs = unparse(d[-1]) if d else signs
                for steps, k in self._walk_chain(kind, chain):
                    for sub_path, sub_sign, symk in self.run(callee, k, sub_signs):
                        out.add((steps + sub_path, sub_sign, symk))
        self.active.discard(key)
        res = frozenset(out)
        self.memo[key] = res
        return res
