"""clingo AST schema, parsed from the "Grammar" section of the clingo.ast module docstring (read as text).

Result: for each node kind its fields: name -> (set of node kinds | 'str' | 'int' | 'bool' | 'Symbol' | enum name, multiplicity)
with multiplicity in {'1', '?', '*', '+'}.  Field names follow the docstring except for the six that differ from the
constructor's parameter names (the constructor names are the real attribute names), which are taken from the
`def <Kind>(...)` signatures in the same file.
"""

from __future__ import annotations

import ast
import importlib.util
import re
from dataclasses import dataclass, field
from typing import Optional

from .model import AnalysisError


@dataclass
class Field:
    name: str
    kinds: frozenset[str]  # node kinds if the field holds nodes, else empty
    scalar: Optional[str]  # 'str', 'int', 'bool', 'Symbol', enum name, 'Location'
    mult: str  # '1' | '?' | '*' | '+'

    @property
    def is_seq(self) -> bool:
        return self.mult in "*+"


@dataclass
class Schema:
    kinds: dict[str, dict[str, Field]] = field(default_factory=dict)  # node kind -> fields
    nonterminals: dict[str, frozenset[str]] = field(default_factory=dict)  # term -> {SymbolicTerm, ...}

    def field(self, kind: str, name: str) -> Optional[Field]:
        return self.kinds.get(kind, {}).get(name)

    def kinds_with_field(self, name: str) -> set[str]:
        return {k for k, fs in self.kinds.items() if name in fs}

    def child_kinds(self, kinds: frozenset[str] | set[str], name: str) -> Optional[tuple[frozenset[str], str, bool]]:
        """kinds of field `name` over the given parent kinds: (node kinds, multiplicity join, defined for all parents)"""
        out: set[str] = set()
        mults: set[str] = set()
        all_have = True
        any_have = False
        for kind in kinds:
            f = self.field(kind, name)
            if f is None:
                all_have = False
                continue
            any_have = True
            out |= f.kinds
            mults.add(f.mult)
        if not any_have:
            return None
        mult = "1"
        if mults & {"*", "+"}:
            mult = "*" if mults <= {"*", "+"} else "mixed"
        elif "?" in mults:
            mult = "?"
        return frozenset(out), mult, all_have


_SCHEMA: Optional[Schema] = None


def _tokens(text: str) -> list[str]:
    return re.findall(r"[A-Za-z_][A-Za-z_0-9.]*|[()|,:=?*+]", text)


class _Parser:
    def __init__(self, toks: list[str]):
        self.toks = toks
        self.pos = 0
        self.schema = Schema()
        self.refs: dict[str, list[str]] = {}  # nonterminal -> alternatives (kinds or nonterminals)

    def peek(self) -> Optional[str]:
        return self.toks[self.pos] if self.pos < len(self.toks) else None

    def next(self) -> str:
        tok = self.toks[self.pos]
        self.pos += 1
        return tok

    def parse(self) -> None:
        while self.peek() is not None:
            name = self.next()
            if self.next() != "=":
                raise AnalysisError(f"grammar: expected '=' after {name}")
            self.refs[name] = self.alternatives()

    def alternatives(self) -> list[str]:
        alts = [self.alternative()]
        while self.peek() == "|":
            self.next()
            alts.append(self.alternative())
        return alts

    def alternative(self) -> str:
        name = self.next()
        if self.peek() == "(" and name[0].isupper():
            self.next()
            fields = self.schema.kinds.setdefault(name, {})
            while True:
                fname = self.next()
                if self.next() != ":":
                    raise AnalysisError(f"grammar: expected ':' in {name}.{fname}")
                alts = self.alternatives()
                mult = "1"
                if self.peek() in ("?", "*", "+"):
                    mult = self.next()
                self._add_field(fields, fname, alts, mult)
                tok = self.next()
                if tok == ")":
                    break
                if tok != ",":
                    raise AnalysisError(f"grammar: expected ',' or ')' in {name}, got {tok}")
        return name

    def _add_field(self, fields: dict[str, Field], fname: str, alts: list[str], mult: str) -> None:
        scalar = None
        refs: set[str] = set()
        for alt in alts:
            if alt in ("str", "int", "bool", "Location") or alt.startswith("clingo.") or alt.endswith("Type") or alt.endswith("Operator") or alt in ("Sign", "AggregateFunction"):
                scalar = "Symbol" if alt.startswith("clingo.") else alt
            else:
                refs.add(alt)
        new = Field(fname, frozenset(refs), scalar, mult)
        if fname in fields:  # a kind that is listed twice (Literal, Variable, SymbolicTerm): merge
            old = fields[fname]
            new = Field(fname, old.kinds | new.kinds, old.scalar or new.scalar, old.mult if old.mult == new.mult else "mixed")
        fields[fname] = new


def _resolve(parser: _Parser) -> Schema:
    schema = parser.schema
    memo: dict[str, frozenset[str]] = {}

    def closure(name: str, seen: tuple[str, ...] = ()) -> frozenset[str]:
        if name in memo:
            return memo[name]
        if name in seen:
            return frozenset()
        if name in parser.refs:
            out: set[str] = set()
            for alt in parser.refs[name]:
                out |= closure(alt, seen + (name,))
            memo[name] = frozenset(out)
            return memo[name]
        return frozenset({name})

    for name in parser.refs:
        schema.nonterminals[name] = closure(name)
    for kind, fields in schema.kinds.items():
        for fname, f in list(fields.items()):
            kinds: set[str] = set()
            for ref in f.kinds:
                kinds |= closure(ref)
            fields[fname] = Field(fname, frozenset(kinds), f.scalar, f.mult)
    return schema


def schema() -> Schema:
    """the schema of the installed clingo (cached)"""
    global _SCHEMA  # pylint: disable=global-statement
    if _SCHEMA is not None:
        return _SCHEMA
    spec = importlib.util.find_spec("clingo.ast")
    if spec is None or spec.origin is None:
        raise AnalysisError("cannot locate clingo.ast")
    with open(spec.origin, encoding="utf-8") as fh:
        source = fh.read()
    tree = ast.parse(source)
    doc = ast.get_docstring(tree) or ""
    m = re.search(r"```\n(.*?)```", doc, re.S)
    if not m:
        raise AnalysisError("clingo.ast docstring has no grammar block")
    text = "\n".join(line.split("#")[0] for line in m.group(1).splitlines())
    parser = _Parser(_tokens(text))
    parser.parse()
    sch = _resolve(parser)
    # constructor parameter names are the real attribute names
    for node in tree.body:
        if isinstance(node, ast.FunctionDef) and node.name in sch.kinds:
            params = [a.arg for a in node.args.args]
            fields = sch.kinds[node.name]
            names = list(fields)
            if len(params) == len(names):
                renamed: dict[str, Field] = {}
                for pname, fname in zip(params, names):
                    f = fields[fname]
                    renamed[pname] = Field(pname, f.kinds, f.scalar, f.mult)
                sch.kinds[node.name] = renamed
    if len(sch.kinds) < 40:
        raise AnalysisError(f"grammar: only {len(sch.kinds)} node kinds parsed")
    _SCHEMA = sch
    return sch


if __name__ == "__main__":
    s = schema()
    for k, fs in s.kinds.items():
        print(k, {n: (sorted(f.kinds) or f.scalar, f.mult) for n, f in fs.items()})
    print({k: sorted(v) for k, v in s.nonterminals.items()})
