"""C07 — interface predicates untouched, invented names fresh, directives verbatim (DESIGN §4 C07);
C04 — lexical classes of constructed names and the binder tables (DESIGN §4 C04)."""

from __future__ import annotations

import ast
import re
from typing import Optional

from ..core import Checker, Rule, attr_calls, callee_is, calls_in, kwarg, resolved_calls, short
from ..interp import Pins, find_nodes, unparse
from ..kinds import Kinds
from ..model import Func
from .util import effect_table, enclosing_loop, enclosing_stmt, enum_members, every_iteration_reaches, fmt, inline_displays, is_const, parent, parents, returns_of, single_def

P7 = ("C07",)
P4 = ("C04",)

FRESH_SOURCES = ("new_auxpredicate(", "new_predicate(", "min_anon_predicate(", "max_anon_predicate(", "next_anon_predicate(", "chain_pred(", "dom_named_predicate(", "domain_predicate(")


def r_unique_names(ck: Checker) -> None:
    """UniqueNames: known vocabulary = program + declared inputs; a returned name is new and becomes known"""
    init = ck.func("utils.globals:UniqueNames.__init__")
    it = ck.interp(init)
    d = [n for n in find_nodes(init.node, lambda n: isinstance(n, (ast.Assign, ast.AnnAssign))) if unparse(getattr(n, "target", None) or n.targets[0]) == "self.predicates"]  # type: ignore[attr-defined]
    ck.need(len(d) == 1, "self.predicates initialised once")
    ck.add("vocabulary starts with the declared input predicates", unparse(d[0].value).replace(" ", "") == f"set({init.params()[2]})", init, d[0], f"`{fmt(d[0])}`", "an invented predicate must not collide with an input predicate that has no rule in the program")  # type: ignore[attr-defined]
    adds = [c for c in attr_calls(init, "add") if unparse(c.func.value) == "self.predicates"]  # type: ignore[attr-defined]
    ck.need(len(adds) == 1, "program predicates are added at one site")
    org = {st.origin.get(unparse(adds[0].args[0]).split(".")[0], "") for st in it.states(adds[0])}
    ok = org == {"predicates(stm)[*]"}
    okk, n = every_iteration_reaches(ck, init, enclosing_loop(init, adds[0]), adds[0], None)  # type: ignore[arg-type]
    ck.add("... and every predicate of every statement", ok and okk and n > 0, init, adds[0], f"iterates {sorted(org)}, unconditional: {okk}", "")
    for name in ("new_auxpredicate", "new_predicate"):
        func = ck.func(f"utils.globals:UniqueNames.{name}")
        itf = ck.interp(func)
        rets = [r for r in returns_of(func) if r.value is not None]
        ck.need(len(rets) >= 1, f"{name} returns the found predicate")
        for ret in rets:
            p = unparse(ret.value)  # type: ignore[arg-type]
            reg = [c for c in attr_calls(func, "add") if unparse(c.func.value) == "self.predicates" and unparse(c.args[0]) == p]  # type: ignore[attr-defined]
            itm = ck.interp(func, None, mark_stmts={id(enclosing_stmt(func, c)): "registered" for c in reg})
            sts = itm.states(ret)
            on_all = bool(sts) and all("registered" in s_.marks for s_ in sts)
            if reg and on_all and len(reg) == 1:
                ck.guard(f"{name}: the returned predicate is not in the known vocabulary", func, reg[0], f"{p} not in self.predicates", "freshness")
            else:
                ck.guard(f"{name}: the returned predicate is not in the known vocabulary", func, ret, f"{p} not in self.predicates", "freshness")
            ok = on_all and all(enclosing_loop(func, c) is None for c in reg)
            ck.add(f"{name}: the returned predicate becomes part of the vocabulary", ok, func, ret, f"self.predicates.add({p}) on every path to `{fmt(ret)}`: {ok}",
                   "otherwise the next request from the same pass returns the same name again: two auxiliary predicates share one name")
        preds = resolved_calls(ck.prg, func, "ngo.utils.ast:Predicate")
        ar = {unparse(c.args[1]) for c in preds}
        ck.add(f"{name}: candidates have the requested arity", ar == {func.params()[-1]}, func, func.node, f"arity arguments {sorted(ar)}", "freshness is per (name, arity)")


def r_domain_names(ck: Checker) -> None:
    """DomainPredicates._predicate: every (name, arity) it hands out went through UniqueNames.new_predicate with that arity"""
    func = ck.func("dependency:DomainPredicates._predicate")
    p_name, p_ar = func.params()[1:3]
    it = ck.interp(func)
    want = f"self.unique_names.new_predicate({p_name}, {p_ar})"
    n = 0
    for ret in returns_of(func):
        if ret.value is None or not it.reachable(ret):
            continue
        n += 1
        txts = it.texts(ret, ret.value)
        ok = txts == {want}
        if not ok and all(re.fullmatch(r"[\w.]+\[.*\]", t) for t in txts):
            # an explicit memo table: keyed by both parameters, filled with the checked name only
            sub_ = ret.value if isinstance(ret.value, ast.Subscript) else None
            if sub_ is not None:
                key = unparse(sub_.slice)
                stores = [a for a in find_nodes(func.node, lambda x: isinstance(x, ast.Assign)) if any(isinstance(t, ast.Subscript) and unparse(t.value) == unparse(sub_.value) for t in a.targets)]  # type: ignore[attr-defined]
                ok = bool(stores) and re.search(rf"\b{p_name}\b", key) is not None and re.search(rf"\b{p_ar}\b", key) is not None and all(unparse(a.value) == want for a in stores)  # type: ignore[attr-defined]
        ck.add("the handed out predicate is the one new_predicate checked for this name AND arity", ok, func, ret, f"returns {sorted(txts)}; expected `{want}`",
               "freshness is per (name, arity): a name checked for arity 2 can be an input predicate at arity 3 (`__dom_cost/3` declared as input gets a defining rule)")
    ck.need(n >= 1, "_predicate returns a predicate")
    decos = [unparse(d) for d in func.node.decorator_list]  # type: ignore[attr-defined]
    ck.add("memoised per (self, name, arity) or not at all", all(d in ("cache", "functools.cache", "lru_cache(maxsize=None)", "functools.lru_cache(maxsize=None)") for d in decos), func, func.node, f"decorators {decos}",
           "one request must not yield two different invented names for the same purpose", nontrivial=False)
    users = 0
    for other in ck.prg.funcs.values():
        if not other.qualname.startswith("ngo.dependency:DomainPredicates."):
            continue
        for call in resolved_calls(ck.prg, other, "ngo.utils.ast:Predicate"):
            name = call.args[0] if call.args else None
            built = name is not None and any(isinstance(x, ast.JoinedStr) or (isinstance(x, ast.Constant) and isinstance(x.value, str) and x.value != "") or (isinstance(x, ast.Name) and x.id.endswith("_STR")) for x in ast.walk(name))
            if built:
                users += 1
                ck.add(f"{other.name}: invented name goes through _predicate", False, other, call, f"`{short(unparse(call), 80)}` builds an invented name directly", "no freshness check at all")
    ck.notes["C07.domain-names.direct"] = users
    # the named helpers that invent min / max / next / chain / dom predicates hand out what _predicate returned
    n_h = 0
    for hname in ("min_anon_predicate", "max_anon_predicate", "next_anon_predicate", "chain_pred", "dom_named_predicate"):
        h = ck.prg.funcs.get(f"ngo.dependency:DomainPredicates.{hname}")
        if h is None:
            continue
        ith = ck.interp(h)
        for ret in returns_of(h):
            if ret.value is None:
                continue
            n_h += 1
            txts = ith.texts(ret, ret.value)
            okh = bool(txts) and all(t.startswith("self._predicate(") for t in txts)
            ck.add(f"{hname}: the invented predicate comes from _predicate", okh, h, ret, f"returns `{short(' | '.join(sorted(txts)), 100)}`",
                   "a name built with the plain constructor is never compared with the predicates of the source: a program that already has `__next_0_0__dom_p/2` gets ngo's rules added to its own predicate")
    ck.need(n_h >= 4, "helpers that invent domain predicates")
    # one predicate per (annotated predicate, position): the invented name spells out every annotated position AND the
    # requested position, and names the domain predicate it is built over
    for hname in ("min_anon_predicate", "max_anon_predicate", "next_anon_predicate", "chain_pred"):
        h = ck.prg.funcs.get(f"ngo.dependency:DomainPredicates.{hname}")
        if h is None:
            continue
        ap, pos_p = h.params()[1], h.params()[2]
        for ret in returns_of(h):
            if not (isinstance(ret.value, ast.Call) and ret.value.args):
                continue
            name_e = ck.interp(h).expand(ret.value.args[0], ck.interp(h).states(ret)[0]) if ck.interp(h).states(ret) else ret.value.args[0]
            fvals = [unparse(v.value) for x in ast.walk(name_e) if isinstance(x, ast.JoinedStr) for v in x.values if isinstance(v, ast.FormattedValue)]
            okn = pos_p in fvals and any(f"{ap}.annotated_positions" in t for t in fvals) and f"self.domain_predicate({ap}.pred).name" in unparse(name_e)
            ck.add(f"{hname}: the name identifies annotated positions, requested position and domain", okn, h, ret, f"name components {fvals} + `{'self.domain_predicate(..).name' if 'domain_predicate' in unparse(name_e) else '?'}`",
                   "two weights at positions 1 and 2 of one predicate need two minimum predicates: a name that spells only the first annotated position makes both `#min` rules define the same predicate, and both successor relations gain foreign pairs")


def _head_name_sources(ck: Checker, func: Func, rule_call: ast.Call) -> set[str]:
    """texts the head predicate NAME of a constructed rule derives from"""
    it = ck.interp(func)
    out = set()
    for st in it.states(rule_call):
        head = it.expand(inline_displays(func, kwarg(rule_call, "head", 1)), st)  # type: ignore[arg-type]
        text = unparse(head)
        fn = [n for n in ast.walk(head) if isinstance(n, ast.Call) and isinstance(n.func, ast.Name) and n.func.id == "Function" and len(n.args) >= 2]
        proj = [n for n in ast.walk(head) if isinstance(n, ast.Call) and unparse(n.func).endswith("_create_projected_lit")]
        if fn:
            out.add(unparse(fn[0].args[1]))
        elif proj:
            out.add(unparse(proj[0].args[0]))
        else:
            out.add(text)
    return out


def r_fresh_predicates(ck: Checker) -> None:
    """the head predicate of every constructed rule is an existing head or comes from UniqueNames / DomainPredicates"""
    n = 0
    for func in ck.prg.funcs.values():
        for call in resolved_calls(ck.prg, func, "clingo.ast.Rule"):
            n += 1
            srcs = _head_name_sources(ck, func, call)
            for src in sorted(srcs):
                existing = bool(re.fullmatch(r"(\w+)\.head|\w+\.update\(.*\)\.head", src)) or src.endswith(".head")
                fresh = any(f in src for f in FRESH_SOURCES)
                # a name read from a Predicate object that itself came from a fresh source
                m = re.fullmatch(r"(\w+)\.name", src)
                if not fresh and m:
                    d = single_def(func, m.group(1))
                    fresh = d is not None and any(f in unparse(d) for f in FRESH_SOURCES)
                    if not fresh and m.group(1) in func.params():
                        fresh = _param_fresh(ck, func, m.group(1))
                ok = existing or fresh
                ck.add(f"head of constructed rule: {short(src, 60)}", ok, func, call, f"head predicate name derives from `{short(src, 100)}`" + ("" if ok else " - not from UniqueNames / DomainPredicates"),
                       "a name built from the source position collides for two rules on one line, for API-built programs (all locations equal) and with source predicates of that shape", rule="C07.FRESH.predicate")
    ck.need(n >= 12, f"Rule(...) constructor calls found ({n})")


def r_fresh_arity(ck: Checker) -> None:
    """freshness is per (name, arity): the arity asked for must be the arity the predicate is used with"""
    n = 0
    for func in ck.prg.funcs.values():
        if isinstance(func.node, ast.Lambda):
            continue
        reqs = [a for a in find_nodes(func.node, lambda x: isinstance(x, ast.Assign)) if isinstance(a.value, ast.Call) and isinstance(a.value.func, ast.Attribute)  # type: ignore[attr-defined]
                and a.value.func.attr == "new_auxpredicate" and isinstance(a.targets[0], ast.Name)]  # type: ignore[attr-defined]
        if not reqs:
            continue
        it = ck.interp(func)
        for req in reqs:
            pred = req.targets[0].id  # type: ignore[attr-defined]
            ar = req.value.args[0] if req.value.args else None  # type: ignore[attr-defined]
            uses = [c for c in calls_in(func, lambda c: isinstance(c.func, ast.Name) and c.func.id == "Function" and len(c.args) >= 3 and unparse(c.args[1]) == f"{pred}.name")]
            ck.need(bool(uses), f"the predicate requested in {func.name} is used in a Function(...) term")
            for use in uses:
                n += 1
                want = {f"len({t})" for t in it.texts(use, use.args[2])}
                got = it.texts(req.value, ar) if ar is not None else set()
                ck.add(f"{func.name}: the arity asked of new_auxpredicate is the length of the argument list the predicate is used with", bool(got) and got == want, func, req,
                       f"asked for arity {sorted(got)}; used with `{short(unparse(use.args[2]), 60)}` (arity {sorted(want)})",
                       "a name is only checked against predicates of the requested arity: with another arity an `__aux_N` the source already owns gets a second defining rule")
    ck.need(n >= 3, f"uses of freshly requested auxiliary predicates found ({n})")


def _param_fresh(ck: Checker, func: Func, param: str) -> bool:
    """every caller passes a predicate obtained from a fresh source for this parameter"""
    from .c03 import _bind, _call_sites

    sites = _call_sites(ck, func)
    if not sites:
        return False
    for caller, call in sites:
        mapping = _bind(func, call)
        if mapping is None or param not in mapping:
            return False
        arg = mapping[param]
        it = ck.interp(caller)
        txts = it.texts(call, arg)
        if not txts or not all(any(f in t for f in FRESH_SOURCES) for t in txts):
            return False
    return True


def r_fresh_variables(ck: Checker) -> None:
    """constant-named variables: fresh through make_unique, or inside rules made of generated literals only"""
    closed = {"dependency:DomainPredicates.create_next_pred_for_annotated_pred", "dependency:DomainPredicates.create_chain_pred_for_annotated_pred", "dependency:DomainPredicates._create_projected_lit"}
    reasons = {
        "dependency:DomainPredicates.create_next_pred_for_annotated_pred": "closed template: the generated min/max/next rules contain only generated literals over these variables",
        "dependency:DomainPredicates.create_chain_pred_for_annotated_pred": "closed template",
        "dependency:DomainPredicates._create_projected_lit": "anonymous variable",
    }
    n = 0
    for func in ck.prg.funcs.values():
        par = parents(func)
        for call in find_nodes(func.node, lambda x: isinstance(x, ast.Call) and isinstance(x.func, ast.Name) and x.func.id == "Variable" and len(x.args) == 2):
            name = call.args[1]  # type: ignore[attr-defined]
            n += 1
            text = unparse(name)
            const = isinstance(name, ast.Constant) or isinstance(name, ast.JoinedStr)
            if isinstance(name, ast.Constant) and name.value == "_":
                ck.add(f"Variable({text})", True, func, call, "anonymous variable", "", nontrivial=False, rule="C07.FRESH.variable")
                continue
            if not const:
                ck.add(f"Variable({short(text, 40)})", True, func, call, f"name `{short(text, 60)}` is taken from the source / an analysed bound", "", nontrivial=False, rule="C07.FRESH.variable")
                continue
            up = par.get(id(call))
            via_unique = isinstance(up, ast.Call) and unparse(up.func).endswith("make_unique")
            if func.short in closed:
                ck.add(f"Variable({text})", True, func, call, reasons[func.short], "", nontrivial=False, rule="C07.FRESH.variable")
                continue
            ok = via_unique
            ck.add(f"Variable({text}) in {func.name}", ok, func, call, f"constant-named variable `{text}` " + ("is made unique against the statement" if ok else "is placed next to source-derived literals without make_unique"),
                   "a source rule that already uses this variable name captures it: `a(X,V) :- V = #max{Y : p(Y,X)}, d(X)` meets the generated `X`", rule="C07.FRESH.variable")
    # module-level variable constants
    glob = ck.prg.module("utils.globals")
    for cname in ("NEXT", "PREV", "AUX_VAR"):
        val = glob.consts.get(cname)
        ck.need(val is not None, f"utils.globals.{cname} defined")
        users = []
        for func in ck.prg.funcs.values():
            if func.module.name == "ngo.utils.globals" or func.module.imports.get(cname) != f"ngo.utils.globals.{cname}":
                continue
            for nm in find_nodes(func.node, lambda x: isinstance(x, ast.Name) and x.id == cname and isinstance(x.ctx, ast.Load)):
                up = parents(func).get(id(nm))
                if not (isinstance(up, ast.Call) and unparse(up.func).endswith("make_unique")):
                    users.append(func.short)
        ok = not users
        ck.add(f"module variable {cname} is only used through make_unique", ok, "utils.globals:<module>", val, f"`{cname} = {unparse(val)}` used raw in {sorted(set(users))}",  # type: ignore[arg-type]
               "source programs may use __NEXT/__PREV/AUX themselves (the property explicitly includes such names)", rule="C07.FRESH.variable")
    ck.need(n >= 25, f"Variable(...) constructor calls found ({n})")


SUBPART = re.compile(r"\.(body|elements|condition|atom|head|terms|literal|left|right|guards|arguments|symbol)\b")


def r_unique_variables(ck: Checker) -> None:
    """UniqueVariables: knows every variable of the WHOLE target statement; a returned variable is new and becomes known"""
    init = ck.func("utils.globals:UniqueVariables.__init__")
    p = init.params()[1]
    d = [n for n in find_nodes(init.node, lambda n: isinstance(n, (ast.Assign, ast.AnnAssign))) if unparse(getattr(n, "target", None) or n.targets[0]) == "self._allvars"]  # type: ignore[attr-defined]
    ck.need(len(d) == 1, "self._allvars initialised once")
    val = unparse(d[0].value).replace('"', "'")  # type: ignore[attr-defined]
    ck.add("known variables = all variables of the given statement", val in (f"collect_ast({p}, 'Variable')", f"list(collect_ast({p}, 'Variable'))"), init, d[0], f"`{fmt(d[0])}`", "a variable that is not collected can be handed out again: capture")
    mu = ck.func("utils.globals:UniqueVariables.make_unique")
    it = ck.interp(mu)
    v = mu.params()[1]
    n = 0
    for ret in returns_of(mu):
        if ret.value is None or not it.reachable(ret):
            continue
        n += 1
        txt = unparse(ret.value)
        anon = it.holds(ret, f"{v}.name == '_'")
        if anon:
            ck.add("make_unique: the anonymous variable is returned as is", txt == v, mu, ret, f"returns `{txt}`", "", nontrivial=False)
            continue
        apps = [c for c in attr_calls(mu, "append") if unparse(c.func.value) == "self._allvars" and unparse(c.args[0]) == txt]  # type: ignore[attr-defined]
        new = all(it.holds(a, f"{txt} not in self._allvars") for a in apps) if apps else it.holds(ret, f"{txt} not in self._allvars")
        marked = ck.interp(mu, None, mark_stmts={id(enclosing_stmt(mu, a)): "known" for a in apps})
        known = bool(apps) and all("known" in st.marks for st in marked.states(ret))
        ck.add(f"make_unique: returned `{txt}` is not a variable of the statement", new, mu, ret, f"`{fmt(ret)}` dominated by `{txt} not in self._allvars`: {new}", "capture of a source variable")
        ck.add(f"make_unique: returned `{txt}` becomes known", known, mu, ret, f"self._allvars.append({txt}) on every path to the return: {known}", "two invented variables of one statement would share a name")
    ck.need(n >= 3, f"make_unique return sites ({n})")
    sites = 0
    for func in ck.prg.funcs.values():
        for call in resolved_calls(ck.prg, func, "ngo.utils.globals:UniqueVariables"):
            sites += 1
            itf = ck.interp(func)
            arg = call.args[0]
            txts = set(itf.texts(call, arg))
            for st in itf.states(call):
                root = unparse(arg).split(".")[0].split("[")[0]
                if root in st.origin:
                    txts.add(st.origin[root])
            part = sorted(t for t in txts if SUBPART.search(t))
            ck.add(f"UniqueVariables({short(unparse(arg), 30)}) in {func.name}", not part, func, call, f"scope argument derives from {sorted(txts)}" + (f": {part} is a part of a statement" if part else " (a whole statement)"),
                   "names made unique against a literal or an aggregate only can capture a variable the statement uses elsewhere (`total(W,T) :- worker(W), T = #sum{S,P : spent(P,S)}` with an inlined rule that has its own W)",
                   rule="C07.FRESH.variable-scope")
            # one generator per statement: inside a loop a generator is only created for something the loop provides
            lp = enclosing_loop(func, call)
            if lp is not None:
                varying = {x.id for x in ast.walk(lp) if isinstance(x, ast.Name) and isinstance(x.ctx, ast.Store)}
                used = {x.id for x in ast.walk(arg) if isinstance(x, ast.Name)}
                ck.add(f"UniqueVariables({short(unparse(arg), 30)}) in {func.name}: one generator per statement", bool(used & varying), func, call,
                       f"created inside the loop over `{short(unparse(lp.iter), 40)}` for `{unparse(arg)}`, which the loop " + ("provides" if used & varying else "does not change"),
                       "a generator made anew for every part of the SAME statement hands out the same fresh name again: two ex-lined tuple terms share one AUX variable (a spurious join)",
                       rule="C07.FRESH.variable-scope")
    ck.need(sites >= 6, f"UniqueVariables constructions found ({sites})")


def r_passthrough(ck: Checker) -> None:
    """statements that are neither rules nor objectives are emitted unchanged, once, in order"""
    passes = {
        "cleanup:CleanupTranslator.execute": None, "unused:UnusedTranslator.execute": None, "literal_duplication:LiteralDuplicationTranslator.execute": None,
        "symmetry:SymmetryTranslator.execute": None, "minmax_aggregates:MinMaxAggregator.execute": None, "sum_aggregates:SumAggregator.execute": None,
        "math_simplification:MathSimplification.execute": None, "inline:InlineTranslator.execute": None, "projection:ProjectionTranslator.execute": None,
    }
    helpers = ["normalize:replace_old_aggregates", "normalize:expand_comparisons", "normalize:exline_arithmetic_rule", "normalize:inline_rule", "normalize:inline_aggregates", "normalize:inline_conditionals",
               "cleanup:CleanupTranslator._apply_superseeding", "cleanup:CleanupTranslator.remove_boolean", "utils.ast:replace_assignments", "utils.ast:replace_simple_assignments"]
    # per-statement transformers: under a directive kind they return the statement itself
    for name in helpers:
        func = ck.func(name)
        params = func.params()
        stm = params[1] if params[0] == "self" else params[0]
        if name == "normalize:replace_old_aggregates":
            loops = [x for x in find_nodes(func.node, lambda x: isinstance(x, ast.For))]
            stm = unparse(loops[0].target)  # type: ignore[attr-defined]
            itp = ck.interp(func, Pins.of(vals={f"{stm}.ast_type": "ASTType.External"}))
            apps = [c for c in attr_calls(func, "append") if itp.reachable(c)]
            got = {unparse(itp.expand(c.args[0], s)) for c in apps for s in itp.states(c)}
            ck.add(f"{func.name}: directives pass through", got == {stm}, func, loops[0], f"for an #external statement appends {sorted(got)}", "directives appear verbatim", rule="C07.FLOW.passthrough")
            continue
        itp = ck.interp(func, Pins.of(vals={f"{stm}.ast_type": "ASTType.External"}))
        got = {unparse(itp.expand(r.value, s)) if r.value is not None else "None" for r, s in itp.returns}
        ck.add(f"{func.name}: directives pass through", got == {stm}, func, func.node, f"for an #external statement returns {sorted(got)}", "directives appear verbatim", rule="C07.FLOW.passthrough")
    # directives stay verbatim only if everything they mention counts as observed: the usage scan must look at the
    # atom of #external / #heuristic / #project statements (their bodies are scanned, see C09.EXHAUST.usage)
    au = ck.func("unused:UnusedTranslator.analyze_usage")
    loops = [x for x in find_nodes(au.node, lambda x: isinstance(x, ast.For)) if enclosing_loop(au, x) is None]
    ck.need(len(loops) >= 1 and isinstance(loops[0].target, ast.Name), "analyze_usage loops over the program")  # type: ignore[attr-defined]
    stm = loops[0].target.id  # type: ignore[attr-defined]
    usage = resolved_calls(ck.prg, au, "ngo.unused:UnusedTranslator._add_usage", "ngo.unused:UnusedTranslator._add_usage_stm")
    for kind in ("External", "Heuristic", "ProjectAtom"):
        itk = ck.interp(au, Pins.of(vals={f"{stm}.ast_type": f"ASTType.{kind}"}))
        hit = [c for c in usage if itk.reachable(c) and any(t == f"{stm}.atom" for t in itk.texts(c, c.args[0]))]
        ck.add(f"unused: the atom of a #{kind.lower()} statement is observed", bool(hit), au, loops[0], f"with {stm}.ast_type == {kind}: usage of `{stm}.atom` recorded: {bool(hit)}",
               "an argument position that only the directive's own atom uses is projected away and the directive is rewritten (`#external a(X,Y) : ...` becomes `#external a(X) : ...`): directives are not verbatim",
               rule="C07.FLOW.directive-atoms")
    # loops of the passes: directive branch appends the statement itself
    for name in ("symmetry:SymmetryTranslator.execute", "minmax_aggregates:MinMaxAggregator.execute", "sum_aggregates:SumAggregator.execute", "projection:ProjectionTranslator.execute", "math_simplification:MathSimplification.execute", "unused:UnusedTranslator.remove_unused"):
        func = ck.func(name)
        loops = [x for x in find_nodes(func.node, lambda x: isinstance(x, ast.For)) if enclosing_loop(func, x) is None]
        ck.need(len(loops) >= 1, f"{name} loops over the program")
        loop = loops[-1]
        tgt = loop.target  # type: ignore[attr-defined]
        stm = unparse(tgt.elts[-1]) if isinstance(tgt, ast.Tuple) else unparse(tgt)
        first = unparse(tgt.elts[0]) if isinstance(tgt, ast.Tuple) else stm
        itp = ck.interp(func, Pins.of(vals={f"{stm}.ast_type": "ASTType.ShowSignature", f"{first}.ast_type": "ASTType.ShowSignature"}))
        apps = [c for c in attr_calls(func, "append") + attr_calls(func, "extend") if itp.reachable(c) and enclosing_loop(func, c) is loop]
        got = {unparse(itp.expand(c.args[0], s)) for c in apps for s in itp.states(c)}
        ck.add(f"{func.short.split(':')[1]}: a #show statement is emitted unchanged", got <= {stm, first, f"[{stm}]"} and bool(got), func, loop, f"for a #show statement the loop emits {sorted(got)}", "directives appear verbatim, once, in order", rule="C07.FLOW.passthrough")


# ------------------------------------------------------------------------------------------------ C04
def r_lexical(ck: Checker) -> None:
    """constant prefixes of constructed names fall into clingo's lexical classes"""
    n = 0
    for func in ck.prg.funcs.values():
        for call in find_nodes(func.node, lambda x: isinstance(x, ast.Call) and isinstance(x.func, ast.Name) and x.func.id in ("Variable", "Function") and len(x.args) >= 2):
            name = call.args[1]  # type: ignore[attr-defined]
            prefix: Optional[str] = None
            if isinstance(name, ast.Constant) and isinstance(name.value, str):
                prefix = name.value
            elif isinstance(name, ast.JoinedStr) and name.values and isinstance(name.values[0], ast.Constant):
                prefix = str(name.values[0].value)
            if prefix is None:
                continue
            n += 1
            kind = call.func.id  # type: ignore[attr-defined]
            if kind == "Variable":
                ok = prefix == "_" or re.match(r"_*[A-Z]", prefix) is not None
                what = "variables start with (underscores and) an upper-case letter"
            else:
                ok = prefix == "" or re.match(r"_*[a-z]", prefix) is not None
                what = "function/predicate names start with (underscores and) a lower-case letter, or are empty (tuple)"
            ck.add(f"{kind}({unparse(name)})", ok, func, call, f"constant name prefix `{prefix}`: {what}",
                   "a Variable whose name looks like a constant prints as that constant: the text parses, but the AST handed to ProgramBuilder contains an unbound variable", rule="C04.lexical")
    for cname in ("AUX_FUNC", "CHAIN_STR", "MIN_STR", "MAX_STR", "NEXT_STR", "DOM_STR", "AGG_STR"):
        mod = ck.prg.module("utils.globals")
        val = mod.consts.get(cname)
        ok = isinstance(val, ast.Constant) and re.match(r"_*[a-z]", str(val.value)) is not None
        ck.add(f"name prefix {cname}", ok, "utils.globals:<module>", val, f"`{unparse(val) if val is not None else None}`", "generated predicate / function names must lex as identifiers", rule="C04.lexical")
    ck.need(n >= 20, f"constant-named constructor calls found ({n})")


def r_binders(ck: Checker) -> None:
    """TABLE: what ngo believes binds a variable must not be more generous than gringo"""
    func = ck.func("utils.ast:has_unsafe_operation")
    tup = [n for n in find_nodes(func.node, lambda n: isinstance(n, ast.Tuple)) if all("BinaryOperator." in unparse(e) for e in n.elts) and n.elts]  # type: ignore[attr-defined]
    ck.need(len(tup) == 1, "has_unsafe_operation lists the non-invertible binary operators")
    got = {unparse(e).split(".")[-1] for e in tup[0].elts}  # type: ignore[attr-defined]
    need = {"XOr", "Power", "Modulo", "Division", "Multiplication"}
    ck.add("non-invertible binary operators", need <= got, func, tup[0], f"listed {sorted(got)}; gringo cannot solve for a variable under {sorted(need)}",
           "`X*X = Y+U` does not bind X in gringo: believing it does lets projection/duplication build unsafe auxiliary rules")
    it = ck.interp(func)
    txt = unparse(func.node)
    ck.add("absolute value is non-invertible", "UnaryOperator.Absolute" in txt, func, func.node, "UnaryOperator.Absolute tested", "|X| = 3 does not bind X")
    ck.add("intervals are non-invertible", "collect_ast(ast, 'Interval')" in txt.replace('"', "'"), func, func.node, "intervals tested", "")
    # simple literal
    sl = ck.func("utils.ast:_collect_binding_information_simple_literal")
    its = ck.interp(sl)
    lit = sl.params()[0]
    upd = [c for c in attr_calls(sl, "update") if unparse(c.func.value) == "bound_variables" and "variables" == unparse(c.args[0])]  # type: ignore[attr-defined]
    ck.need(len(upd) >= 1, "symbolic atoms bind their variables")
    site = upd[0]
    cond = "len(variables) == 1 and not has_unsafe_operation(arg) or len(collect_ast(arg, 'BinaryOperation')) + len(collect_ast(arg, 'UnaryOperation')) == 0"
    for site_ in upd:
        ck.guard("only positive symbolic atoms bind", sl, site_, f"{lit}.sign == Sign.NoSign and {lit}.atom.ast_type == ASTType.SymbolicAtom and {lit}.atom.symbol.ast_type == ASTType.Function", "`not p(X)` and `not not p(X)` bind nothing")
        ck.guard("an argument binds its variables only if it is operation-free, or has one variable and only invertible operations", sl, site_, cond, "gringo binds p(X+1) but not p(X+Y) or p(X*X)")
    arg_loop = enclosing_loop(sl, site)
    ck.need(arg_loop is not None and all(enclosing_loop(sl, s_) is arg_loop for s_ in upd), "arguments are examined one by one")
    # every argument is classified: its variables go to the bound or to the unbound set, never nowhere
    unb = [c for c in attr_calls(sl, "update") if unparse(c.func.value) == "unbound_variables" and enclosing_loop(sl, c) is arg_loop]  # type: ignore[attr-defined]
    itm_ = ck.interp(sl, None, mark_stmts={id(enclosing_stmt(sl, c)): "classified" for c in upd + unb}, clear_marks_at={id(arg_loop): "classified"})
    back_ = itm_.loop_back.get(id(arg_loop), [])
    okc = bool(back_) and all("classified" in s_.marks for s_ in back_)
    ck.add("every argument of a positive atom is classified as binding or not binding its variables", okc, sl, arg_loop, f"each iteration over the arguments updates bound_variables or unbound_variables: {okc}",
           "a variable that is reported neither bound nor unbound (`size(2*X,Y)`) looks as if it did not occur: duplication factors the literal out and drops the variable from the auxiliary atom")
    keys = {"free": "len(collect_ast(arg, 'BinaryOperation')) + len(collect_ast(arg, 'UnaryOperation')) == 0", "one": "len(variables) == 1", "unsafe": "has_unsafe_operation(arg)"}
    keys = {k: next(iter(its.texts(site, ast.parse(v, mode="eval").body))) for k, v in keys.items()}  # in terms of what the locals stand for
    for title, facts in (("an operation-free argument (also a tuple or function term with several variables) binds all its variables", {keys["free"]: True}),
                         ("an argument with one variable under invertible operations binds it", {keys["free"]: False, keys["one"]: True, keys["unsafe"]: False})):
        okb, nb_ = every_iteration_reaches(ck, sl, arg_loop, site, Pins.of(facts=facts))
        ck.add(title, okb and nb_ > 0, sl, site, f"every such argument reaches `{fmt(site)}`: {okb}",
               "gringo binds the variables of `cal((W,D))`: treating them as unbound makes group arguments look local (sum_chains then chains over all groups) and blocks sound rewrites")
    # comparison
    cp = ck.func("utils.ast:_collect_binding_information_from_comparison")
    itc = ck.interp(cp)
    c0 = cp.params()[0]
    calls = resolved_calls(ck.prg, cp, "ngo.utils.ast:_collect_binding_information_from_equal")
    ck.need(len(calls) == 1, "comparisons bind through _collect_binding_information_from_equal")
    ck.guard("only positive comparisons bind", cp, calls[0], f"{c0}.sign == Sign.NoSign", "")
    ck.guard("only `=` links bind", cp, calls[0], "operator == ComparisonOperator.Equal", "X < 3 binds nothing")
    eq = ck.func("utils.ast:_collect_binding_information_from_equal")
    ite = ck.interp(eq)
    ups = [c for c in attr_calls(eq, "update") if unparse(c.func.value) == "bound_variables" and unparse(c.args[0]) in ("lhs_vars", "rhs_vars")]  # type: ignore[attr-defined]
    ck.need(len(ups) == 2, "both directions of an equality")
    for c in ups:
        side = unparse(c.args[0])
        other = "rhs_vars" if side == "lhs_vars" else "lhs_vars"
        term = "lhs" if side == "lhs_vars" else "rhs"
        ck.guard(f"`=` binds {term} only if it has one variable, invertible operations and the other side is bound", eq, c, f"len({side}) == 1 and not has_unsafe_operation({term}) and {other} <= bound_variables", "")
    # equalities bind in chains (`T0+1 = T1, T1+1 = T2`): the scan over the comparisons is repeated until nothing new is bound
    cps = ck.func("utils.ast:_collect_binding_information_from_comparisons")
    scans = [lp for lp in find_nodes(cps.node, lambda n: isinstance(n, ast.For)) if unparse(lp.iter) == cps.params()[0]]  # type: ignore[attr-defined]
    ck.need(len(scans) == 1, "_collect_binding_information_from_comparisons scans its literals in one loop")
    outer = enclosing_loop(cps, scans[0])
    okf, detail = False, "the scan over the comparisons is not inside a loop"
    if isinstance(outer, ast.While):
        breaks = [b for b in find_nodes(outer, lambda n: isinstance(n, ast.Break)) if enclosing_loop(cps, b) is outer]
        itx = ck.interp(cps)
        snaps = [n for n in find_nodes(outer, lambda n: isinstance(n, ast.Assign)) if len(n.targets) == 1 and isinstance(n.targets[0], ast.Name) and n.lineno < scans[0].lineno]  # type: ignore[attr-defined]
        copies = [n for n in snaps if unparse(n.value).replace(" ", "") in ("bound_variables.copy()", "set(bound_variables)", "frozenset(bound_variables)", "len(bound_variables)")]  # type: ignore[attr-defined]
        stop_ok = False
        if len(copies) == 1 and len(breaks) == 1:
            o = copies[0].targets[0].id  # type: ignore[attr-defined]
            cmp_ = "len(bound_variables)" if unparse(copies[0].value).startswith("len(") else "bound_variables"  # type: ignore[attr-defined]
            stop_ok = itx.holds(breaks[0], f"{o} == {cmp_}")
        okf = is_const(outer.test, True) and stop_ok
        detail = f"snapshot before the scan: {[fmt(n) for n in snaps]}; the only exit is `break` under 'snapshot == bound_variables': {stop_ok}"
    ck.add("equality chains: the scan is repeated until a fixpoint of the bound variables", okf, cps, scans[0], detail,
           "a single pass binds `T2` in `T1+1 = T2, T0+1 = T1` only if the literals happen to be in dependency order; a snapshot that aliases the live set (`orig = bound_variables`) always compares equal and stops after one pass: variables look unbound (duplication drops them from the aux atom, sum_chains mistakes group variables for local ones)")
    # aggregates
    body = ck.func("utils.ast:collect_binding_information_body")
    itb = ck.interp(body)
    ups = [c for c in attr_calls(body, "update") if unparse(c.func.value) == "bound_variables" and "guard" in unparse(c.args[0])]  # type: ignore[attr-defined]
    ck.need(len(ups) == 2, "aggregate guards bind at two sites")
    for c in ups:
        g = re.search(r"\.(left_guard|right_guard)", unparse(c.args[0])).group(1)  # type: ignore[union-attr]
        ck.guard(f"aggregate {g} binds only as a positive `=`", body, c, f"stm.sign == Sign.NoSign and stm.atom.{g}.comparison == ComparisonOperator.Equal", "`X = #sum{..}` binds X, `not X = #sum{..}` and `X < #sum{..}` do not")


def r_literal_atoms(ck: Checker) -> None:
    """`Literal(loc, sign, atom)`: the third argument is an ATOM. A Literal put there prints like the atom (`not X = #sum{..}`,
    `#true`), so the text round-trips, but the AST is rejected by clingo ('invalid ast: atom expected')"""
    n = 0
    feeders: dict[str, list[tuple[Func, ast.Call]]] = {}
    for func in ck.prg.funcs.values():
        if isinstance(func.node, ast.Lambda):
            continue
        calls = resolved_calls(ck.prg, func, "clingo.ast.Literal")
        if not calls:
            continue
        it = ck.interp(func)
        kd = Kinds(it)
        for call in calls:
            if len(call.args) < 3:
                continue
            n += 1
            arg = call.args[2]
            kinds = set()
            for st in it.states(call):
                k = kd.of(arg, st)
                if k:
                    kinds |= k
                exp = it.expand(arg, st)
                if isinstance(exp, ast.Call):
                    res = ck.prg.resolve_callee(func, exp.func)
                    if res in ck.prg.funcs:
                        feeders.setdefault(res, []).append((func, call))
            bad = kinds & {"Literal", "ConditionalLiteral"}
            ck.add(f"Literal(.., atom) in {func.name}: the atom is not itself a literal", not bad, func, call, f"`{short(unparse(call), 80)}`: third argument can be of kind {sorted(bad) or sorted(kinds) or 'unknown (not a literal by construction)'}",
                   "a Literal inside a Literal prints like the inner one, so the printed program is fine while ProgramBuilder.add rejects the AST: the API path and the text path disagree")
    for q, users in sorted(feeders.items()):
        f2 = ck.prg.funcs[q]
        for ret in returns_of(f2):
            if isinstance(ret.value, ast.Call) and callee_is(ck.prg, f2, ret.value, "clingo.ast.Literal"):
                ck.add(f"{f2.name} returns atoms (its result is wrapped in Literal(..) by {users[0][0].name})", False, f2, ret, f"`{short(unparse(ret), 80)}` returns a Literal", "see above: Literal inside Literal")
        ck.add(f"{f2.name}: result used as the atom of a Literal", True, f2, f2.node, f"wrapped at {len(users)} site(s)", "", nontrivial=False)
    ck.need(n >= 25, f"Literal constructions found ({n})")


def r_head_binders(ck: Checker) -> None:
    """TABLE collect_binding_information_head: per head kind, what the body has to bind"""
    func = ck.func("utils.ast:collect_binding_information_head")
    head = func.params()[0]
    rets = [r for r in returns_of(func) if isinstance(r.value, ast.Tuple) and len(r.value.elts) == 2]
    ck.need(len(rets) == 1 and all(isinstance(e, ast.Name) for e in rets[0].value.elts), "returns (need_bound, no_bound_needed)")  # type: ignore[union-attr]
    need, free = (e.id for e in rets[0].value.elts)  # type: ignore[union-attr]
    conds = resolved_calls(ck.prg, func, "ngo.utils.ast:_collect_binding_information_conditions")
    ck.need(len(conds) >= 3, "element conditions are analysed for every head kind with elements")
    for kind, cond_field, lit_src in (("HeadAggregate", "condition.condition", "condition.literal"), ("Aggregate", "condition", "literal"), ("Disjunction", "condition", "literal")):
        it = ck.interp(func, Pins.of(vals={f"{head}.ast_type": f"ASTType.{kind}"}))
        mine = [c for c in conds if it.reachable(c)]
        ck.need(len(mine) == 1, f"{kind}: one analysis of the element condition")
        call = mine[0]
        asg = enclosing_stmt(func, call)
        ok_shape = isinstance(asg, ast.Assign) and isinstance(asg.targets[0], ast.Tuple) and len(asg.targets[0].elts) == 2 and all(isinstance(e, ast.Name) for e in asg.targets[0].elts)
        ck.need(ok_shape, f"{kind}: (bound, unbound) of the element condition")
        b, u = (e.id for e in asg.targets[0].elts)  # type: ignore[union-attr]
        elem = unparse(call.args[0]).removesuffix("." + cond_field)
        ck.add(f"{kind}: the element's own condition is analysed, with the body's bindings as context", unparse(call.args[0]) == f"{elem}.{cond_field}" and unparse(call.args[1]) == "bound_in_body", func, call, f"`{fmt(call)}`", "")
        ups_need = [c for c in attr_calls(func, "update") if unparse(c.func.value) == need and it.reachable(c) and enclosing_loop(func, c) is enclosing_loop(func, call)]  # type: ignore[attr-defined]
        ups_free = [c for c in attr_calls(func, "update") if unparse(c.func.value) == free and it.reachable(c) and enclosing_loop(func, c) is enclosing_loop(func, call)]  # type: ignore[attr-defined]
        args_need = {unparse(c.args[0]).replace(" ", "") for c in ups_need}
        ck.add(f"{kind}: variables the condition leaves unbound must be bound by the body", u in args_need, func, call, f"need_bound receives {sorted(args_need)}",
               "`a(X) : dom(X), X < Y` needs Y from the body: if it is not reported, math drops the body equation that defines Y and the rule becomes unsafe")
        lit_ok = any(re.fullmatch(rf"(\w+)-{b}", a) for a in args_need) or (f"term_vars" in args_need and any(unparse(n).replace(" ", "") == f"term_vars-={b}" for n in find_nodes(func.node, lambda n: isinstance(n, ast.AugAssign))))
        ck.add(f"{kind}: variables of the element's atom (and tuple) not bound by its condition must be bound by the body", lit_ok, func, call, f"need_bound receives {sorted(args_need)}", "")
        ck.add(f"{kind}: variables the condition binds need no binding from the body", {unparse(c.args[0]) for c in ups_free} == {b}, func, call, f"no_bound_needed receives {sorted(unparse(c.args[0]) for c in ups_free)}", "")


def r_global_vars(ck: Checker) -> None:
    """global variables of a body / head = everything the binding analysis reports, bound or not"""
    for name, callee, arg2 in (("global_vars_inside_body", "collect_binding_information_body", None), ("global_vars_inside_head", "collect_binding_information_head", "[]"), ("collect_bound_variables", "collect_binding_information_body", None)):
        func = ck.func(f"utils.ast:{name}")
        p = func.params()[0]
        rets = [r for r in returns_of(func) if r.value is not None]
        ck.need(len(rets) == 1, f"{name} is a one-liner over the binding analysis")
        call = f"{callee}({p})" if arg2 is None else f"{callee}({p}, {arg2})"
        txts = ck.interp(func).texts(rets[0], rets[0].value)
        ck.need(len(txts) == 1, f"{name} returns one expression")
        txt = next(iter(txts))
        if name == "collect_bound_variables":
            ck.add(f"{name} = first component (bound variables)", txt == f"{call}[0]", func, rets[0], f"`{fmt(rets[0])}`", "")
            continue
        ok = txt in (f"set.union(*{call})", f"{call}[0] | {call}[1]", f"{call}[0].union({call}[1])", f"set().union(*{call})")
        ck.add(f"{name} = both components of the binding analysis", ok, func, rets[0], f"`{fmt(rets[0])}`",
               "a variable that a head condition (or a body literal) can bind itself is still global when it also occurs outside: dropped from the set it turns local in a split-off or factored rule (`{ h(A,F,D) : s(D) } :- q(A,B,D), ...`)")


RULES = [
    Rule("C07.unique-names", P7 + P4, r_unique_names, extra={p_: ("vocabulary", "every predicate of every statement", "becomes part of the vocabulary", "not in the known vocabulary") for p_ in ("C09", "C10", "C11", "C12", "C13", "C16", "C20")}),  # every pass that invents predicates relies on the vocabulary
    Rule("C07.FRESH.predicate", P7 + ("C12",), r_fresh_predicates),
    Rule("C07.FRESH.arity", P7 + ("C11", "C16", "C10"), r_fresh_arity),
    Rule("C07.FRESH.domain-names", P7 + ("C12", "C13", "C20"), r_domain_names),
    Rule("C07.FRESH.variable", P7 + ("C12",), r_fresh_variables),
    Rule("C07.unique-variables", P7 + P4 + ("C15",), r_unique_variables, extra={"C05": ("one generator per statement", "in exline_", "in replace_old_aggregates", "known variables", "make_unique"), "C02": ("one generator per statement",)}),
    Rule("C07.FLOW.passthrough", P7, r_passthrough),
    Rule("C04.lexical", P4, r_lexical),
    Rule("C04.TABLE.binders", P4 + ("C16", "C10", "C13", "C14"), r_binders),
    Rule("C04.literal-atoms", P4 + ("C01",), r_literal_atoms),
    Rule("C04.TABLE.head-binders", P4 + ("C14", "C16", "C11", "C01"), r_head_binders),
    Rule("C04.global-vars", P4 + ("C16", "C10", "C11", "C14", "C01"), r_global_vars),
]
