"""C12 — minmax_chains (DESIGN §4 C12) and the template-G rows of C02 that live in minmax_aggregates.py."""

from __future__ import annotations

import ast
import re

from ..core import Checker, Rule, attr_calls, callee_is, calls_in, kwarg, resolved_calls, short
from ..interp import Pins, find_nodes, unparse
from ..model import AnalysisError
from ..nform import canon_expr
from .util import effect_table, enclosing_loop, enclosing_stmt, enum_members, every_iteration_reaches, fmt, inline_displays, is_const, parent, returns_of, same, scan_parts, single_def, contributions

P = ("C12", "C01", "C06")
PG = ("C12", "C02", "C01")
CLS = "minmax_aggregates:MinMaxAggregator"


def r_process_table(ck: Checker) -> None:
    """TABLE _process_rule: (sign, function, left operator, right guard?) -> simple | chain"""
    func = ck.func(f"{CLS}._process_rule")
    base = ck.interp(func)
    simple = resolved_calls(ck.prg, func, f"ngo.{CLS}._simple_translation")
    chain = resolved_calls(ck.prg, func, f"ngo.{CLS}._chain_translation")
    ck.need(len(simple) == 1 and len(chain) == 1, "_process_rule dispatches to _simple_translation and _chain_translation")
    aggs = base.texts(simple[0], simple[0].args[1])
    ck.need(len(aggs) == 1, "the aggregate literal has one definition")
    agg = next(iter(aggs))
    ck.need(agg.endswith("._minmax_agg(rule)") or "_minmax_agg(" in agg, "aggregate literal comes from _minmax_agg")
    facts = {f"{agg} is None": False, f"{agg}.atom.left_guard is None": False, f"{agg}.atom.left_guard": True}
    for k, v in base.known(simple[0]):
        if isinstance(v, bool) and k.startswith("any(map(self._translatable_element"):
            facts[k] = v
    ops = enum_members("ComparisonOperator")
    lt = {"ComparisonOperator.LessThan", "ComparisonOperator.LessEqual"}
    gt = {"ComparisonOperator.GreaterThan", "ComparisonOperator.GreaterEqual"}
    rows = 0
    for right in (False, True):
        f2 = dict(facts)
        f2[f"{agg}.atom.right_guard"] = right
        f2[f"{agg}.atom.right_guard is None"] = not right

        def describe(it, site, st) -> str:  # type: ignore[no-untyped-def]
            return "simple" if site is simple[0] else "chain"

        table = effect_table(ck, func, {f"{agg}.sign": enum_members("Sign"), f"{agg}.atom.function": ["AggregateFunction.Max", "AggregateFunction.Min"], f"{agg}.atom.left_guard.comparison": ops},
                             [simple[0], chain[0]], describe, None, f2)
        for (sign, fun, op), eff in sorted(table.items()):
            # t < #max S  <=>  some s in S with t < s ;  t > #min S  <=>  some s with t > s ; negation: dual extreme
            easy = not right and (
                (sign == "Sign.NoSign" and ((fun.endswith("Max") and op in lt) or (fun.endswith("Min") and op in gt)))
                or (sign == "Sign.Negation" and ((fun.endswith("Min") and op in lt) or (fun.endswith("Max") and op in gt)))
            )
            want = frozenset({"simple"}) if easy else frozenset({"chain"})
            rows += 1
            ck.add(f"({sign.split('.')[1]}, {fun.split('.')[1]}, {op.split('.')[1]}, right guard={right})", eff == want, func, simple[0] if easy else chain[0],
                   f"dispatches to {sorted(eff)}, sound: {sorted(want)}",
                   "the one-rule-per-element translation is only equivalent for a single bound in the aggregate's own direction (t < #max S iff some element exceeds t); with a second guard it silently drops that guard, in the other direction an existential is wrong")
    ck.notes["C12.table.rows"] = rows
    # nothing happens without a min/max aggregate / translatable element
    for ret in returns_of(func):
        pass


def r_minmax_agg(ck: Checker) -> None:
    func = ck.func(f"{CLS}._minmax_agg")
    it = ck.interp(func)
    for ret in returns_of(func):
        if ret.value is None or is_const(ret.value, None):
            continue
        b = unparse(ret.value)
        for cond in (f"{b}.ast_type == ASTType.Literal", f"{b}.atom.ast_type == ASTType.BodyAggregate", f"{b}.atom.function in (AggregateFunction.Max, AggregateFunction.Min)"):
            ck.guard(f"candidate: {cond.split(' ')[0].split('.')[-1]}", func, ret, cond, "only #min/#max body aggregates are translated")
        org = {st.origin.get(b, "") for st in it.states(ret)}
        rule_p = [x for x in func.params() if x not in ("self", "cls")][0]
        ck.add("candidate is a body literal of the rule", org == {f"{rule_p}.body[*]"}, func, ret, f"`{b}` iterates {sorted(org)}", "", nontrivial=False)


def r_simple(ck: Checker) -> None:
    """_simple_translation: one rule per element with the comparison `left_term op weight` under the aggregate's sign"""
    func = ck.func(f"{CLS}._simple_translation")
    it = ck.interp(func)
    rule, agg = func.params()[1], func.params()[2]
    lits = resolved_calls(ck.prg, func, "clingo.ast.Literal")
    ck.need(len(lits) == 1 and len(lits[0].args) == 3, "_simple_translation builds one Literal(LOC, sign, Comparison(...))")
    lit = lits[0]
    st = it.states(lit)[0]
    sign = unparse(it.expand(lit.args[1], st))
    comp = unparse(it.expand(lit.args[2], st)).replace(" ", "")
    ck.add("new comparison carries the aggregate's sign", sign == f"{agg}.sign", func, lit, f"sign `{sign}`", "`not t < #min S` becomes `not t < s` per element")
    m = re.fullmatch(r"Comparison\(" + re.escape(agg) + r"\.atom\.left_guard\.term,\[Guard\(" + re.escape(agg) + r"\.atom\.left_guard\.comparison,(.+)\.terms\[0\]\)\]\)", comp)
    ck.add("comparison is `bound op element weight`", m is not None, func, lit, f"`{comp}`", "the guard term stays on the left, the element's first term takes the place of the aggregate")
    # element-local variables are renamed per element
    mk = resolved_calls(ck.prg, func, "ngo.utils.globals:UniqueVariables.make_unique")
    ck.add("element-local variables are renamed fresh", len(mk) >= 1, func, func.node, f"make_unique calls: {len(mk)}", "A5: variables local to an element must not capture variables of the rule when they become global")
    uvs = [c for c in resolved_calls(ck.prg, func, "ngo.utils.globals:UniqueVariables")]
    ck.add("fresh names avoid every variable of the rule", len(uvs) == 1 and len(uvs[0].args) == 1 and unparse(uvs[0].args[0]) == rule, func, uvs[0] if uvs else func.node,
           f"UniqueVariables({unparse(uvs[0].args[0]) if uvs and uvs[0].args else '?'})", "renaming apart from the aggregate only lets a renamed local (X0) capture a global variable X0 of the rule")
    lv = single_def(func, "lvars")
    ok = lv is not None and unparse(lv).replace(" ", "") == "set(collect_ast(elem,'Variable'))-gvars"
    ck.add("renamed = variables of the element that are not global in the body", ok, func, func.node, f"lvars = `{unparse(lv) if lv is not None else None}`", "")
    gv = single_def(func, "gvars")
    ck.add("global variables computed over the rule body", gv is not None and unparse(gv) == f"global_vars_inside_body({rule}.body)", func, func.node, f"gvars = `{unparse(gv) if gv is not None else None}`", "")
    # the aggregate literal is removed, every element yields a rule
    rem = [c for c in attr_calls(func, "remove") if unparse(c.args[0]) == agg]
    ck.add("the aggregate literal is removed from the body", len(rem) == 1, func, func.node, f"body.remove({agg}): {len(rem)}", "")
    apps = [c for c in attr_calls(func, "append") if unparse(c.func.value) == "ret"]  # type: ignore[attr-defined]
    ck.need(len(apps) == 1, "one rule per element is appended")
    loop = enclosing_loop(func, apps[0])
    ok2, n = every_iteration_reaches(ck, func, loop, apps[0], None)  # type: ignore[arg-type]
    ck.add("every element yields a rule", ok2 and n > 0 and loop is not None and unparse(loop.iter) == f"{agg}.atom.elements", func, apps[0], f"loop over `{unparse(loop.iter) if loop is not None else None}`, unconditional append: {ok2}", "the aggregate is an existential over all its elements")


def r_chain_guards(ck: Checker) -> None:
    func = ck.func(f"{CLS}._chain_translation")
    it = ck.interp(func)
    rule, agg = func.params()[1], func.params()[2]
    repl = resolved_calls(ck.prg, func, f"ngo.{CLS}._create_aggregate_replacement")
    ck.need(len(repl) == 1, "_chain_translation creates the replacement rules at one site")
    site = repl[0]
    ck.guard("single element only", func, site, f"not len({agg}.atom.elements) > 1", "several elements would need one chain over the union of their domains (#9)")
    np_ = unparse(site.args[3])
    ck.guard("a static domain exists for the aggregate's values", func, site, f"self.domain_predicates.has_domain({np_})", "the chain is built over the successor relation of the domain; without a domain create_domain raises / the chain is empty")
    # domain rule = element condition + body literals that share variables with the aggregate
    adr = resolved_calls(ck.prg, func, "ngo.dependency:DomainPredicates.add_domain_rule")
    ck.need(len(adr) == 1, "domain rule registered once")
    arg = unparse(it.expand(adr[0].args[1], it.states(adr[0])[0])).replace(" ", "")
    ok = arg == "[(SymbolicAtom(Function(LOC,new_name,[elem.terms[0]],False)),list(chain(elem.condition,lits_with_vars)))]".replace("elem", f"{agg}.atom.elements[0]").replace("new_name", "new_name") or (
        "chain(" in arg and ".condition,lits_with_vars" in arg and ".terms[0]" in arg
    )
    ck.add("domain = weight under (element condition + connected body literals)", ok, func, adr[0], f"`{short(arg, 160)}`", "C20: the domain must cover every value the aggregate can take")
    # the rewritten statement refers to the result predicate: the rules defining it (for THIS statement's group literals)
    # are built on every path that rewrites, and returned with it
    ro = resolved_calls(ck.prg, func, f"ngo.{CLS}.replace_orig")
    ck.need(len(ro) >= 1, "_chain_translation rewrites the statement with replace_orig")
    itm = ck.interp(func, None, mark_stmts={id(enclosing_stmt(func, site)): "defined", id(enclosing_stmt(func, adr[0])): "domain"})
    for r_ in ro:
        sts = itm.states(r_)
        okm = bool(sts) and all({"defined", "domain"} <= set(s.marks) for s in sts)
        rstm = enclosing_stmt(func, r_)
        carried = False
        if isinstance(rstm, ast.Return) and isinstance(rstm.value, ast.BinOp) and isinstance(rstm.value.op, ast.Add):
            left = itm.texts(rstm, rstm.value.left)
            carried = bool(left) and all(t.startswith("self._create_aggregate_replacement(") for t in left)
        ck.add("the statement is rewritten only together with the chain rules built for it", okm and carried, func, r_, f"domain rule and replacement rules built on every path to `{short(unparse(rstm), 70)}`: {okm}; returned in front of the rewritten statement: {carried}",
               "the result predicate's rules depend on the body literals that bind the group variables: a chain built for another rule (or none) gives the aggregate's value for the wrong groups")
    # one chain per translated statement: the name that keys domain, chain and result predicate is built from the
    # statement's own position (known finding A-11: two statements on one line still collide; the aggregate's position is
    # strictly worse, a wrapped rule ends where the next one starts)
    nn = single_def(func, "new_name")
    parts_ = [unparse(v.value) for v in nn.values if isinstance(v, ast.FormattedValue)] if isinstance(nn, ast.JoinedStr) else []
    pos = [x for x in parts_ if "location" in x]
    ck.add("the result predicate is named after the position of the statement it is built for", bool(pos) and all(re.fullmatch(rf"(str\()?{rule}\.location\.begin\.line\)?", x) for x in pos), func, func.node,
           f"name components {parts_}", "rules defining `__max_0_<n>` are registered once per name: two statements that get the same name share one domain and one chain, and their maxima merge")
    same = unparse(it.expand(site.args[4], it.states(site)[0]))
    ck.add("replacement uses the same connected literals", same == "lits_with_vars", func, site, f"lits_with_vars argument `{same}`", "")
    # split of the body: a literal stays with the aggregate iff it shares a variable with it
    apps = {unparse(c.func.value): c for c in attr_calls(func, "append") if unparse(c.func.value) in ("lits_with_vars", "lits_without_vars")}  # type: ignore[attr-defined]
    ck.need(len(apps) == 2, "body literals are split in two lists")
    c_with = apps["lits_with_vars"]
    facts = [k for k, v in it.known(c_with) if v is False and k.replace(" ", "").startswith("0==len(") and "intersection(inside_variables)" in k]
    facts += [k for k, v in it.known(c_with) if v is True and "intersection(inside_variables)" in k and "!=" in k]
    ok = it.holds(c_with, "len(blit_vars.intersection(inside_variables)) != 0")
    ck.add("a literal joins the chain rules only if it shares a variable with the aggregate", ok, func, c_with, f"dominated by `len(blit_vars.intersection(inside_variables)) != 0`: {ok}", "")
    for c in apps.values():
        ck.guard("the aggregate literal itself is not copied", func, c, f"blit != {agg}", "")


def r_replacement_table(ck: Checker) -> None:
    """TABLE _create_aggregate_replacement: function -> (border, extreme predicate, chain direction)"""
    func = ck.func(f"{CLS}._create_aggregate_replacement")
    agg = func.params()[1]
    rules = resolved_calls(ck.prg, func, "clingo.ast.Rule")
    ck.need(len(rules) == 4, "_create_aggregate_replacement emits 4 rules (chain seed, chain step, result, border)")
    for fun, border, ext, maximum in (("Max", "Infimum", "min_anon_predicate", True), ("Min", "Supremum", "max_anon_predicate", False)):
        it = ck.interp(func, Pins.of(vals={f"{agg}.atom.function": f"AggregateFunction.{fun}"}))
        # border rule: head contains SymbolicTerm(LOC, <border>)
        found = None
        for r in rules:
            for st in it.states(r):
                head = unparse(it.expand(r.args[1], st))
                if "SymbolicTerm(LOC," in head:
                    found = (r, st, head)
        ck.need(found is not None, "border rule present")
        r, st, head = found  # type: ignore[misc]
        ck.add(f"#{fun.lower()} of nothing is {'#inf' if fun == 'Max' else '#sup'}", f"SymbolicTerm(LOC, {border})" in head, func, r, f"border head `{short(head, 140)}`",
               "#max{} = #inf and #min{} = #sup")
        mm = single_def(func, "minmax_pred")
        uses = [n for n in find_nodes(func.node, lambda n: isinstance(n, ast.Attribute) and n.attr == "name" and isinstance(n.value, ast.Name) and n.value.id == "minmax_pred")]
        ck.need(len(uses) >= 1, "extreme predicate is used in the border rule")
        txt = {it.text(uses[0].value, s) for s in it.states(uses[0])}  # type: ignore[attr-defined]
        ck.add(f"#{fun.lower()}: border rule looks at the {'least' if fun == 'Max' else 'greatest'} domain element", all(f".{ext}(" in t for t in txt) and bool(txt), func, uses[0],
               f"extreme predicate `{sorted(txt)}`", "if even the least element is not reached by the #max chain, no element holds")
        # chain direction flag
        cps = resolved_calls(ck.prg, func, "ngo.dependency:DomainPredicates.chain_pred")
        ck.need(len(cps) == 1, "chain predicate obtained once")
        flag = {it.text(cps[0].args[2], s) for s in it.states(cps[0])}
        val = {str(t) for s in it.states(cps[0]) for t in it._truth3(cps[0].args[2], s)}  # pylint: disable=protected-access
        ck.add(f"#{fun.lower()}: chain direction flag", val == {str(maximum)}, func, cps[0], f"chain_pred(..., maximum={sorted(flag)}) evaluates to {sorted(val)}", "max chains propagate downwards, min chains upwards")
        # step rule: head chain(rest, prev_agg) :- chain(rest, next_agg), next(PREV, NEXT)
        step = rules[1]
        for s in it.states(step)[:1]:
            h = unparse(it.expand(step.args[1], s)).replace(" ", "")
            body = unparse(it.expand(inline_displays(func, step.args[2]), s)).replace(" ", "")
            want_h = "rest_vars+[PREV]" if fun == "Max" else "rest_vars+[NEXT]"
            ck.add(f"#{fun.lower()}: chain step direction", want_h in h, func, step, f"step head `{short(h, 120)}`",
                   "chain(V) means 'some element >= V' for #max (<= V for #min): it propagates to the predecessor (successor)")
    # A-08: the border rule must not need the domain's extreme atom positively
    it = ck.interp(func)
    border_rule = rules[3]
    stb = it.states(border_rule)[0]
    body_name = unparse(border_rule.args[2])
    first = None
    for c in attr_calls(func, "append"):
        if unparse(c.func.value) == body_name and c.lineno > rules[2].lineno:  # type: ignore[attr-defined]
            first = c
            break
    ck.need(first is not None, "border rule body is built by appends")
    txt = unparse(it.expand(first.args[0], it.states(first)[0])).replace(" ", "")  # type: ignore[union-attr]
    positive_extreme = txt.startswith("Literal(LOC,Sign.NoSign,SymbolicAtom(Function(LOC,") and "_anon_predicate(" in txt
    # the connected body literals (all of them: comparisons and aggregates too) guard the chain seed and the border rule
    lwv = func.params()[5]
    seed_body = unparse(it.expand(rules[0].args[2], it.states(rules[0])[0])).replace(" ", "")
    ck.add("chain seed: element condition + every connected body literal", bool(re.fullmatch(r"list\(chain\(\w+\.condition," + re.escape(lwv) + r"\)\)", seed_body)), func, rules[0], f"seed body `{short(seed_body, 120)}`",
           "the chain holds the values of the groups the rule body admits")
    exts = [c for c in attr_calls(func, "extend") if unparse(c.func.value) == body_name and c.lineno > rules[2].lineno]  # type: ignore[attr-defined]
    got = [it.texts(c, c.args[0]) for c in exts]
    ck.add("border rule: every connected body literal is kept", len(exts) == 1 and got[0] == {lwv}, func, exts[0] if exts else border_rule, f"border body is extended by {[sorted(g) for g in got]}; expected `{lwv}`",
           "comparisons and aggregates that share variables with the aggregate were moved out of the rewritten rule: the #inf/#sup rule is their only guard in the empty case (`person(P), P != guest` would give guest a result)")
    ck.add("border rule fires on an empty candidate domain", not positive_extreme, func, first, f"first body literal of the border rule: `{short(txt, 150)}`",  # type: ignore[arg-type]
           "with no candidate element the domain is empty, its min/max atom does not exist and `result(P,#inf)` is never derived although #max{} = #inf", rule="C12.TEMPLATE.empty-domain")


def r_char_vars(ck: Checker) -> None:
    """_characteristic_variables: only variables that identify a tuple (not those inside arithmetic)"""
    func = ck.prg.func("minmax_aggregates:_characteristic_variables")
    term = func.params()[0]
    ys = [n for n in find_nodes(func.node, lambda n: isinstance(n, ast.YieldFrom))]
    ck.need(len(ys) >= 1, "_characteristic_variables yields per term kind")
    kinds = ["Variable", "SymbolicTerm", "Function", "BinaryOperation", "UnaryOperation", "Interval", "Pool"]
    for kind in kinds:
        it = ck.interp(func, Pins.of(vals={f"{term}.ast_type": f"ASTType.{kind}"}))
        eff = set()
        for y in ys:
            for st in it.states(y):
                eff.add(unparse(it.expand(y.value, st)).replace(" ", ""))  # type: ignore[attr-defined]
        if kind in ("Variable", "SymbolicTerm"):
            want = {f"collect_ast({term},'Variable')"}
        elif kind == "Function":
            want = {"_characteristic_variables(i)"}
            org_ok = all(st.origin.get("i", "") == f"{term}.arguments[*]" for y in ys for st in it.states(y) if "_characteristic" in unparse(y.value))  # type: ignore[attr-defined]
            eff = {re.sub(r"_characteristic_variables\(\w+\)", "_characteristic_variables(i)", e) for e in eff}
            ck.add("Function: recursion over the arguments", org_ok, func, func.node, "recursive call iterates term.arguments", "")
        else:
            want = set()
        ck.add(f"{kind}", eff == want, func, func.node, f"yields {sorted(eff)}; expected {sorted(want)}",
               "a variable under arithmetic (f(W/2)) does not separate tuples: two groups can share the term, so the chain weights of different groups collapse into one tuple")


def _g_rows(ck: Checker, name: str, which: str) -> None:
    func = ck.func(f"{CLS}.{name}")
    it = ck.interp(func)
    repl = resolved_calls(ck.prg, func, f"ngo.{CLS}._create_replacement")
    ck.need(len(repl) == 1, f"{name} builds the replacement at one site")
    site = repl[0]
    st = it.states(site)[0]
    if which == "minimize":
        stm = func.params()[1]
        weight = f"{stm}.weight"
    else:
        elem = func.params()[1]
        weight = f"{elem}.terms[0]"
    # G1
    g1 = f"{weight}.ast_type == ASTType.Variable or ({weight}.ast_type == ASTType.UnaryOperation and {weight}.operator_type == UnaryOperator.Minus and {weight}.argument.ast_type == ASTType.Variable)"
    ck.guard(f"{which}: G1 weight is V or -V", func, site, g1, "only a plain (negated) variable can be telescoped into chain differences")
    # sign table: minimize flag
    for shape, pins, want in (("V", {f"{weight}.ast_type": "ASTType.Variable"}, "True"), ("-V", {f"{weight}.ast_type": "ASTType.UnaryOperation", f"{weight}.operator_type": "UnaryOperator.Minus", f"{weight}.argument.ast_type": "ASTType.Variable"}, "False")):
        itp = ck.interp(func, Pins.of(vals=pins))
        flags = {itp.text(site.args[1], s) for s in itp.states(site)}
        names = {itp.text(ast.Name("varname", ast.Load()), s) for s in itp.states(site)}
        wantname = f"{weight}.name" if shape == "V" else f"{weight}.argument.name"
        ck.add(f"{which}: weight {shape} -> sign flag {want}", flags == {want}, func, site, f"minimize flag {sorted(flags)}", "TABLE: the replacement weight is negated iff the original weight was -V")
        ck.add(f"{which}: weight {shape} -> variable name", names == {wantname}, func, site, f"varname {sorted(names)}", "")
    # G2: the weight variable is the result argument of the min/max literal
    old = unparse(site.args[3])
    mm = unparse(site.args[0])
    g2 = f"{old}.atom.symbol.arguments[{mm}[2]] == Variable(LOC, varname)"
    ok = it.holds(site, g2)
    ck.add(f"{which}: G2 the weight is the min/max result argument", ok, func, site, f"replacement dominated by `{g2}`: {ok}",
           "a weight variable bound by ANOTHER literal (cost(V,W)) is unrelated to the chain: replacing it by next-prev differences of the result changes the cost", rule=f"C12.G.{which}")
    # G5
    g5 = [k for k, v in it.known(site) if v is True and k.replace(" ", "") == "old_vars<=term_vars"]
    ck.add(f"{which}: G5 all variables of the result literal occur in the tuple", bool(g5) or it.holds(site, "old_vars <= term_vars"), func, site, "dominated by `old_vars <= term_vars`",
           "otherwise tuples of different groups coincide and chain weights are counted once (#8)")
    ov = single_def(func, "old_vars")
    tv = single_def(func, "term_vars")
    ck.add(f"{which}: G5 compares the right sets", ov is not None and tv is not None and f"collect_ast({old}, 'Variable')" in unparse(ov) and "{varname}" in unparse(ov).replace(" ", "") and "_characteristic_variables" in unparse(tv),
           func, site, f"old_vars=`{unparse(ov) if ov is not None else None}` term_vars=`{short(unparse(tv)) if tv is not None else None}`", "")
    if which == "minimize":
        ck.add("minimize: G5 identifying terms exclude weight and priority", tv is not None and "term_tuple[2:]" in unparse(tv), func, site, f"`{short(unparse(tv)) if tv is not None else None}`", "weight and priority are not part of the tuple identity")
        # G4: no other objective may unify
        mmp = [n for n in find_nodes(func.node, lambda n: isinstance(n, ast.Assign)) if unparse(n.targets[0]) == "minmaxpred" and isinstance(n.value, ast.Tuple)]  # type: ignore[attr-defined]
        ck.need(len(mmp) == 1, "minmaxpred chosen at one site")
        ck.guard("minimize: G4 no other objective tuple may unify", func, mmp[0], "not unsafe", "two weak constraints with the same tuple count once; the chain tuples must stay distinct from every other objective")
        contrib = contributions(func, "unsafe")
        ck.need(len(contrib) == 1, "unsafe objectives collected at one site")
        usite, comp_full = contrib[0]
        parts = scan_parts(comp_full)
        ck.need(parts is not None and len(parts["gens"]) == 2 and "," in parts["gens"][0]["target"], "unsafe objectives: scan over (tuple, objectives) entries and their objectives")  # type: ignore[index,arg-type]
        g0, g1 = parts["gens"]  # type: ignore[index,misc]
        terms, objs = [t.strip() for t in g0["target"].strip("()").split(",")]
        ck.add("minimize: every objective of the program is compared", g0["iter"] == "minimizes.items()", func, usite, f"scan over `{g0['iter']}`", "")
        ck.add("minimize: unsafe = objectives whose tuple may unify", [canon_expr(x) for x in g0["ifs"]] == [canon_expr(f"potentially_unifying_sequence({terms}, term_tuple)")], func, usite, f"entry filter {g0['ifs']}",
               "every entry whose tuple may unify must be looked at, and only those")
        ck.add("minimize: only the statement itself is exempt from the uniqueness test", g1["iter"] == objs and parts["elt"] == g1["target"] and [canon_expr(x) for x in g1["ifs"]] == [canon_expr(f"{g1['target']} != {stm}")], func, usite,  # type: ignore[index]
               f"collected: `{comp_full}`", "another objective with the syntactically identical tuple sits under the same key: skipping the whole entry lets a duplicate tuple be counted twice after the rewrite")
        ck.add("minimize: every potentially unifying objective is collected", enclosing_loop(func, usite) is None or unparse(enclosing_loop(func, usite).iter) != g0["iter"], func, usite, "the scan is one unconditional pass over the entries", "", nontrivial=False)  # type: ignore[union-attr]
        tt = single_def(func, "term_tuple")
        ck.add("minimize: compared tuple = (weight, priority, *terms)", tt is not None and unparse(tt).replace(" ", "").replace(",)", ")") == f"({stm}.weight,{stm}.priority,*{stm}.terms)", func, site, f"term_tuple=`{unparse(tt) if tt is not None else None}`", "")
    else:
        split = ck.func(f"{CLS}._split_element")
        its = ck.interp(split)
        mmp = [n for n in find_nodes(split.node, lambda n: isinstance(n, ast.Assign)) if unparse(n.targets[0]) == "minmaxpred" and isinstance(n.value, ast.Tuple)]  # type: ignore[attr-defined]
        ck.need(len(mmp) == 1, "minmaxpred chosen at one site in _split_element")
        k = [key for key, v in its.known(mmp[0]) if v is False and key.startswith(canon_expr("any(map(lambda x: potentially_unifying_sequence(x.terms, elem.terms), rest_elems))"))]
        ck.add("sum element: G4 no sibling element may unify", bool(k), split, mmp[0], f"dominating fact: {k}", "inside one aggregate tuples are a set: a sibling tuple that unifies would merge with a chain tuple")
        call = resolved_calls(ck.prg, ck.func(f"{CLS}._replace_results_in_sum_agg"), f"ngo.{CLS}._replace_results_in_sum_agg_elem")
        ck.need(len(call) == 1, "_replace_results_in_sum_agg calls the element replacement")
        sib = unparse(call[0].args[1]).replace(" ", "")
        sib_full = unparse(call[0].args[1])
        ck.add("sum element: siblings = all other elements", same(sib_full, "[x for x in atom.elements if x != elem]"), ck.func(f"{CLS}._replace_results_in_sum_agg"), call[0], f"rest_elems=`{sib}`", "")
    # the replaced literal is the positive min/max literal of that predicate
    o = [n for n in find_nodes((ck.func(f"{CLS}._split_element") if which != "minimize" else func).node, lambda n: isinstance(n, ast.Assign)) if unparse(n.targets[0]) in ("oldmax",) and not is_const(n.value, None)]  # type: ignore[attr-defined]
    ck.need(len(o) == 1, "old min/max literal selected at one site")


def r_g_minimize(ck: Checker) -> None:
    _g_rows(ck, "_replace_results_in_minimize", "minimize")


def r_g_sum(ck: Checker) -> None:
    _g_rows(ck, "_replace_results_in_sum_agg_elem", "sum-element")
    # the element rewrite telescopes a weight into differences: that is a sum identity, so only #sum/#sum+ aggregates
    # may be handed to it (a #count/#min/#max over the same elements changes its value with the number of tuples)
    n = 0
    for fn in ck.prg.funcs.values():
        if not fn.qualname.startswith(f"ngo.{CLS}."):
            continue
        for call in resolved_calls(ck.prg, fn, f"ngo.{CLS}._replace_results_in_sum_agg"):
            n += 1
            a = unparse(call.args[0])
            ck.guard("sum element: only #sum/#sum+ aggregates are rewritten", fn, call, f"{a}.atom.function in (AggregateFunction.Sum, AggregateFunction.SumPlus)",
                     "replacing one tuple by several chain tuples keeps a SUM (the differences add up to the result) but changes #count, #min and #max of the same elements")
            ck.guard("sum element: the rewritten literal is a body aggregate", fn, call, f"{a}.atom.ast_type == ASTType.BodyAggregate", "")
    ck.need(n >= 1, "_replace_results_in_sum_agg has a caller")


def r_create_replacement(ck: Checker) -> None:
    """_create_replacement: sign by flag, orientation by aggregate type, base tuple for the extreme element"""
    func = ck.func(f"{CLS}._create_replacement")
    minimize = func.params()[2]
    for flag, neg in ((True, False), (False, True)):
        it = ck.interp(func, Pins.of(facts={minimize: flag}))
        defs = [f for q, f in ck.prg.funcs.items() if q.startswith(func.qualname + ".<locals>.negate_if")]
        reach = [d for d in defs if it.reachable(d.node)]
        ck.need(len(reach) == 1, "one negate_if definition per flag value")
        rets = [r for r in find_nodes(reach[0].node, lambda n: isinstance(n, ast.Return))]
        txt = unparse(rets[0].value).replace(" ", "") if rets else "?"  # type: ignore[attr-defined]
        ok = (txt == "UnaryOperation(LOC,UnaryOperator.Minus,x)") if neg else (txt == "x")
        ck.add(f"flag {flag}: weight {'negated' if neg else 'kept'}", ok, func, reach[0].node, f"negate_if returns `{txt}`", "#maximize / -V weights must stay negative after telescoping")
    for fun, prev, nxt, inf, ext in (("Max", "PREV", "NEXT", "Supremum", "min_anon_predicate"), ("Min", "NEXT", "PREV", "Infimum", "max_anon_predicate")):
        pins = Pins.of(vals={f"{func.params()[1]}[0]": f"AggregateFunction.{fun}"})
        it = ck.interp(func, pins)
        w = resolved_calls(ck.prg, func, "clingo.ast.BinaryOperation")
        ck.need(len(w) == 1, "difference weight built once")
        txt = {unparse(it.expand(w[0], s)).replace(" ", "") for s in it.states(w[0])}
        ck.add(f"#{fun.lower()}: difference is {nxt}-{prev}", txt == {f"BinaryOperation(LOC,BinaryOperator.Minus,{nxt},{prev})"}, func, w[0], f"`{sorted(txt)}`", "differences must be positive steps towards the extreme so that they add up to the result")
        mm = [c for c in resolved_calls(ck.prg, func, f"ngo.dependency:DomainPredicates.{ext}") if it.reachable(c)]
        other = [c for c in resolved_calls(ck.prg, func, "ngo.dependency:DomainPredicates." + ("max_anon_predicate" if ext.startswith("min") else "min_anon_predicate")) if it.reachable(c)]
        ck.add(f"#{fun.lower()}: base tuple anchored at the {'least' if fun == 'Max' else 'greatest'} element", len(mm) == 1 and not other, func, func.node, f"{ext} reachable: {len(mm)}, other extreme: {len(other)}",
               "the telescoping sum starts at the domain's first element")


def r_oldmax(ck: Checker) -> None:
    """the literal that is replaced by chain atoms is a POSITIVE occurrence of the result predicate"""
    for fname in ("_replace_results_in_minimize", "_split_element"):
        func = ck.func(f"{CLS}.{fname}")
        it = ck.interp(func)
        picks = [n for n in find_nodes(func.node, lambda n: isinstance(n, ast.Assign)) if len(n.targets) == 1 and isinstance(n.targets[0], ast.Name) and n.targets[0].id in ("oldmax", "old_max") and isinstance(n.value, ast.Name)]  # type: ignore[attr-defined]
        picks = [p for p in picks if enclosing_loop(func, p) is not None]
        ck.need(len(picks) == 1, f"{fname} picks the result literal in a loop over the body / condition")
        pick = picks[0]
        cond = pick.value.id  # type: ignore[attr-defined]
        ck.guard(f"{fname}: the picked literal is a positive atom of the result predicate", func, pick, f"list(map(lambda x: x.pred, predicates({cond}, {{Sign.NoSign}}))) == [minmaxpred[1].oldpred]",
                 "`not not mx(P,X)` is a test, not a binder: replacing it by chain atoms makes the statement pay the maximum unconditionally")


def r_store_head(ck: Checker) -> None:
    """the head predicate of a translated min/max rule is remembered as 'the result predicate' only if nothing else defines it"""
    func = ck.func(f"{CLS}._store_aggregate_head")
    head = func.params()[2]
    apps = [c for c in attr_calls(func, "append") if unparse(c.func.value) == "self._minmax_preds"]  # type: ignore[attr-defined]
    ck.need(len(apps) == 1, "_store_aggregate_head registers the result predicate at one site")
    site = apps[0]
    sym = f"{head}.atom.symbol"
    ck.guard("the head is a plain predicate", func, site, f"is_predicate({head})", "")
    loops = [lp for lp in find_nodes(func.node, lambda n: isinstance(n, ast.For)) if re.fullmatch(rf"({re.escape(sym)}|symbol)\.arguments", unparse(lp.iter)) and isinstance(lp.target, ast.Name) and lp.lineno < site.lineno]
    plain = False
    for lp in loops:
        bad_kinds = ("Function", "BinaryOperation", "UnaryOperation", "Interval", "Pool")
        plain = plain or all(not ck.interp(func, Pins.of(vals={f"{lp.target.id}.ast_type": f"ASTType.{k}"})).reachable(site) for k in bad_kinds)  # type: ignore[union-attr]
    ck.add("every head argument is a variable or a constant", plain, func, site, f"registration unreachable when a head argument is a function term / arithmetic term / interval / pool: {plain}",
           "the translation map has no slot for such an argument: a later use of the predicate in an objective hits `assert isinstance(arg, AST)` and optimize aborts (C03)")
    rv = func.params()[3]
    mv = func.params()[4]
    md = single_def(func, "mapping")
    want_m = f"[({rv} + [{mv}]).index(arg) if arg in {rv} + [{mv}] else None for arg in {sym}.arguments]"
    okm = md is not None and any(same(t, want_m) for t in {unparse(md)} | set(ck.interp(func).texts(site, md)))
    ck.add("mapping[i] = position of the i-th head argument in the new predicate", okm, func, site, f"mapping = `{short(unparse(md), 150) if md is not None else None}`",
           "TranslationMap.translate_parameters puts old argument i at position mapping[i]: the inverse permutation sends the arguments of `best(P,T,D,X)` to the wrong chain positions")
    ck.guard("every argument of the new result predicate occurs in the head", func, site, f"not any(var not in {sym}.arguments for var in {rv} + [{mv}])",
             "`mx(X) :- X = #max{V : skill(P,V)}, person(P).` drops the group P: an atom mx(X) cannot be translated to __max(P,X), and a later use in an objective or a sum fails an assertion (C03)")
    ck.guard("the head predicate is derived by this rule only", func, site, f"len(self.rule_dependency.get_bodies(Predicate({sym}.name, len({sym}.arguments)))) == 1",
             "uses of the predicate in sums and objectives are replaced by the chain encoding of THIS aggregate: a fact or a second rule for the predicate contributes values the chain does not contain")


def r_objective_registry(ck: Checker) -> None:
    """the tuple-uniqueness test of the objective rewrite compares against `minimizes`: every objective that reaches the
    result list must have been registered there, whichever way it got into the list"""
    func = ck.func(f"{CLS}.execute")
    regs = [c for c in attr_calls(func, "append") if unparse(c.func.value).startswith("minimizes[")]  # type: ignore[attr-defined]
    # the registry is complete before the first objective is rewritten: whoever fills it does not hand it to the rewrite
    # from inside the filling loop
    n_fill = 0
    for f_ in ck.prg.funcs.values():
        if not f_.qualname.startswith(f"ngo.{CLS}.") or isinstance(f_.node, ast.Lambda):
            continue
        fills = [c for c in attr_calls(f_, "append") if re.match(r"minimizes\[", unparse(c.func.value))]  # type: ignore[attr-defined]
        for fill in fills:
            n_fill += 1
            lp_f = enclosing_loop(f_, fill)
            while lp_f is not None and enclosing_loop(f_, lp_f) is not None:
                lp_f = enclosing_loop(f_, lp_f)
            inside = [c for c in (find_nodes(lp_f, lambda n: isinstance(n, ast.Call)) if lp_f is not None else []) if c is not fill and any(isinstance(a, ast.Name) and a.id == "minimizes" for a in list(c.args) + [k.value for k in c.keywords])]  # type: ignore[attr-defined]
            ck.add("the objective registry is complete before it is consulted", not inside and lp_f is not None, f_, fill, f"calls that receive `minimizes` inside the loop that fills it: {[short(unparse(c), 60) for c in inside]}",
                   "the uniqueness test of `_replace_results_in_minimize` must see EVERY objective of the program: filled statement by statement while rewriting, it misses the objectives written later (`#minimize{V@1,P : max(P,V)}. #minimize{2@1,P : flagged(P)}.`) and rewrites a tuple that can coincide with one of them")
    ck.need(n_fill >= 1, "the class registers objectives in `minimizes`")
    if len(regs) != 1 and n_fill >= 1:
        return  # registration moved out of execute: decided by the obligation above
    ck.need(len(regs) == 1, "execute registers objectives in `minimizes` at one site")
    reg = regs[0]
    outs = [c for c in attr_calls(func, "append") + attr_calls(func, "extend") if unparse(c.func.value) == "ret" and enclosing_loop(func, c) is not None]  # type: ignore[attr-defined]
    ck.need(len(outs) >= 2, "execute emits statements into `ret` inside the loop over the program")
    n = 0
    for out in outs:
        if not isinstance(out.args[0], ast.Name):
            continue
        name = out.args[0].id
        lp = enclosing_loop(func, out)
        itm = ck.interp(func, Pins.of(vals={f"{name}.ast_type": "ASTType.Minimize"}), mark_stmts={id(enclosing_stmt(func, reg)): "registered"}, clear_marks_at={id(lp): "registered"})
        sts = itm.states(out)
        if not sts:
            continue
        n += 1
        same_obj = unparse(reg.args[0]) == name
        ok = same_obj and all("registered" in s.marks for s in sts)
        ck.add("every objective that is emitted has been registered for the tuple-uniqueness test", ok, func, out, f"`{fmt(out)}` for an objective: registered on every path: {ok}",
               "an objective that is passed through without registration is invisible to `_replace_results_in_minimize`: another objective with a unifying tuple is then rewritten into chain tuples although the two tuples used to count once")
    ck.need(n >= 1, "an emission site reachable for objectives")


RULES = [
    Rule("C12.objective-registry", PG, r_objective_registry),
    Rule("C12.TABLE.process-rule", P, r_process_table),
    Rule("C12.minmax-agg", P, r_minmax_agg),
    Rule("C12.simple", P + ("C07",), r_simple),
    Rule("C12.chain-guards", P + ("C20",), r_chain_guards),
    Rule("C12.TABLE.replacement", P, r_replacement_table),
    Rule("C12.char-vars", PG, r_char_vars),
    Rule("C12.G.minimize", PG, r_g_minimize, extra={"C04": ("G2 the weight is the min/max result argument",)}),
    Rule("C12.G.sum-element", PG, r_g_sum, extra={"C04": ("G2 the weight is the min/max result argument",)}),
    Rule("C12.create-replacement", PG, r_create_replacement),
    Rule("C12.store-head", PG + ("C06", "C03"), r_store_head),
    Rule("C12.oldmax", PG, r_oldmax),
]
