"""C20 — generated domain and order predicates describe the real domain (DESIGN §4 C20)."""

from __future__ import annotations

import ast
import re

from ..core import Checker, Rule, attr_calls, callee_is, calls_in, kwarg, resolved_calls, short
from ..interp import Pins, find_nodes, unparse
from .util import enclosing_loop, enclosing_stmt, every_iteration_reaches, fmt, inline_displays, is_const, parent, returns_of, same, single_def

P = ("C20", "C01", "C06")
DP = "dependency:DomainPredicates"


def r_nonstatic(ck: Checker) -> None:
    """static = not derived through choice / disjunction / aggregate heads, cycles, or anything depending on those"""
    func = ck.func(f"{DP}.__compute_nonstatic_predicates")
    it = ck.interp(func)
    adds = [c for c in attr_calls(func, "add") if unparse(c.func.value) == "self._not_static"]  # type: ignore[attr-defined]
    ck.need(len(adds) >= 3, "_not_static is filled from heads, cycles and propagation")
    for kind in ("Disjunction", "Aggregate", "HeadAggregate"):
        pins = Pins.of(vals={"stm.ast_type": "ASTType.Rule", "stm.head.ast_type": f"ASTType.{kind}"})
        itk = ck.interp(func, pins)
        hit = []
        for c in adds:
            for st in itk.states(c):
                arg = unparse(c.args[0])
                org = st.origin.get(arg.split(".")[0], "")
                if org.startswith("literal_predicate(") and "SIGNS" in org and ".literal" in org:
                    hit.append(c)
        ck.add(f"atoms in {kind} heads are not static", bool(hit), func, func.node, f"with head kind {kind}: element literal predicates (all signs) are added to _not_static: {bool(hit)}",
               "an atom that may or may not be chosen has no fixed extension: using it as its own domain makes the domain differ between answer sets")
        for c in set(map(id, hit)):
            pass
    # no index into a possibly empty collector result
    subs = [n for n in find_nodes(func.node, lambda n: isinstance(n, ast.Subscript)) if "literal_predicate(" in unparse(n.value) and isinstance(n.slice, ast.Constant)]  # type: ignore[attr-defined]
    ck.add("no fixed index into the (possibly empty) predicates of a head element", not subs, func, subs[0] if subs else func.node, f"subscripted collector results: {[unparse(s) for s in subs]}",
           "`a ; #false :- b.` has an element without predicate: IndexError aborts optimize", rule="C20.THROW.index")
    graphs = resolved_calls(ck.prg, func, "ngo.dependency:_create_graph_from_prg")
    ck.need(len(graphs) == 1, "dependency graph built once")
    ck.add("dependency graph uses literals of every sign", unparse(graphs[0].args[1]) == "SIGNS", func, graphs[0], f"signs argument `{unparse(graphs[0].args[1])}`", "negative dependencies propagate non-staticness as well")
    gname = None
    for n in find_nodes(func.node, lambda n: isinstance(n, ast.Assign)):
        if n.value is graphs[0]:  # type: ignore[attr-defined]
            gname = unparse(n.targets[0])  # type: ignore[attr-defined]
    ck.need(gname is not None, "graph bound to a local")
    # cycles
    upd = [c for c in attr_calls(func, "update") if unparse(c.func.value) == "self._not_static"]  # type: ignore[attr-defined]
    scc_ok = False
    for c in upd:
        lp = enclosing_loop(func, c)
        if lp is not None and "strongly_connected_components(" + gname in unparse(lp.iter).replace(" ", "") and unparse(c.args[0]) == unparse(lp.target):
            scc_ok = True
    ck.add("predicates on a dependency cycle are not static (and too complex)", scc_ok, func, func.node, f"strongly connected components of `{gname}` are added to _not_static: {scc_ok}", "a recursive predicate has no rule-wise over-approximation")
    self_ok = any(enclosing_loop(func, c) is not None and "selfloop_edges(" + gname in unparse(enclosing_loop(func, c).iter).replace(" ", "") for c in adds)  # type: ignore[union-attr]
    ck.add("self-recursive predicates are not static", self_ok, func, func.node, f"selfloop_edges({gname}) handled: {self_ok}", "")
    # propagation in topological order over the full graph's predecessors
    prop = [c for c in adds if enclosing_loop(func, c) is not None and unparse(c.args[0]) == unparse(enclosing_loop(func, c).target) and "selfloop" not in unparse(enclosing_loop(func, c).iter)]  # type: ignore[union-attr]
    ck.need(len(prop) == 1, "propagation loop adds the visited node")
    lp = enclosing_loop(func, prop[0])
    it_txt = unparse(lp.iter).replace(" ", "")  # type: ignore[union-attr]
    ck.add("non-staticness is propagated in topological order", bool(re.fullmatch(r"nx\.topological_sort\(\w+\)", it_txt)), func, lp, f"propagation iterates `{it_txt}`",  # type: ignore[arg-type]
           "a predicate visited before its (indirectly) choice-dependent predecessor was marked stays 'static' and is used as its own domain")
    node = unparse(lp.target)  # type: ignore[union-attr]
    want = f"any(map(lambda pre: pre in self._not_static, {gname}.predecessors({node})))"
    ck.guard("a node becomes non-static iff a predecessor in the FULL graph is", func, prop[0], want, "")
    g = ck.func("dependency:_create_graph_from_prg")
    itg = ck.interp(g)
    e = attr_calls(g, "add_edges_from")
    ck.need(len(e) == 1, "edges added at one site")
    txt = unparse(itg.expand(e[0].args[0], itg.states(e[0])[0])).replace(" ", "")
    ok = "body_predicates(stm,signs)" in txt and "headderivable_predicates(stm)" in txt and txt.startswith("product(")
    ck.add("edges: every body predicate -> every head-derivable predicate of the rule", ok, g, e[0], f"`{short(txt, 150)}`", "")


def r_accept(ck: Checker) -> None:
    """a domain rule set is accepted only if every rule of the predicate passes every test"""
    func = ck.prg.funcs.get(f"ngo.{DP}.add_domain_rules.<locals>.too_complex_rules")
    ck.need(func is not None, "add_domain_rules filters with too_complex_rules")
    assert func is not None
    it = ck.interp(func)
    loops = [n for n in find_nodes(func.node, lambda n: isinstance(n, ast.For))]
    ck.need(len(loops) >= 1, "too_complex_rules loops over the rules")
    rloop = loops[0]
    inside = [r for r in returns_of(func) if any(x is r for x in ast.walk(rloop))]
    bad = [r for r in inside if not is_const(r.value, True)]
    ck.add("no acceptance before ALL rules of the predicate were examined", not bad, func, bad[0] if bad else rloop, f"returns inside the loop over the rules: {[unparse(r) for r in inside]}",
           "checking only the first rule lets a second rule with recursion or a choice-dependent aggregate into the domain: the domain is then too small / varies between answer sets")
    rule_v = unparse(rloop.target)  # type: ignore[attr-defined]
    tests = [("unbounded_head(" + rule_v + ")", "head variables must be bound by the condition"), ]
    for key, why in tests:
        itp = ck.interp(func, Pins.of(facts={key: True}))
        back = itp.loop_back.get(id(rloop), [])
        ck.add(f"rejected when {key}", not back and itp.reachable(rloop), func, rloop, f"under `{key}` an iteration can complete without rejecting: {bool(back)}", why)
    uh = ck.prg.funcs.get(f"ngo.{DP}.add_domain_rules.<locals>.unbounded_head")
    ck.need(uh is not None, "unbounded_head exists")
    hv = single_def(uh, "head_variables")  # type: ignore[arg-type]
    hv_txt = unparse(hv) if hv is not None else ""
    augs = [n for n in find_nodes(uh.node, lambda n: isinstance(n, ast.AugAssign)) if unparse(n.target) == "head_variables"]  # type: ignore[union-attr,attr-defined]
    ok_hv = (same(hv_txt, "set(map(lambda x: x.name, collect_ast(head, 'Variable')))") or same(hv_txt, "{x.name for x in collect_ast(head, 'Variable')}")) and len(augs) == 1 and isinstance(augs[0].op, ast.Sub) \
        and (same(unparse(augs[0].value), "set(map(lambda x: x.name, collect_bound_variables(condition)))") or same(unparse(augs[0].value), "{x.name for x in collect_bound_variables(condition)}"))
    ck.add("unbounded head = some variable ANYWHERE in the head atom is not bound by the condition", ok_hv, uh, uh.node, f"head_variables = `{short(hv_txt, 90)}` minus `{short(unparse(augs[0].value), 80) if augs else None}`",  # type: ignore[arg-type,union-attr]
           "the head of a min/max domain rule is `__max_0_N(<weight>)`: a weight `V*X` whose X is bound outside the aggregate gives the unsafe rule `__dom(V*X) :- __dom_p(V)` when only plain variable arguments are looked at")
    inner = [n for n in find_nodes(rloop, lambda n: isinstance(n, ast.For)) if n is not rloop]
    ck.need(len(inner) == 1, "conditions of every rule are examined in a loop")
    cond = unparse(inner[0].target)  # type: ignore[attr-defined]
    for key, why in ((f"is_too_complex({cond})", "conditions over cyclic predicates"), (f"is_dynamic_sum({cond})", "an aggregate over non-static atoms has no static value: it must not define a domain")):
        itp = ck.interp(func, Pins.of(facts={key: True}))
        back = itp.loop_back.get(id(inner[0]), [])
        ck.add(f"rejected when {key}", not back and itp.reachable(inner[0]), func, inner[0], f"under `{key}` a condition can be passed over: {bool(back)}", why)
    ds = ck.prg.funcs.get(f"ngo.{DP}.add_domain_rules.<locals>.is_dynamic_sum")
    ck.need(ds is not None, "is_dynamic_sum exists")
    itd = ck.interp(ds)  # type: ignore[arg-type]
    trues = [r for r in returns_of(ds) if is_const(r.value, True)]  # type: ignore[arg-type]
    ck.need(len(trues) == 1, "is_dynamic_sum has one positive answer")
    k = [key for key, v in itd.known(trues[0]) if v is False and key.startswith("self.is_static(Predicate(")]
    ck.add("an aggregate is dynamic iff it ranges over a NON-STATIC predicate", bool(k), ds, trues[0], f"`return True` dominated by `not self.is_static(Predicate(..))`: {k}",  # type: ignore[arg-type]
           "a predicate that merely HAS a domain is still choice-dependent: replacing it by its domain inside a non-monotone aggregate makes the generated domain miss values")
    inner_l = enclosing_loop(ds, trues[0])  # type: ignore[arg-type]
    if k and inner_l is not None:
        itp = ck.interp(ds, Pins.of(facts={k[0]: False}))  # type: ignore[arg-type]
        back = itp.loop_back.get(id(inner_l), [])
        ck.add("every atom over a non-static predicate makes the aggregate dynamic", not back and itp.reachable(inner_l), ds, inner_l, f"under `not is_static(..)` an atom can be passed over: {bool(back)}",  # type: ignore[arg-type]
               "testing has_domain instead of is_static overlooks choice-dependent predicates that got a domain: their domain atoms inside a bounded #count/#sum under-approximate")
    # an aggregate literal is declared harmless only after ALL its atoms were looked at
    c0 = ds.params()[0]  # type: ignore[union-attr]
    outer_l = inner_l
    while outer_l is not None and enclosing_loop(ds, outer_l) is not None:  # type: ignore[arg-type]
        outer_l = enclosing_loop(ds, outer_l)  # type: ignore[arg-type]
    if outer_l is not None:
        for kind in ("BodyAggregate", "Aggregate"):
            itk = ck.interp(ds, Pins.of(vals={f"{c0}.ast_type": "ASTType.Literal", f"{c0}.atom.ast_type": f"ASTType.{kind}"}, entry=True), mark_stmts={id(outer_l): "scanned"})  # type: ignore[arg-type]
            early = [unparse(r) for r, st in itk.returns if not is_const(r.value, True) and "scanned" not in st.marks]
            ck.add(f"a {kind} condition is called static only after its elements were scanned", not early and bool(itk.returns), ds, outer_l, f"negative answers before the scan of the elements: {early}",  # type: ignore[arg-type]
                   "an aggregate with only bounds (`#count{Y : b(Y)} <= 1`) over a choice predicate is as dynamic as an assignment: with __dom_b inside, the condition gets stronger and the domain misses values")
    okk, n = True, 0
    pred = None
    st_ret = [r for r in returns_of(func) if is_const(r.value, True) and not any(x is r for x in ast.walk(rloop))]
    ck.add("static predicates need no domain rules", any(it.holds(r, "self.is_static(pred)") for r in st_ret), func, func.node, f"early `return True` under is_static: {bool(st_ret)}", "", nontrivial=False)
    # polarity: replace_domain under negation (A-13)
    outer = ck.func(f"{DP}.add_domain_rules")
    ito = ck.interp(outer)
    calls = [c for c in resolved_calls(ck.prg, outer, "ngo.utils.ast:transform_ast") if "replace_domain" in unparse(c)]
    ck.need(len(calls) == 1, "domain predicates are substituted at one site")
    c = calls[0]
    lit = unparse(c.args[0])
    ok = ito.holds(c, f"{lit}.sign == Sign.NoSign") or ito.holds(c, f"{lit}.sign != Sign.Negation")
    ck.add("domain predicates are substituted in positive literals only", ok, outer, c, f"`{fmt(c)}` dominated by a sign test on `{lit}`: {ok}",
           "`a(X) :- d(X), not c(X)` gives `__dom_a(X) :- d(X), not __dom_c(X)`: the over-approximation of c under `not` UNDER-approximates a, so __dom_a misses values a can take",
           rule="C20.polarity")
    hd = [cc for cc in calls_in(outer, lambda cc: "have_domain" in unparse(cc.func))]
    k = [key for key, v in ito.known(c) if "have_domain" in key]
    brk = [n for n in find_nodes(outer.node, lambda n: isinstance(n, ast.Break)) if isinstance(enclosing_loop(outer, n), ast.For)]
    ok = len(brk) == 1 and ito.holds(brk[0], "not all(map(have_domain, condition))")
    if ok:
        # the rules are only rewritten in the for-else branch (no break happened)
        lp = enclosing_loop(outer, brk[0])
        ok = lp is not None and bool(lp.orelse) and any(x is c for n in lp.orelse for x in ast.walk(n))
    ck.add("a predicate gets a domain only if every condition predicate of every rule has one", ok, outer, brk[0] if brk else outer.node, f"break on `not all(map(have_domain, condition))`: {ok}", "")
    reg = [n for n in find_nodes(outer.node, lambda n: isinstance(n, ast.Assign) and unparse(n.targets[0]).startswith("self.domains["))]
    ck.need(len(reg) == 1, "domains registered at one site")
    ok = unparse(reg[0].value).replace(" ", "") == "self.dom_named_predicate(pred.name,pred.arity)"  # type: ignore[attr-defined]
    ck.add("domain predicate has the arity of the predicate and a fresh name", ok, outer, reg[0], f"`{fmt(reg[0])}`", "C07")


def _rule_texts(ck: Checker, func) -> list[tuple[ast.Call, str, str]]:  # type: ignore[no-untyped-def]
    it = ck.interp(func)
    out = []
    for r in resolved_calls(ck.prg, func, "clingo.ast.Rule"):
        st = it.states(r)[0]
        head = unparse(it.expand(inline_displays(func, r.args[1]), st)).replace(" ", "")
        body = unparse(it.expand(inline_displays(func, r.args[2]), st)).replace(" ", "")
        out.append((r, head, body))
    return out


def r_next_template(ck: Checker) -> None:
    """TEMPLATE create_next_pred_for_annotated_pred: min/max/next rules (N1-N6)"""
    func = ck.func(f"{DP}.create_next_pred_for_annotated_pred")
    it = ck.interp(func)
    rules = _rule_texts(ck, func)
    ck.need(len(rules) == 4, "create_next_pred_for_annotated_pred yields min, max and two next rules")
    pos = func.params()[2]
    names = {"min": "self.min_anon_predicate(anon_pred,position)", "max": "self.max_anon_predicate(anon_pred,position)", "next": "self.next_anon_predicate(anon_pred,position)", "dom": "self.domain_predicate(anon_pred.pred)"}
    names = {k: v.replace("position", pos) for k, v in names.items()}

    def plit(pred: str, vars_: str, sign: str = "") -> str:
        return f"self._create_projected_lit({pred},{vars_}{sign})"

    gmap, gflat = "var_global_map", "var_global_flat"
    dm, df = single_def(func, gmap), single_def(func, gflat)
    wm = "{i:Variable(LOC,f'G{i}')foriinrange(0,pred.arity)ifinotinanon_pred.annotated_positions}"
    wf = "[Variable(LOC,f'G{i}')foriinrange(0,pred.arity)ifinotinanon_pred.annotated_positions]"
    ck.add("group variables: one G<i> per non-annotated position, same in list and map", dm is not None and df is not None and same(unparse(dm), "{i: Variable(LOC, f'G{i}') for i in range(0, pred.arity) if i not in anon_pred.annotated_positions}") and same(unparse(df), "[Variable(LOC, f'G{i}') for i in range(0, pred.arity) if i not in anon_pred.annotated_positions]"), func, func.node,
           f"var_global_map = `{unparse(dm) if dm is not None else None}`, var_global_flat = `{unparse(df) if df is not None else None}`", "all literals of one rule must agree on the group")
    X, L, Pv, N, B = (f"Variable(LOC,'{c}')" for c in "XLPNB")
    for (r, head, body), (fun, key) in zip(rules[:2], (("Min", "min"), ("Max", "max"))):
        want_head = plit(names[key], f"self._var_map({gflat}+[{X}])")
        ck.add(f"N1 #{key} rule head is {key}(G..., X)", head == want_head, func, r, f"head `{short(head, 170)}`", "")
        agg = f"BodyAggregate(LOC,Guard(ComparisonOperator.Equal,{X}),AggregateFunction.{fun},[BodyAggregateElement([{L}],[{plit(names['dom'], gmap + '|{' + pos + ':' + L + '}')}])],None)"
        ok = body == f"[Literal(LOC,Sign.NoSign,{agg}),{plit(names['dom'], gmap)}]"
        ck.add(f"N1 {key} rule computes X = #{key} of the domain value at `position` within the group", ok, func, r, f"body `{short(body, 230)}`",
               f"the {key} predicate must hold the {'least' if key == 'min' else 'greatest'} domain element of the group: chains are anchored there")
    cond = f"ConditionalLiteral(LOC,{plit(names['dom'], gmap + '|{' + pos + ':' + B + '}', ',Sign.Negation')},[{plit(names['dom'], gmap + '|{' + pos + ':' + B + '}')},Literal(LOC,Sign.NoSign,Comparison({Pv},[Guard(ComparisonOperator.LessThan,{B}),Guard(ComparisonOperator.LessThan,{N})]))])"
    common = f"{plit(names['dom'], gmap + '|{' + pos + ':' + N + '}')},Literal(LOC,Sign.NoSign,Comparison({N},[Guard(ComparisonOperator.GreaterThan,{Pv})])),{cond}]"
    want_next_head = plit(names["next"], f"self._var_map({gflat}+[{Pv},{N}])")
    seeds = (
        ("N3 first successor starts at the group minimum", "[" + plit(names["min"], f"self._var_map({gflat}+[{Pv}])") + ","),
        ("N4 further successors start at the previous successor", "[" + plit(names["next"], f"self._var_map({gflat}+[Variable(LOC,'_'),{Pv}])") + ","),
    )
    for (r, head, body), (sig, first) in zip(rules[2:], seeds):
        ck.add("N2 next rule head is next(G..., P, N)", head == want_next_head, func, r, f"head `{short(head, 170)}`", "")
        ck.add(sig, body.startswith(first), func, r, f"body starts `{short(body, 150)}`", "the successor relation is generated from the least element upwards, per group")
        ck.add("N5 N is a larger domain value of the same group with no domain value strictly between", body == first + common, func, r, f"body `{short(body[len(first):], 260)}`",
               "`N > P` and `not dom(B) : dom(B), P < B < N` make next the IMMEDIATE successor; a non-strict or missing bound adds or loses links and the chain sums are off")
    # no early exit that forgets the position
    for early in [r for r in returns_of(func) if r.value is None]:
        gate = parent(func, enclosing_stmt(func, early))
        test = unparse(gate.test) if isinstance(gate, ast.If) else ""
        names_t = {n.id for n in ast.walk(gate.test) if isinstance(n, ast.Name)} if isinstance(gate, ast.If) else set()
        ok_e = {func.params()[1], pos} <= names_t
        ck.add("the min/max/next rules are produced for every (predicate, position) that is asked for", ok_e, func, early, f"early `return` under `{short(test, 80)}`",
               "the generated names depend on the position: remembering only the predicate leaves __min/__max/__next of a second position undefined (empty)")
    # guards
    rs = [n for n in find_nodes(func.node, lambda n: isinstance(n, ast.Raise))]
    ck.add("N6 refuses predicates without a domain and positions beyond the arity", len(rs) == 2, func, func.node, f"{len(rs)} raise statements", "", nontrivial=False)
    # chain rules
    ch = ck.func(f"{DP}.create_chain_pred_for_annotated_pred")
    for maximum in (True, False):
        itc = ck.interp(ch, Pins.of(facts={ch.params()[3]: maximum}))
        rr = resolved_calls(ck.prg, ch, "clingo.ast.Rule")
        ck.need(len(rr) == 2, "chain seed and chain step")
        st = itc.states(rr[1])[0]
        head = unparse(itc.expand(rr[1].args[1], st)).replace(" ", "")
        body = unparse(itc.expand(inline_displays(ch, rr[1].args[2]), st)).replace(" ", "")
        hv, bv = ("P", "N") if maximum else ("N", "P")
        ok = f"+[Variable(LOC,'{hv}')]))" in head and f"+[Variable(LOC,'{bv}')]))" in body.split("),self._create_projected_lit(")[0] + "))"
        ck.add(f"chain step direction (maximum={maximum})", ok, ch, rr[1], f"head `{short(head, 120)}` body `{short(body, 160)}`",
               "for maximum chains chain(N) implies chain(P) for the predecessor P (the chosen value is >= every smaller domain value)")
    st = ck.interp(ch).states(resolved_calls(ck.prg, ch, "clingo.ast.Rule")[0])[0]
    seed = resolved_calls(ck.prg, ch, "clingo.ast.Rule")[0]
    body = unparse(ck.interp(ch).expand(inline_displays(ch, seed.args[2]), st)).replace(" ", "")
    ck.add("chain seed comes from the original predicate", "self._create_projected_lit(anon_pred.pred," in body, ch, seed, f"body `{short(body, 160)}`", "")


def r_create_domain(ck: Checker) -> None:
    func = ck.func(f"{DP}.create_domain")
    it = ck.interp(func)
    rules = resolved_calls(ck.prg, func, "clingo.ast.Rule")
    ck.need(len(rules) == 1, "domain rules are emitted at one site")
    r = rules[0]
    pred = func.params()[1]
    ck.guard("domain rules only for predicates that have a domain", func, r, f"self.has_domain({pred})", "")
    ck.guard("static predicates are their own domain", func, r, f"not self.is_static({pred})", "")
    st = it.states(r)[0]
    head = unparse(it.expand(r.args[1], st)).replace(" ", "")
    m = re.fullmatch(r"Literal\(LOC,Sign\.NoSign,SymbolicAtom\(Function\(LOC,self\.domain_predicate\(" + re.escape(pred) + r"\)\.name,(\w+)\.symbol\.arguments,False\)\)\)", head)
    ck.add("domain rule head = domain predicate with the original head arguments", m is not None, func, r, f"head `{short(head, 160)}`", "plain rule (C06), same arguments: p(t) in M implies dom_p(t) in M")
    org = {s.origin.get(m.group(1), "") for s in it.states(r)} if m else set()
    ck.add("one domain rule per registered (head, condition) pair", org == {f"self.domain_rules[{pred}][*][0]"} and unparse(r.args[2]) in [n for s in it.states(r) for n, o in s.origin.items() if o == f"self.domain_rules[{pred}][*][1]"], func, r, f"head atom from {sorted(org)}, body `{unparse(r.args[2])}`", "")
    # every element of the condition - literal, conditional literal, aggregate - has its domain predicates defined
    dep = resolved_calls(ck.prg, func, f"ngo.{DP}.__create_domain_for_condition")
    ck.need(len(dep) == 1, "create_domain emits the rules of the domain predicates its condition uses")
    dl = enclosing_loop(func, dep[0])
    ok_all, n_all = every_iteration_reaches(ck, func, dl, dep[0], None) if dl is not None else (False, 0)
    body_name = unparse(r.args[2])
    ck.add("the domain predicates of EVERY condition element are defined", ok_all and n_all > 0 and dl is not None and unparse(dl.iter) == body_name and unparse(dep[0].args[0]) == unparse(dl.target), func, dep[0],
           f"loop over `{unparse(dl.iter) if dl is not None else None}` (rule body `{body_name}`), call on every iteration: {ok_all}",
           "`__dom_a(X,V) :- c(X), v(X,V), __dom_b(X,Y) : d(Y)`: if the rules of __dom_b are skipped because the element is a conditional literal, __dom_b is empty and the domain of a is no over-approximation any more")
    cdc = ck.func(f"{DP}.__create_domain_for_condition")
    itc = ck.interp(cdc)
    rec = resolved_calls(ck.prg, cdc, f"ngo.{DP}.create_domain")
    ck.need(len(rec) == 1, "__create_domain_for_condition recurses into create_domain")
    outer = enclosing_loop(cdc, rec[0])
    ok = outer is not None and unparse(outer.iter).replace(" ", "") == f"collect_ast({cdc.params()[1]},'SymbolicAtom')"
    ck.add("domain rules are emitted for EVERY symbolic atom of a condition (also inside conditional literals and aggregates)", ok, cdc, rec[0], f"iterates `{unparse(outer.iter) if outer is not None else None}`",
           "a domain predicate used in a condition but never defined is empty: the domain of the depending predicate collapses")
    # the predicate whose domain rules are emitted is the one whose DOMAIN predicate the atom is: name and arity
    dloops = [lp_ for lp_ in find_nodes(cdc.node, lambda q: isinstance(q, ast.For)) if "self.domains.items()" in unparse(lp_.iter) and isinstance(lp_.target, ast.Tuple) and len(lp_.target.elts) == 2]  # type: ignore[attr-defined]
    ck.need(len(dloops) == 1, "__create_domain_for_condition looks the original predicate up in self.domains")
    lpk = dloops[0]
    kv = [unparse(e) for e in lpk.target.elts]  # type: ignore[attr-defined]
    # where the key is recorded: `found.append(key)` or `found = key` (the search loop of `next(...)`)
    picks = [c for c in attr_calls(cdc, "append") if enclosing_loop(cdc, c) is lpk and unparse(c.args[0]) == kv[0]]
    picks += [a for a in find_nodes(lpk, lambda q: isinstance(q, ast.Assign)) if unparse(a.value) == kv[0]]  # type: ignore[attr-defined]
    ck.need(len(picks) == 1, "the matching key is recorded at one site")
    sym_txts = [t for st_ in itc.states(picks[0]) for t in [itc.text(ast.Name("symbol", ast.Load()), st_)]]
    want_eq = [f"{kv[1]} == Predicate({s}.name, len({s}.arguments))" for s in set(sym_txts) | {"symbol"}]
    okp = any(itc.holds(picks[0], w) for w in want_eq)
    ck.add("the original predicate is found by the atom's name AND arity", okp, cdc, picks[0], f"`{short(unparse(picks[0]), 50)}` dominated by `{kv[1]} == Predicate(symbol.name, len(symbol.arguments))`: {okp}",
           "`__dom_skill/2` and `__dom_skill/3` share a name: a look-up by name emits the rules of the wrong predicate and leaves the other domain predicate without any rule (empty domain, the chain collapses)")
    hd = ck.func(f"{DP}.has_domain")
    rets = returns_of(hd)
    ck.add("has_domain = static or a domain was computed", len(rets) == 1 and unparse(rets[0].value).replace(" ", "") == f"self.is_static({hd.params()[1]})or{hd.params()[1]}inself.domains", hd, hd.node, f"`{fmt(rets[0]) if rets else None}`", "")  # type: ignore[arg-type]
    ist = ck.func(f"{DP}.is_static")
    rets = returns_of(ist)
    ck.add("is_static = not in _not_static", len(rets) == 1 and unparse(rets[0].value).replace(" ", "") == f"{ist.params()[1]}notinself._not_static", ist, ist.node, f"`{fmt(rets[0]) if rets else None}`", "")  # type: ignore[arg-type]


def r_compute_domains(ck: Checker) -> None:
    """__compute_domains: (atom, condition) pairs per head kind; only positive atoms"""
    func = ck.func(f"{DP}.__compute_domains")
    it = ck.interp(func)
    apps = [c for c in attr_calls(func, "append") if unparse(c.func.value).startswith("domain_rules[")]  # type: ignore[attr-defined]
    ck.need(len(apps) == 4, "domain rule candidates for literal, disjunction, head aggregate and choice heads")
    want = {
        "Literal": ("head.atom", "body"),
        "Disjunction": ("elem.literal.atom", "list(chain(elem.condition,body))"),
        "HeadAggregate": ("elem.condition.literal.atom", "list(chain(elem.condition.condition,body))"),
        "Aggregate": ("elem.literal.atom", "list(chain(elem.condition,body))"),
    }
    for kind, (atom_w, cond_w) in want.items():
        pins = Pins.of(vals={"rule.head.ast_type": f"ASTType.{kind}"})
        itk = ck.interp(func, pins)
        got = set()
        for c in apps:
            for st in itk.states(c):
                tup = c.args[0]
                a = unparse(itk.expand(tup.elts[0], st)).replace(" ", "").replace("rule.head", "head").replace("rule.body", "body")  # type: ignore[attr-defined]
                b = unparse(itk.expand(tup.elts[1], st)).replace(" ", "").replace("rule.head", "head").replace("rule.body", "body")  # type: ignore[attr-defined]
                got.add((a, b))
        ck.add(f"{kind} head: candidate = (positive atom, its condition + rule body)", got == {(atom_w, cond_w)}, func, func.node, f"registers {sorted(got)}; expected ({atom_w}, {cond_w})",
               "the domain of a choice/disjunction atom is over-approximated by dropping the choice, never by dropping conditions")
    lit = [c for c in apps if "head.atom" in unparse(c)]
    if lit:
        ck.guard("only positive literal heads", func, lit[0], "head.sign == Sign.NoSign and head.atom.ast_type == ASTType.SymbolicAtom".replace("head", "rule.head"), "")


RULES = [
    Rule("C20.nonstatic", P + ("C03",), r_nonstatic),
    Rule("C20.accept", P + ("C12", "C13"), r_accept, extra={"C04": ("unbounded head",)}),
    Rule("C20.TEMPLATE.next", P + ("C12", "C13"), r_next_template),
    Rule("C20.create-domain", P + ("C12", "C13"), r_create_domain),
    Rule("C20.compute-domains", P + ("C12", "C13"), r_compute_domains),
]
