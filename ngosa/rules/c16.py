"""C16 — projection: a split rule derives exactly what the unsplit rule derived (DESIGN §4 C16, template B)."""

from __future__ import annotations

import ast
import re

from ..core import Checker, Rule, attr_calls, callee_is, calls_in, kwarg, resolved_calls, short
from ..interp import Pins, find_nodes, unparse
from .util import enclosing_loop, enclosing_stmt, every_iteration_reaches, fmt, is_const, parent, returns_of, same, single_def

P = ("C16", "C01", "C06", "C04")
CLS = "projection:ProjectionTranslator"


def _var_collection(ck: Checker, func, name: str, source: str) -> tuple[bool, str]:  # type: ignore[no-untyped-def]
    """`name` = all variables occurring in the literals of `source`, minus `_` (set built by update(collect_ast(x,'Variable')))"""
    init = single_def(func, name)
    if init is not None and isinstance(init, ast.SetComp):
        # an accumulating loop (or the comprehension itself) folded into its canonical form
        ok = same(unparse(init), f"{{v for r in {source} for v in collect_ast(r, 'Variable')}}")
        return ok, f"{name} = {unparse(init)}"
    if init is None or unparse(init) != "set()":
        return False, f"{name} = {unparse(init) if init is not None else '<several definitions>'}"
    ups = [c for c in attr_calls(func, "update") if unparse(c.func.value) == name]  # type: ignore[attr-defined]
    if len(ups) != 1:
        return False, f"{len(ups)} update sites"
    loop = enclosing_loop(func, ups[0])
    ok = loop is not None and unparse(loop.iter) == source and unparse(ups[0].args[0]).replace(" ", "") == f"collect_ast({unparse(loop.target)},'Variable')"
    okk, n = every_iteration_reaches(ck, func, loop, ups[0], None) if loop is not None else (False, 0)
    return ok and okk and n > 0, f"{name}.update({unparse(ups[0].args[0])}) for {unparse(loop.target) if loop else '?'} in {unparse(loop.iter) if loop else '?'}"


def r_good_split(ck: Checker) -> None:
    func = ck.func(f"{CLS}.good_split")
    it = ck.interp(func)
    new, rest, stm = func.params()[1:4]
    rets = [r for r in returns_of(func) if r.value is not None and not is_const(r.value, None)]
    ck.need(len(rets) >= 1, "good_split has a successful return")
    # every way of answering "good split" has to satisfy all side conditions (a fast path or a remembered answer included)
    for ret in rets:
        ck.add("ORDER interface variables are sorted", unparse(ret.value) == "sorted(t)", func, ret, f"returns `{unparse(ret.value)}`", "C17: the argument order of the aux predicate must not depend on set iteration order")  # type: ignore[arg-type]
        ck.guard("B1 the moved part binds all its variables", func, ret, f"not collect_binding_information_body({new})[1]", "the auxiliary rule must be safe")
        ck.guard("B5 the remaining rule stays safe given the interface variables", func, ret, f"not collect_binding_information_body({rest}, t)[1]", "")
        ck.guard("B2 no global variable becomes local", func, ret, "not local_new.intersection(global_old)",
                 "a variable that is global in the rule but only occurs inside a condition of the moved part would become local to that condition in the aux rule")
        ck.guard("B6 aggregates are not split across the two rules", func, ret, "not (new_aggs and rest_aggs)", "")
        ck.guard("the remaining rule keeps a positive atom", func, ret, "any(map(aux, rest))".replace("rest", rest), "")
        ck.guard("split size is legal", func, ret, f"(1 < len({new}) < len({stm}.body)) or not len({rest})", "")
    # definitions of the sets involved
    t = single_def(func, "t")
    want_t = f"global_vars_inside_body({new}).intersection(vars_in_rest | global_vars_inside_head({stm}.head))"
    ck.add("B4 interface = global variables of the moved part that are needed outside", t is not None and unparse(t) == want_t, func, func.node, f"t = `{unparse(t) if t is not None else None}`; expected `{want_t}`",
           "every variable bound in the aux rule and used by the head or any remaining literal must be an argument of the aux atom")
    ok, how = _var_collection(ck, func, "vars_in_rest", rest)
    ck.add("B4 'needed outside' counts EVERY variable occurrence in the remaining literals", ok, func, func.node, how,
           "a variable that occurs in the rest only inside an aggregate or condition is still the same variable: dropping it from the interface silently makes it local there")
    ok, how = _var_collection(ck, func, "vars_in_new", new)
    ck.add("B2 uses every variable occurrence of the moved part", ok, func, func.node, how, "")
    ln = single_def(func, "local_new")
    ck.add("B2 local = occurring in the moved part but not global there", ln is not None and unparse(ln) == f"vars_in_new.difference(global_vars_inside_body({new}))", func, func.node, f"local_new = `{unparse(ln) if ln is not None else None}`", "")
    go = single_def(func, "global_old")
    ck.add("B2 compares with the globals of the unsplit body", go is not None and unparse(go) == f"global_vars_inside_body({stm}.body)", func, func.node, f"global_old = `{unparse(go) if go is not None else None}`", "")
    for nm, src in (("new_aggs", new), ("rest_aggs", rest)):
        d = single_def(func, nm)
        ok = d is not None and same(unparse(d), f"any(map(lambda x: len(collect_ast(x, 'BodyAggregate')) > 0, {src}))")
        ck.add(f"B6 {nm} detects body aggregates", ok, func, func.node, f"{nm} = `{unparse(d) if d is not None else None}`", "")
    aux = ck.prg.funcs.get(func.qualname + ".<locals>.aux")
    if aux is not None:
        ita = ck.interp(aux)
        r = returns_of(aux)
        ok = len(r) == 1 and unparse(r[0].value).replace(" ", "") == f"is_predicate({aux.params()[0]})and{aux.params()[0]}.sign==Sign.NoSign"  # type: ignore[arg-type]
        ck.add("'positive atom' = predicate literal without sign", ok, aux, aux.node, f"`{fmt(r[0]) if r else None}`", "")


def r_project_rule(ck: Checker) -> None:
    func = ck.func(f"{CLS}.project_rule")
    it = ck.interp(func)
    stm = func.params()[1]
    rules = resolved_calls(ck.prg, func, "clingo.ast.Rule")
    ck.need(len(rules) == 1, "project_rule builds the auxiliary rule at one site")
    r = rules[0]
    st = it.states(r)[0]
    ck.guard("split only when good_split accepts", func, r, "self.good_split(list(new_list), [x for x in " + stm + ".body if x not in list(new_list)], " + stm + ") is not None", "") if False else None
    gs = resolved_calls(ck.prg, func, f"ngo.{CLS}.good_split")
    ck.need(len(gs) == 1, "project_rule asks good_split")
    sv = None
    for n in find_nodes(func.node, lambda n: isinstance(n, ast.Assign)):
        if n.value is gs[0]:  # type: ignore[attr-defined]
            sv = unparse(n.targets[0])  # type: ignore[attr-defined]
    ck.need(sv is not None, "good_split's result is bound")
    ck.guard("split only when good_split accepts", func, r, f"{sv} is not None", "")
    head = unparse(r.args[1]).replace(" ", "")
    m = re.fullmatch(r"Literal\(LOC,Sign\.NoSign,SymbolicAtom\(Function\(LOC,(\w+)\.name," + re.escape(sv) + r",False\)\)\)", head)  # type: ignore[arg-type]
    ck.add("aux head = plain positive atom over the interface variables", m is not None, func, r, f"head `{head}`", "C06: auxiliary atoms are defined by plain rules")
    if m:
        ap = single_def(func, m.group(1))
        ck.add("B3 aux predicate is fresh", ap is not None and unparse(ap).replace(" ", "") == f"self.unique_names.new_auxpredicate(len({sv}))", func, r, f"{m.group(1)} = `{unparse(ap) if ap is not None else None}`", "C07")
    new_arg, rest_arg = unparse(gs[0].args[0]), unparse(gs[0].args[1])
    ck.add("aux body = the moved literals", unparse(r.args[2]) == new_arg, func, r, f"aux body `{unparse(r.args[2])}`, good_split examined `{new_arg}`", "the split that was checked must be the split that is made")
    ups = [c for c in attr_calls(func, "update") if unparse(c.func.value) == stm]  # type: ignore[attr-defined]
    ck.need(len(ups) == 1, "the original rule is updated once")
    body = kwarg(ups[0], "body")
    ok = body is not None and unparse(body).replace(" ", "") in (f"{rest_arg}+[new_rule.head]",) and {kw.arg for kw in ups[0].keywords} == {"body"}
    ck.add("remaining rule = rest + aux atom, head unchanged", ok, func, ups[0], f"`{fmt(ups[0])}`", "")
    rd = single_def(func, rest_arg)
    ck.add("rest = body without the moved literals", rd is not None and unparse(rd).replace(" ", "") == f"[xforxin{stm}.bodyifxnotin{new_arg}]", func, func.node, f"{rest_arg} = `{unparse(rd) if rd is not None else None}`", "")
    ex = ck.func(f"{CLS}.execute")
    ite = ck.interp(ex)
    calls = resolved_calls(ck.prg, ex, f"ngo.{CLS}.project_rule")
    ck.need(len(calls) == 1, "execute projects rules")
    ck.guard("only rules are split", ex, calls[0], f"{unparse(calls[0].args[0])}.ast_type == ASTType.Rule", "")
    # the binding analysis good_split relies on is only sound on the inlined form (no `AUX = C+C` equalities left over from
    # the ex-lined normal form of an earlier round): the rules that are split come out of inline_arithmetic
    lp_e = enclosing_loop(ex, calls[0])
    src = {st_.origin.get(unparse(calls[0].args[0]), "") for st_ in ite.states(calls[0])}
    itxt = ite.texts(lp_e, lp_e.iter) if lp_e is not None else set()
    prg_p = ex.params()[1]
    oki = bool(itxt) and all(t == f"inline_arithmetic({prg_p})" for t in itxt)
    ck.add("rules are split in their inlined form", oki, ex, lp_e or ex.node, f"the loop over the program iterates {sorted(itxt)}; expected `inline_arithmetic({prg_p})`",
           "from the second round of optimize's fixpoint loop on, rules arrive ex-lined (`even(AUX), AUX = C+C`): ngo's binder analysis counts C as bound by that equality, gringo cannot invert C+C, and the split exports C from an auxiliary rule that does not bind it (unsafe result)")


RULES = [
    Rule("C16.B.good-split", P, r_good_split, extra={"C03": ("'positive atom'",)}),  # C03: is_predicate() must come first, a conditional literal has no .sign
    Rule("C16.B.project-rule", P + ("C07",), r_project_rule),
]
