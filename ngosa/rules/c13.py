"""C13 — sum_chains (DESIGN §4 C13) and the template-G rows of C02 in sum_aggregates.py."""

from __future__ import annotations

import ast
import re

from ..core import Checker, Rule, attr_calls, callee_is, calls_in, kwarg, resolved_calls, short
from ..interp import Pins, find_nodes, unparse
from ..model import AnalysisError
from ..nform import canon_expr
from .util import ancestors, effect_table, enclosing_loop, enclosing_stmt, enum_members, every_iteration_reaches, fmt, inline_displays, is_const, parent, returns_of, same, self_attr_for_param, scan_parts, single_def, contributions

P = ("C13", "C01", "C06")
PG = ("C13", "C02", "C01")
CLS = "sum_aggregates:SumAggregator"


def r_at_most(ck: Checker) -> None:
    """template H: when is a predicate 'at most one per group'"""
    outer = ck.func(f"{CLS}._calc_at_most")
    ito = ck.interp(outer)
    calls = resolved_calls(ck.prg, outer, f"ngo.{CLS}._calc_at_most_on_rule")
    ck.need(len(calls) == 1, "_calc_at_most analyses defining rules through _calc_at_most_on_rule at one site")
    call = calls[0]
    arg = set(ito.texts(call, call.args[0]))
    if isinstance(call.args[0], ast.Name):
        arg |= {st.origin.get(call.args[0].id, "") for st in ito.states(call)} - {""}
    m = [re.fullmatch(r"(self\.rule_dependency\.get_rules_that_derive\((\w+)\))\[(0|\*)\]", t) for t in arg]
    m = [x for x in m if x]
    ck.need(len(m) == 1, "the analysed rule is one of get_rules_that_derive(pred)")
    rules_txt, pred = m[0].group(1), m[0].group(2)  # type: ignore[union-attr]
    ck.guard("H1 single defining rule", outer, call, f"len({rules_txt}) == 1",
             "a second rule can derive further atoms of the predicate in the same group: '{p(X)} 1. p(X) :- forced(X).' has two p atoms, the chain then yields the maximum instead of the sum")
    # H2: not an input predicate
    attr = self_attr_for_param(ck, CLS, "input_predicates")
    loop = enclosing_loop(outer, call)
    while loop is not None and not (isinstance(loop, ast.For) and unparse(loop.target) == pred):
        loop = enclosing_loop(outer, loop)
    ck.need(loop is not None, "loop over the candidate predicates")
    src = loop.iter.id if isinstance(loop.iter, ast.Name) else None  # type: ignore[union-attr]
    minus = [n for n in find_nodes(outer.node, lambda n: isinstance(n, ast.AugAssign) and isinstance(n.op, ast.Sub)) if src is not None and unparse(n.target) == src and unparse(n.value) == f"self.{attr}"  # type: ignore[attr-defined]
             and n.lineno < loop.lineno and parent(outer, n) is outer.node]  # type: ignore[union-attr]
    ok = bool(minus) or ito.holds(call, f"{pred} not in self.{attr}")
    ck.add("H2 not an input predicate", ok, outer, call, f"candidates exclude self.{attr}: {ok}", "the instance may add further facts of an input predicate, so the choice rule's bound does not limit it")
    # the results are only what _calc_at_most_on_rule returns
    func = ck.func(f"{CLS}._calc_at_most_on_rule")
    it = ck.interp(func)
    rule = func.params()[1]
    app_most = [c for c in calls_in(func, lambda c: isinstance(c.func, ast.Attribute) and c.func.attr in ("append", "extend")) if unparse(c.func.value) == "ret[0]"]  # type: ignore[attr-defined]
    app_least = [c for c in calls_in(func, lambda c: isinstance(c.func, ast.Attribute) and c.func.attr in ("append", "extend")) if unparse(c.func.value) == "ret[1]"]  # type: ignore[attr-defined]
    ck.need(len(app_most) == 1 and len(app_least) == 1, "_calc_at_most_on_rule records at-most and at-least results at one site each")
    site = app_most[0]
    ck.guard("H5 (at least) exactly one (predicate, projected positions) in the head", func, app_least[0], "len(preds) == 1", "")
    head = f"{rule}.head"
    ck.guard("H3 head is a choice / #count / #sum head aggregate", func, site,
             f"{head}.ast_type == ASTType.Aggregate or ({head}.ast_type == ASTType.HeadAggregate and {head}.function in (AggregateFunction.Count, AggregateFunction.Sum))",
             "only these heads bound the number/sum of derived atoms")
    ck.guard("H3 upper bound is at most 1", func, site, "AggAnalytics(" + head + ").guaranteed_leq(1)", "the bound is what makes the predicate at-most-one")
    ck.guard("H5 exactly one (predicate, projected positions) in the head", func, site, "len(preds) == 1", "with two predicates in one head the bound is shared between them")
    ck.guard("at-least-one additionally needs a lower bound of 1", func, app_least[0], "AggAnalytics(" + head + ").guaranteed_geq(1)", "")
    # H4: an element whose weight is not a positive number voids the result (for #sum heads)
    tests = [n for n in find_nodes(func.node, lambda n: isinstance(n, ast.If)) if "symbol.number > 0" in unparse(n.test)]  # type: ignore[attr-defined]
    ck.need(len(tests) == 1, "element weights are tested for being positive numbers")
    it2 = ck.interp(func, None, mark_edges={(id(tests[0]), True): "badweight"})
    bad = [st for st in it2.states(site) if "badweight" in st.marks]
    ck.add("H4 a non-positive or non-numeric element weight voids at-most-one", not bad, func, tests[0], f"at-most result still recorded after an element with non-positive/non-numeric weight: {bool(bad)}",
           "'#sum{1,X:p(X):d(X); -1,Y:q(Y):d(Y)} 1' allows two p atoms when a q atom compensates; skipping the negative element instead of giving up makes p 'at most one'")
    # ... for EVERY element, also those that are skipped because their literal is negated or not an atom (their weight
    # counts towards the bound all the same)
    wl = enclosing_loop(func, tests[0])
    ck.need(wl is not None, "weights are tested per element")
    itq = ck.interp(func, Pins.of(vals={f"{rule}.head.ast_type": "ASTType.HeadAggregate"}), mark_stmts={id(tests[0]): "weighed"}, clear_marks_at={id(wl): "weighed"})
    back_w = itq.loop_back.get(id(wl), [])
    okq = bool(back_w) and all("weighed" in s_.marks for s_ in back_w)
    ck.add("H4 the weight of EVERY head-aggregate element is tested, skipped elements included", okq, func, tests[0], f"every completed iteration over the elements has passed the weight test: {okq}",
           "`#sum{1,L : shift(D,L) : pshift(D,L); -1,relaxed : not strict(D)} 1` allows two shifts on a relaxed day: a negative weight on an element that is skipped for other reasons still raises the bound")
    # ... for EVERY kind of head aggregate that is accepted (#sum, #sum+, #count): at the registration of an element's
    # predicate the weight is known to be a positive number
    head_n = f"{rule}.head"
    regs_ = [c for c in attr_calls(func, "add") if unparse(c.func.value) == "preds"]  # type: ignore[attr-defined]
    for fun_ in ("Sum", "SumPlus", "Count"):
        itw = ck.interp(func, Pins.of(vals={f"{head_n}.ast_type": "ASTType.HeadAggregate", f"{head_n}.function": f"AggregateFunction.{fun_}"}))
        for reg_ in regs_:
            if not itw.reachable(reg_):
                continue
            elem_ = unparse(enclosing_loop(func, reg_).target) if enclosing_loop(func, reg_) is not None else "elem"  # type: ignore[union-attr]
            okw = itw.holds(reg_, f"{elem_}.terms[0].symbol.type == SymbolType.Number and {elem_}.terms[0].symbol.number > 0")
            ck.add(f"H4 #{fun_.lower()} head: an element is only registered if its weight is a positive number", okw, func, reg_, f"`{fmt(reg_)}` dominated by the weight test for a {fun_} head: {okw}",
                   "`#sum+{0,X : p(X) : d(X)} 1` bounds nothing: elements of weight 0 do not count, so p is not at-most-one")
    bad2 = [st for st in it2.states(app_least[0]) if "badweight" in st.marks]
    ck.add("H4 ... and at-least-one", not bad2, func, tests[0], f"at-least result recorded after a bad weight: {bool(bad2)}", "")
    # elements that are skipped must make 'alone' false
    skips = [n for n in find_nodes(func.node, lambda n: isinstance(n, ast.If)) if "sign != Sign.NoSign" in unparse(n.test)]  # type: ignore[attr-defined]
    ck.need(len(skips) == 1, "negative / non-atom element literals are tested")
    it3 = ck.interp(func, None, mark_edges={(id(skips[0]), True): "skipped"})
    bad3 = [st for st in it3.states(app_least[0]) if "skipped" in st.marks]
    ck.add("at-least-one only if every element is a positive atom of the predicate", not bad3, func, skips[0], f"at-least recorded although an element was skipped: {bool(bad3)}",
           "the lower bound may be met by the skipped element")
    # predicate registered = the element's positive symbolic atom
    adds = [c for c in attr_calls(func, "add") if unparse(c.func.value) == "preds"]  # type: ignore[attr-defined]
    ck.need(len(adds) == 1, "candidate predicates collected at one site")
    cond = "condition"
    ck.guard("registered element literal is positive", func, adds[0], f"{cond}.literal.sign == Sign.NoSign", "")
    ck.guard("registered element literal is a symbolic atom", func, adds[0], f"{cond}.literal.atom.ast_type == ASTType.SymbolicAtom", "")
    # positions: an argument is 'per group' only if all its variables are bound by the rule body
    ups = [c for c in attr_calls(func, "append") if unparse(c.func.value) == "unprojected"]  # type: ignore[attr-defined]
    ck.need(len(ups) == 1, "varying positions collected at one site")
    ok = it.holds(ups[0], "not global_vars or not local_vars.issubset(global_vars)")
    ck.add("a position varies unless all its variables are bound by the body", ok, func, ups[0], f"dominated by `not global_vars or not local_vars.issubset(global_vars)`: {ok}", "group arguments are those fixed by the rule body")
    gv = single_def(func, "global_vars")
    ck.add("group variables = variables bound by the rule body", gv is not None and unparse(gv) == "collect_binding_information_body(body)[0]", func, func.node, f"global_vars = `{unparse(gv) if gv is not None else None}`", "")


def r_agg_analytics(ck: Checker) -> None:
    """TABLE AggAnalytics: operator -> bound arithmetic"""
    A = "utils.ast:AggAnalytics"
    for name, rows in (
        ("guaranteed_leq", {"LessEqual": "int({b}.term.symbol.number) <= {n}", "Equal": "int({b}.term.symbol.number) <= {n}", "LessThan": "int({b}.term.symbol.number) - 1 <= {n}"}),
        ("guaranteed_geq", {"GreaterEqual": "int({b}.term.symbol.number) >= {n}", "Equal": "int({b}.term.symbol.number) >= {n}", "GreaterThan": "int({b}.term.symbol.number) + 1 >= {n}"}),
    ):
        func = ck.func(f"{A}.{name}")
        n = func.params()[1]
        loops = [x for x in find_nodes(func.node, lambda x: isinstance(x, ast.For))]
        ck.need(len(loops) == 1 and unparse(loops[0].iter) == "self.bounds", f"{name} loops over self.bounds")  # type: ignore[attr-defined]
        b = unparse(loops[0].target)  # type: ignore[attr-defined]
        for op in enum_members("ComparisonOperator"):
            short_op = op.split(".")[1]
            pins = Pins.of(vals={f"{b}.comparison": op, f"{b}.term.ast_type": "ASTType.SymbolicTerm", f"{b}.term.symbol.type": "SymbolType.Number"})
            it = ck.interp(func, pins)
            got = set()
            for ret, st in it.returns:
                if enclosing_loop(func, ret) is loops[0]:
                    got.add(unparse(it.expand(ret.value, st)))  # type: ignore[arg-type]
            want = {rows[short_op].format(b=b, n=n)} if short_op in rows else set()
            ck.add(f"{name}: bound `agg {short_op} k`", got == want, func, loops[0], f"decides by {sorted(got) or 'nothing (next bound)'}; expected {sorted(want) or 'nothing'}",
                   "e.g. `agg < 2` guarantees agg <= 1 (k-1), `agg <= 2` does not; a wrong row makes a predicate at-most-one that is not")
        # non numeric bounds decide nothing
        pins = Pins.of(vals={f"{b}.term.ast_type": "ASTType.Variable"})
        it = ck.interp(func, pins)
        got = {unparse(ret.value) for ret, st in it.returns if enclosing_loop(func, ret) is loops[0]}  # type: ignore[arg-type]
        ck.add(f"{name}: non-numeric bound decides nothing", not got, func, loops[0], f"returns inside the loop: {sorted(got)}", "")
    init = ck.func(f"{A}.__init__")
    node = init.params()[1]
    sites_b = [c for c in attr_calls(init, "append") if unparse(c.func.value) == "self.bounds"]  # type: ignore[attr-defined]
    sites_e = [c for c in attr_calls(init, "append") if unparse(c.func.value) == "self.equal_variable_bound"]  # type: ignore[attr-defined]
    ck.need(len(sites_b) >= 2 and len(sites_e) >= 2, "left and right guard are recorded as bounds or as the assigned variable")
    # TABLE (side, operator, term kind) -> what is recorded: `V = agg` / `agg = V` binds V, everything else is a bound
    # (a left guard mirrored to the right-hand reading)
    for side in ("left", "right"):
        g = f"{node}.{side}_guard"
        for op in enum_members("ComparisonOperator"):
            for kind in ("Variable", "SymbolicTerm", "BinaryOperation"):
                pins = Pins.of(vals={f"{g}.ast_type": "ASTType.Guard", f"{g}.comparison": op, f"{g}.term.ast_type": f"ASTType.{kind}"}, facts={g: True, f"{g} is None": False})
                itp = ck.interp(init, pins)
                got = set()
                for c in sites_b + sites_e:
                    for st_ in itp.states(c):
                        txt = unparse(itp.expand(c.args[0], st_)).replace(" ", "")
                        if f"{side}_guard" in txt:
                            got.add(("binds " if c in sites_e else "bound ") + txt)
                if op.endswith(".Equal") and kind == "Variable":
                    want = {f"binds {g}.term.name"}
                elif side == "left":
                    want = {f"bound Guard(rhs2lhs_comparison({g}.comparison),{g}.term)"}
                else:
                    want = {f"bound {g}"}
                ck.add(f"{side} guard `{op.split('.')[1]}` against a {kind}", got == want, init, init.node, f"records {sorted(got) or 'nothing'}; expected {sorted(want)}",
                       "only `V = agg` assigns the aggregate's value to V; any other guard is a test (`L > #max{..}` read as an assignment makes the chain rewrite derive nothing, a guard that is recorded nowhere lets inline unfold a constrained aggregate as if it were free), and a left guard `2 >= agg` means `agg <= 2`, not `agg < 2`")
    ck.notes["C13.analytics.rows"] = 2 * len(enum_members("ComparisonOperator")) * 3


def r_element_passes(ck: Checker) -> None:
    func = ck.func(f"{CLS}._element_passes")
    it = ck.interp(func)
    elem, elements = func.params()[0], func.params()[1]
    trues = [r for r in returns_of(func) if is_const(r.value, True)]
    ck.need(len(trues) == 1, "_element_passes has one `return True`")
    ret = trues[0]
    w = f"{elem}.terms[0]"
    ck.guard("G1 weight is a plain variable", func, ret, f"{w}.ast_type == ASTType.Variable", "only a variable weight can be replaced by value differences")
    ck.guard("G3 the weight variable occurs exactly once elsewhere in the element", func, ret, f"others.count({w}) == 1",
             "a second occurrence (e.g. `L > 3` in the condition) filters single chain links, so the differences no longer add up to the chosen value")
    # others = variables of the remaining tuple terms and of all condition literals
    ext = [c for c in attr_calls(func, "extend") if unparse(c.func.value) == "others"]  # type: ignore[attr-defined]
    srcs = set()
    for c in ext:
        for st in it.states(c):
            a = c.args[0]
            if isinstance(a, ast.Call) and isinstance(a.args[0], ast.Name):
                srcs.add(st.origin.get(a.args[0].id, ""))
    ck.add("occurrences are counted over tuple terms[1:] and the whole condition", srcs == {f"{elem}.terms[1:][*]", f"{elem}.condition[*]"}, func, func.node, f"sources {sorted(srcs)}", "")
    # G4 sibling tuples
    loops = [n for n in find_nodes(func.node, lambda n: isinstance(n, ast.For)) if unparse(n.iter) == elements]  # type: ignore[attr-defined]
    ck.need(len(loops) == 1, "siblings are examined in a loop over all elements")
    other = unparse(loops[0].target)  # type: ignore[attr-defined]
    pins = Pins.of(facts={f"potentially_unifying_sequence({elem}.terms, {other}.terms)": True, f"{elem} == {other}": False})
    it2 = ck.interp(func, pins, mark_loop_body={id(loops[0]): "sib"})
    bad = [st for st in it2.states(ret) if "sib" in st.marks]
    ck.add("G4 no sibling tuple may unify", not bad, func, ret, f"accepted although a sibling tuple may unify: {bool(bad)}", "aggregate tuples are a set: a unifying sibling would merge with a chain tuple")


def r_get_trigger(ck: Checker) -> None:
    func = ck.func(f"{CLS}._get_trigger")
    it = ck.interp(func)
    var = func.params()[1]
    rets = [r for r in returns_of(func) if isinstance(r.value, ast.Tuple)]
    ck.need(len(rets) >= 1 and all(len(r.value.elts) == 3 for r in rets), "_get_trigger returns (literal, index, annotated predicate)")  # type: ignore[union-attr]
    flag = [n for n in find_nodes(func.node, lambda n: isinstance(n, ast.Assign)) if is_const(n.value, False) and isinstance(n.targets[0], ast.Name)]  # type: ignore[attr-defined]
    ck.need(len(flag) == 1, "a flag records a varying position that is neither `_` nor the weight variable")
    fname = unparse(flag[0].targets[0])  # type: ignore[attr-defined]
    for ret in rets:
        lit, idx, ap = [unparse(e) for e in ret.value.elts]  # type: ignore[union-attr]
        ck.guard("trigger literal is a predicate atom", func, ret, f"is_predicate({lit})", "")
        ck.guard("at-most-one predicate is the literal's predicate", func, ret, f"{ap}.pred == Predicate({lit}.atom.symbol.name, len({lit}.atom.symbol.arguments))", "")
        ck.guard("a trigger position was found", func, ret, f"{idx} is not None", "without a position holding the weight variable there is nothing to chain (and the old code asserted)", )
        ck.guard("the predicate has a domain", func, ret, f"self.domain_predicates.has_domain({ap}.pred)", "create_domain / create_next_pred raise RuntimeError otherwise: optimize must leave such statements unchanged")
        ck.guard("every varying position is `_` or the weight variable", func, ret, fname, "another variable at a varying position selects single atoms: the element is not 'the value of the group'")
    # the position belongs to the literal it was found in: it is forgotten before the next literal is examined
    resets = [n for n in find_nodes(func.node, lambda n: isinstance(n, (ast.Assign, ast.AnnAssign))) if unparse(getattr(n, "target", None) or n.targets[0]) == idx and n.value is not None and is_const(n.value, None)]  # type: ignore[attr-defined]
    lit_loops = [lp for lp in find_nodes(func.node, lambda n: isinstance(n, ast.For)) if unparse(lp.target) == lit]  # type: ignore[attr-defined]
    ck.need(len(lit_loops) == 1, "_get_trigger examines the literals of the body in a loop")
    ok_reset = bool(resets) and all(enclosing_loop(func, n) is not None and (enclosing_loop(func, n) is lit_loops[0] or lit_loops[0] in ancestors(func, enclosing_loop(func, n))) for n in resets)
    ck.add("the trigger position is reset for every literal", ok_reset, func, resets[0] if resets else lit_loops[0], f"`{idx} = None` inside the loop over the literals: {ok_reset}",
           "a position found in an earlier atom would be returned together with a later atom of another at-most-one predicate (of smaller arity): IndexError / RuntimeError in the chain construction, or a chain over the wrong argument")
    # what sets the trigger index
    sets = [n for n in find_nodes(func.node, lambda n: isinstance(n, ast.Assign)) if unparse(n.targets[0]) == idx and not is_const(n.value, None)]  # type: ignore[attr-defined]
    ck.need(len(sets) == 1, "trigger index set at one site")
    i = unparse(sets[0].value)  # type: ignore[attr-defined]
    ck.guard("trigger position holds the weight variable", func, sets[0], f"{lit}.atom.symbol.arguments[{i}] == {var}", "")
    org = {st.origin.get(i, "") for st in it.states(sets[0])}
    ck.add("positions examined are the varying positions", org == {f"{ap}.annotated_positions[*]"}, func, sets[0], f"`{i}` iterates {sorted(org)}", "")
    # conditional literals give up
    none_rets = [r for r in returns_of(func) if is_const(r.value, None) and enclosing_loop(func, r) is not None]
    ok = any(it.holds(r, f"is_conditional({lit})") for r in none_rets)
    ck.add("a conditional literal in the condition gives up", ok, func, func.node, f"`return None` under is_conditional({lit}): {ok}", "")


def r_get_var(ck: Checker) -> None:
    func = ck.func(f"{CLS}._get_var")
    it = ck.interp(func)
    m = func.params()[1]
    rets = [r for r in returns_of(func) if r.value is not None and not is_const(r.value, None)]
    ck.need(len(rets) == 2, "_get_var returns the weight variable for V and for -V")
    for ret in rets:
        ck.guard("G4 no other objective tuple may unify", func, ret, "not unsafe", "weak constraints with equal tuples count once: the chain tuples must be distinct from every other objective element")
        txt = unparse(it.expand(ret.value, it.states(ret)[0])).replace("cast(AST, ", "").rstrip(")") if ret.value is not None else ""
        if txt.endswith(".argument"):
            ck.guard("G1 weight -V", func, ret, f"{m}.weight.ast_type == ASTType.UnaryOperation and {m}.weight.operator_type == UnaryOperator.Minus and {m}.weight.argument.ast_type == ASTType.Variable", "")
        else:
            ck.guard("G1 weight V", func, ret, f"{m}.weight.ast_type == ASTType.Variable", "")
    contrib = contributions(func, "unsafe")
    ck.need(len(contrib) == 1, "unsafe objectives are collected at one site")
    site, comp_full = contrib[0]
    parts = scan_parts(comp_full)
    ck.need(parts is not None and len(parts["gens"]) == 2 and "," in parts["gens"][0]["target"], "unsafe objectives: scan over (tuple, objectives) entries and their objectives")  # type: ignore[index,arg-type]
    g0, g1 = parts["gens"]  # type: ignore[index,misc]
    terms_, objective = [t.strip() for t in g0["target"].strip("()").split(",")]
    ck.add("every objective of the program is compared", g0["iter"] == "self.objectives.items()", func, site, f"scan over `{g0['iter']}`", "")
    ck.add("only the statement itself is exempt", g1["iter"] == objective and parts["elt"] == g1["target"] and [canon_expr(x) for x in g1["ifs"]] == [canon_expr(f"{g1['target']} != {m}")], func, site, f"collected: `{comp_full}`",  # type: ignore[index]
           "another objective element with the syntactically identical tuple (same key) must still block the rewrite: '#minimize{L,D:shift(D,L); L,D:penalty(D,L)}'")
    want = f"potentially_unifying_sequence({terms_}, [{m}.weight, {m}.priority, *{m}.terms])"
    ck.add("compared with (weight, priority, *terms) of this statement; every potentially unifying objective is collected", [canon_expr(x) for x in g0["ifs"]] == [canon_expr(want)], func, site, f"entry filter {g0['ifs']}; expected `{want}`", "")
    # objectives registry: every Minimize of the program
    co = ck.func(f"{CLS}._collect_objectives")
    itc = ck.interp(co)
    apps = attr_calls(co, "append")
    over = [n for n in find_nodes(co.node, lambda n: isinstance(n, (ast.Assign, ast.AnnAssign))) for t in (n.targets if isinstance(n, ast.Assign) else [n.target])  # type: ignore[attr-defined]
            if isinstance(t, ast.Subscript) and unparse(t.value).endswith("objectives")]
    for o_ in over:
        ck.add("objectives with the same tuple are all kept in the registry", False, co, o_, f"`{short(unparse(o_), 90)}` replaces the entry of the key",
               "two weak constraints with the syntactically identical tuple share one key: if the later one evicts the earlier, the uniqueness test of the rewrite no longer sees it and rewrites its twin into chain tuples")
    for a_ in apps:
        ck.add("objectives with the same tuple are all kept in the registry", True, co, a_, f"`{short(unparse(a_), 90)}` accumulates under the key", "")
    ck.need(len(apps) == 1 or bool(over), "objectives registered at one site")
    if not apps:
        return
    key = unparse(apps[0].func.value.slice).replace(" ", "")  # type: ignore[attr-defined]
    r = unparse(apps[0].args[0])
    ck.add("objectives are keyed by (weight, priority, *terms)", key == f"({r}.weight,{r}.priority,*{r}.terms)", co, apps[0], f"key `{key}`", "")
    ck.guard("every Minimize statement is registered", co, apps[0], f"{r}.ast_type == ASTType.Minimize", "", what="registration")
    ok, n = every_iteration_reaches(ck, co, enclosing_loop(co, apps[0]), apps[0], Pins.of(vals={f"{r}.ast_type": "ASTType.Minimize"}))  # type: ignore[arg-type]
    ck.add("no Minimize statement is skipped", ok and n > 0, co, apps[0], f"every Minimize iteration registers: {ok}", "")


def r_replace_optimize(ck: Checker) -> None:
    func = ck.func(f"{CLS}._replace_optimize")
    it = ck.interp(func)
    m = func.params()[1]
    trig = resolved_calls(ck.prg, func, f"ngo.{CLS}._get_trigger")
    ck.need(len(trig) == 1, "_replace_optimize looks for the trigger once")
    ck.guard("G3 the weight variable occurs exactly once elsewhere", func, trig[0], "others.count(minimize_var) == 1", "see _element_passes")
    ext = [c for c in attr_calls(func, "extend") if unparse(c.func.value) == "others"]  # type: ignore[attr-defined]
    srcs = set()
    for c in ext:
        for st in it.states(c):
            a = c.args[0]
            if isinstance(a, ast.Call) and callee_is(ck.prg, func, a, "ngo.utils.ast:collect_ast") and isinstance(a.args[0], ast.Name) and is_const(a.args[1], "Variable"):
                srcs.add(st.origin.get(a.args[0].id, ""))
    fields = {f for s_ in srcs for f in re.findall(rf"\b{m}\.(\w+)", s_)}
    ck.add("occurrences are counted over priority, tuple terms and the whole body", fields >= {"priority", "terms", "body"} and "weight" not in fields, func, trig[0], f"scanned {sorted(srcs)}",
           "a weight variable that is also the priority (`[L@L,D]`) or occurs in the tuple or a second body literal cannot be telescoped: each chain link would land on its own level / tuple")
    mv = single_def(func, "minimize_var")
    ck.add("weight variable comes from _get_var", mv is not None and unparse(mv) == f"self._get_var({m})", func, func.node, f"minimize_var = `{unparse(mv) if mv is not None else None}`", "")
    rem = [c for c in attr_calls(func, "remove")]
    ck.need(len(rem) == 1, "the trigger literal is removed")
    ck.guard("rewrite only with a trigger", func, rem[0], "self._get_trigger(minimize_var, " + m + ".body) is not None", "")
    # sign table
    un = resolved_calls(ck.prg, func, "clingo.ast.UnaryOperation")
    ck.need(len(un) == 1, "negated difference built at one site")
    ck.guard("difference weight is negated iff the original weight was -V", func, un[0], f"{m}.weight.ast_type != ASTType.Variable", "a #maximize objective must stay a #maximize objective")
    for shape, pin in (("V", "ASTType.Variable"), ("-V", "ASTType.UnaryOperation")):
        itp = ck.interp(func, Pins.of(vals={f"{m}.weight.ast_type": pin}))
        ups = [c for c in attr_calls(func, "update") if unparse(c.func.value) == m and kwarg(c, "weight") is not None]  # type: ignore[attr-defined]
        ck.need(len(ups) == 1, "difference objective built with update(weight=...)")
        txt = {unparse(itp.expand(kwarg(ups[0], "weight"), s)).replace(" ", "") for s in itp.states(ups[0])}  # type: ignore[arg-type]
        diff = "BinaryOperation(LOC,BinaryOperator.Minus,self._get_var(" + m + "),PREV)"
        want = {diff} if shape == "V" else {f"UnaryOperation(LOC,UnaryOperator.Minus,{diff})"}
        ck.add(f"S1 weight {shape}: difference objective has weight {'V-PREV' if shape == 'V' else '-(V-PREV)'}", txt == want, func, ups[0], f"weight `{sorted(txt)}`", "telescoping: sum of (value - predecessor) over the chain = value - minimum")


def _template(ck: Checker, func_name: str, which: str) -> None:
    """S1-S4 features common to _replace_elements / _replace_optimize"""
    func = ck.func(f"{CLS}.{func_name}")
    it = ck.interp(func)
    cd = resolved_calls(ck.prg, func, "ngo.dependency:DomainPredicates.create_domain")
    cn = resolved_calls(ck.prg, func, "ngo.dependency:DomainPredicates.create_next_pred_for_annotated_pred")
    cc = resolved_calls(ck.prg, func, "ngo.dependency:DomainPredicates.create_chain_pred_for_annotated_pred")
    cp = resolved_calls(ck.prg, func, "ngo.dependency:DomainPredicates.chain_pred")
    ck.need(len(cd) == 1 and len(cn) == 1 and len(cc) == 1 and len(cp) == 1, f"{func_name} emits domain, next and chain rules once")
    a = unparse(cn[0].args[0]), unparse(cn[0].args[1])
    ck.add(f"{which}: chain and next rules are built for the same (predicate, position)", (unparse(cc[0].args[0]), unparse(cc[0].args[1])) == a and (unparse(cp[0].args[0]), unparse(cp[0].args[1])) == a
           and unparse(cd[0].args[0]) == f"{a[0]}.pred", func, cn[0], f"next({a}), chain({unparse(cc[0].args[0])},{unparse(cc[0].args[1])}), domain({unparse(cd[0].args[0])})", "")
    # the rules that define the order predicates are emitted whenever the order predicates are used: unconditionally,
    # not once per predicate (they depend on the trigger position as well, and the emitted list belongs to this call)
    for call, what in ((cd[0], "domain"), (cn[0], "next"), (cc[0], "chain")):
        stmt_ = enclosing_stmt(func, call)
        itm = ck.interp(func, None, mark_stmts={id(stmt_): "emitted"})
        sts = itm.states(cp[0])
        okm = bool(sts) and all("emitted" in st.marks for st in sts)
        ck.add(f"{which}: the {what} rules are emitted on every path that uses the chain predicate", okm, func, call, f"`{short(unparse(stmt_), 90)}` passed on every path to `{short(unparse(cp[0]), 50)}`: {okm}",
               "a second statement chaining the same predicate over another position (or a later call) would refer to order predicates nobody defines: its objective level costs 0")
    ck.add(f"{which}: S3 chain in maximum direction", is_const(cc[0].args[2], True) and is_const(cp[0].args[2], True), func, cc[0], f"maximum flags {unparse(cc[0].args[2])}, {unparse(cp[0].args[2])}",
           "chain(G,V) must mean 'the chosen value is >= V': weights value-predecessor then add up to the chosen value")
    # S4: the distinguishing tuple term must carry every group argument; anonymous group arguments cannot
    nones = [n for n in find_nodes(func.node, lambda n: isinstance(n, (ast.IfExp, ast.If))) if "'_'" in unparse(n.test) and "none" in unparse(n.body if isinstance(n, ast.IfExp) else n.body[0]) and (isinstance(n, ast.IfExp) or n.orelse)]
    for n in nones:
        body = n.body if isinstance(n, ast.IfExp) else (n.body[0].value.args[0] if isinstance(n.body[0], ast.Expr) and isinstance(n.body[0].value, ast.Call) and n.body[0].value.args else n.body[0])  # type: ignore[attr-defined]
        is_var = isinstance(body, ast.Call) and unparse(body.func) == "Variable"
        ck.add(f"{which}: placeholder for an anonymous group argument is a constant, not a Variable", not is_var, func, n, f"placeholder `{unparse(body)}`",
               "Variable('none') prints as the constant `none` but is an unsafe variable in the AST handed to ProgramBuilder", rule="C13.lexical.none")
        ck.add(f"{which}: S4 tuple term distinguishes all groups", False, func, n, f"anonymous group arguments are replaced by `{unparse(body)}` in the tuple but stay `_` in the condition",
               "groups that differ only in an anonymous argument share their chain tuples: equal (value-predecessor) steps of different groups are counted once", rule="C13.TEMPLATE.anonymous-group")


    # the raw group arguments may contain `_`: fine inside the atoms of the condition, unsafe inside the tuple
    raws = set()
    defining: list[ast.AST] = []  # the comprehension, or the loop it abbreviates, that builds the anonymous-free list
    for n in nones:
        comp = next((a for a in ancestors(func, n) if isinstance(a, (ast.ListComp, ast.For))), None)
        src = comp.generators[0].iter if isinstance(comp, ast.ListComp) else (comp.iter if comp is not None else None)
        if isinstance(src, ast.Name):
            raws.add(src.id)
            defining.append(comp)  # type: ignore[arg-type]
    ck.need(len(raws) == 1, f"{func_name}: the anonymous-free argument list is derived from the raw group arguments")
    raw = next(iter(raws))
    uses = 0
    for nm in find_nodes(func.node, lambda x: isinstance(x, ast.Name) and x.id == raw and isinstance(x.ctx, ast.Load)):
        where = None
        up = parent(func, nm)
        if isinstance(up, ast.Attribute) and up.attr in ("append", "add", "extend") and up.value is nm:
            continue  # the list being filled: its own definition
        for anc in ancestors(func, nm):
            if any(anc is d for d in defining):
                where = "definition"
                break
            if isinstance(anc, ast.Call):
                fn = unparse(anc.func)
                if fn == "SymbolicAtom" or (fn.endswith(".symbol.update") and kwarg(anc, "arguments") is not None):
                    where = "atom"
                    break
            if isinstance(anc, ast.stmt):
                break
        if where == "definition":
            continue
        uses += 1
        ck.add(f"{which}: raw group arguments (possibly `_`) only inside atoms of the condition", where == "atom", func, nm, f"`{short(unparse(enclosing_stmt(func, nm)), 100)}` uses `{raw}` " + ("inside a symbolic atom" if where == "atom" else "outside any atom (tuple term)"),
               "`_` inside a tuple term is a variable nothing binds: gringo rejects the statement as unsafe ('#Anon0 is unsafe')", rule="C13.TEMPLATE.anonymous-safe")
    ck.need(uses >= 2, f"{func_name}: uses of the raw group arguments found ({uses})")
    # ... and the other way round: the anonymous-free list (with the constant `none`) is for tuple terms only
    clean: set[str] = set()
    for d in defining:
        if isinstance(d, ast.For):
            clean |= {c.func.value.id for c in ast.walk(d) if isinstance(c, ast.Call) and isinstance(c.func, ast.Attribute) and c.func.attr == "append" and isinstance(c.func.value, ast.Name)}
        else:
            up = parent(func, d)
            if isinstance(up, (ast.Assign, ast.AnnAssign)):
                clean.add(unparse(up.targets[0] if isinstance(up, ast.Assign) else up.target))
    ck.need(len(clean) == 1, f"{func_name}: the anonymous-free argument list has a name")
    cname = next(iter(clean))
    cuses = 0
    for nm in find_nodes(func.node, lambda x: isinstance(x, ast.Name) and x.id == cname and isinstance(x.ctx, ast.Load)):
        up = parent(func, nm)
        if isinstance(up, ast.Attribute) and up.attr in ("append", "add", "extend") and up.value is nm:
            continue
        in_atom = False
        for anc in ancestors(func, nm):
            if isinstance(anc, ast.Call):
                fn = unparse(anc.func)
                if fn == "SymbolicAtom" or (fn.endswith(".symbol.update") and kwarg(anc, "arguments") is not None):
                    in_atom = True
                    break
            if isinstance(anc, ast.stmt):
                break
        cuses += 1
        ck.add(f"{which}: the anonymous-free arguments (`none` for `_`) appear in tuple terms only, never inside an atom of the condition", not in_atom, func, nm,
               f"`{short(unparse(enclosing_stmt(func, nm)), 100)}` uses `{cname}` " + ("inside a symbolic atom" if in_atom else "in a term"),
               "inside an atom `none` is a constant that matches nothing: `not __next(D,none,_,L)` is always true, so every chain value is counted with its full weight", rule="C13.TEMPLATE.anonymous-safe")
    ck.need(cuses >= 1, f"{func_name}: uses of the anonymous-free argument list found ({cuses})")


def r_template_elements(ck: Checker) -> None:
    _template(ck, "_replace_elements", "sum element")
    func = ck.func(f"{CLS}._replace_elements")
    it = ck.interp(func)
    trig = resolved_calls(ck.prg, func, f"ngo.{CLS}._get_trigger")
    ck.need(len(trig) == 1, "_replace_elements looks for the trigger once")
    elem = unparse(enclosing_loop(func, trig[0]).target)  # type: ignore[union-attr]
    ck.guard("element eligibility is tested first", func, trig[0], f"self._element_passes({elem}, {func.params()[1]})", "G1/G3/G4 of the element")
    tt = {unparse(it.expand(trig[0].args[0], s)) for s in it.states(trig[0])}
    ck.add("trigger is searched for the element's weight in its own condition", tt == {f"{elem}.terms[0]"} and unparse(trig[0].args[1]) == f"{elem}.condition", func, trig[0], f"_get_trigger({sorted(tt)}, {unparse(trig[0].args[1])})", "")
    bo = resolved_calls(ck.prg, func, "clingo.ast.BinaryOperation")
    ck.need(len(bo) == 1, "difference weight built once")
    txt = unparse(bo[0]).replace(" ", "")
    ck.add("S1 difference element has weight V - PREV", txt == f"BinaryOperation(LOC,BinaryOperator.Minus,{elem}.terms[0],PREV)", func, bo[0], f"`{txt}`", "")


def r_template_optimize(ck: Checker) -> None:
    _template(ck, "_replace_optimize", "objective")


def r_execute(ck: Checker) -> None:
    func = ck.func(f"{CLS}.execute")
    it = ck.interp(func)
    calls = resolved_calls(ck.prg, func, f"ngo.{CLS}._replace_elements")
    ck.need(len(calls) == 1, "execute rewrites aggregate elements at one site")
    a = unparse(calls[0].args[0]).removesuffix(".elements")
    ck.guard("only #sum / #sum+ body aggregates are rewritten", func, calls[0], f"{a}.ast_type == ASTType.BodyAggregate and {a}.function in (AggregateFunction.Sum, AggregateFunction.SumPlus)",
             "telescoping is additive: it is meaningless for #min/#max/#count")
    # _replace_optimize edits the body of the objective it is given IN PLACE; the objectives remembered in self.objectives
    # for the tuple-uniqueness test are the statements of the program: what is handed over must be a copy with its own body
    ro = resolved_calls(ck.prg, func, f"ngo.{CLS}._replace_optimize")
    ck.need(len(ro) == 1, "execute rewrites objectives at one site")
    arg = unparse(ro[0].args[0])
    copies = [a for a in find_nodes(func.node, lambda q: isinstance(q, ast.Assign)) if unparse(a.targets[0]) == arg and re.fullmatch(rf"{re.escape(arg)}\.update\(body=(\w+)\)", unparse(a.value).replace(" ", ""))]  # type: ignore[attr-defined]
    fresh = False
    nb = None
    texts = {unparse(a.value) for a in copies}  # type: ignore[attr-defined]
    if len(copies) == 1:
        nb = re.fullmatch(rf"{re.escape(arg)}\.update\(body=(\w+)\)", unparse(copies[0].value).replace(" ", "")).group(1)  # type: ignore[union-attr,attr-defined]
        d = single_def(func, nb)
        lp = enclosing_loop(func, ro[0])
        itm = ck.interp(func, None, mark_stmts={id(copies[0]): "copied"}, clear_marks_at={id(lp): "copied"} if lp is not None else None)
        sts = itm.states(ro[0])
        fresh = d is not None and unparse(d) in ("[]", "list()") and bool(sts) and all("copied" in s_.marks for s_ in sts)
    ck.add("the objective handed to _replace_optimize has a body list of its own", fresh, func, ro[0], f"argument is {sorted(texts)}" + (f" with `{nb}` a new list" if fresh else ""),
           "the in-place edit would otherwise change the statement stored in self.objectives: a second, identical objective no longer equals it, is taken for another objective with a unifying tuple and is rewritten on its own (its cost is counted twice)")


RULES = [
    Rule("C13.H.at-most", P + ("C02",), r_at_most),
    Rule("C13.TABLE.agg-analytics", P + ("C15", "C12"), r_agg_analytics),
    Rule("C13.G.element-passes", PG + ("C06",), r_element_passes),
    Rule("C13.get-trigger", PG + ("C03",), r_get_trigger),
    Rule("C13.G.get-var", PG, r_get_var),
    Rule("C13.replace-optimize", PG, r_replace_optimize),
    Rule("C13.TEMPLATE.elements", PG + ("C04", "C06"), r_template_elements, extra={"C20": ("rules are emitted on every path",)}),
    Rule("C13.TEMPLATE.optimize", PG + ("C04",), r_template_optimize, extra={"C20": ("rules are emitted on every path",)}),
    Rule("C13.execute", P + ("C02", "C17"), r_execute),
]
