"""C03 — optimize always returns: no exception, failed assertion or endless loop (DESIGN §4 C03).

Decides the exception clause structurally: kind errors against clingo's AST grammar (definite-error stance), optional
guards dereferenced without test, input-dependent asserts/raises, exception containment of the math pass, the mypy gate,
and the shape of every `while` loop.  Termination of the outer fixpoint is NOT decided."""

from __future__ import annotations

import ast
import os
import re
from typing import Optional

from ..core import Checker, Rule, moved_lookup, attr_calls, callee_is, calls_in, kwarg, resolved_calls, short
from ..grammar import schema
from ..interp import Pins, find_nodes, unparse
from ..kinds import Kinds
from ..model import AnalysisError, Func
from .util import ancestors, enclosing_loop, enclosing_stmt, every_iteration_reaches, fmt, is_const, parent, parents, returns_of, same, single_def

P = ("C03",)
OPT_FIELDS = {"left_guard", "right_guard", "guard"}
COMMON = {"ast_type", "location", "update", "unpool", "items", "keys", "values", "child_keys"}

# accesses whose base kind is narrowed by a *semantic* test the kind engine cannot follow: (function, access) -> reason
FIELD_TRIAGE = {
    ("inline:InlineTranslator.inline_body_aggregate", "replace_cond.atom.symbol"): "replace_cond was selected because literal_predicate(replace_cond) yields the helper predicate and is a positive Literal: its atom is a SymbolicAtom over a Function",
    ("inline:InlineTranslator.inline_body_aggregate", "replace_cond.atom.symbol.arguments"): "see replace_cond.atom.symbol",
    # (guard, reason): the justification holds only where the guard dominates the access
    ("inline:InlineTranslator.is_connected_to_agregates", "blit.atom"): ("(orig, blit) in g.nodes", "nodes of g are (statement, literal) pairs added by replace_single_rule_for_body with the literal get_body_lit returned, and get_body_lit returns only literals with is_predicate(blit)"),
    ("inline:InlineTranslator.is_connected_to_agregates", "blit.atom.symbol"): ("(orig, blit) in g.nodes", "see blit.atom: is_predicate means a SymbolicAtom over a Function"),
    ("inline:InlineTranslator.is_connected_to_agregates", "blit.atom.symbol.arguments"): ("(orig, blit) in g.nodes", "see blit.atom.symbol"),
    ("inline:InlineTranslator.get_body_lit", "stm.body[0].sign"): ("not len(stm.body) > 1", "stm passed is_single: it contains exactly one BodyAggregate, which can only sit in a body Literal (a conditional literal cannot hold an aggregate); with at most one body element that element is the aggregate literal"),
    ("inline:InlineTranslator.inline_literal", "newlit.atom"): ("lit.sign == Sign.Negation", "a negated literal is only returned by get_body_lit when the single rule's body is its one aggregate literal (see get_body_lit: stm.body[0].sign)"),
}

# asserts / raises that cannot be discharged mechanically, each read and justified: (function, condition text) -> reason
THROW_TRIAGE = {
    ("cleanup:CleanupTranslator._find_superseeded", "isinstance(superseed, set)"): "pred2rules only has keys with a non-empty rule list (entries are created by append), so the loop ran at least once and assigned a set",
    ("dependency:DomainPredicates.domain_predicate", "self.has_domain(pred)"): "every caller tests has_domain first or passes a predicate for which add_domain_rule just succeeded; checked per call site by rule C03.THROW.domain",
    ("dependency:DomainPredicates.create_chain_pred_for_annotated_pred", "position in anon_pred.annotated_positions"): "the only callers pass the trigger index found by _get_trigger, which iterates annotated_positions",
    ("dependency:DomainPredicates.add_domain_rules.<locals>.replace_domain", "atom.symbol.ast_type == ASTType.Function"): "known finding A-23 (classically negated / pooled atoms)",
    ("dependency:DomainPredicates.add_domain_rules.<locals>.replace_domain", "self.has_domain(Predicate(name, arity))"): "replace_domain runs only in the for-else branch after all(map(have_domain, condition)) held for every rule",
    ("inline:InlineTranslator.inline_literal", "atom.ast_type == ASTType.SymbolicAtom and atom.symbol.ast_type == ASTType.Function"): "the literal comes from get_body_lit, which returns only literals with is_predicate(blit)",
    ("literal_duplication:LiteralCollector.rebuild", "rule_builder.sub_sub_ast is not None"): "RuleRebuilder objects with a BodyAggregate sub_ast are only created by _add_occurences_from_body_aggregate, which always passes the element",
    ("literal_duplication:LiteralCollector.rebuild", "f'NOT IMPLEMENTED: can not rebuild {rule_builder}'"): "a non-empty string is always true: the assert cannot fail",
    ("math_simplification:Goebner.new_sum", "len(asts) >= 2"): "called for sympy Add nodes only, which have at least two arguments; inside the containment try of MathSimplification.execute",
    ("math_simplification:Goebner.new_mul", "len(asts) >= 2"): "called for sympy Mul nodes only; inside the containment try",
    ("math_simplification:Goebner.sympy2ast", "len(expr.args) == 0"): "sympy integers are atoms; inside the containment try",
    ("math_simplification:Goebner.sympy2ast", "isinstance(expr, Symbol)"): "guarded by expr.func in (Symbol, Dummy); inside the containment try",
    ("math_simplification:Goebner.sympy2ast", "False"): "inside the containment try of MathSimplification.execute (falls back to the old statement)",
    ("math_simplification:Goebner.simplify_equalities", "need_bound.issubset(needed_vars)"): "needed is built as a superset of unbound in execute; inside the containment try",
    ("minmax_aggregates:MinMaxAggregator._minmax_agg", "isinstance(blit, AST)"): "body elements of a parsed rule are AST nodes (type narrowing for mypy)",
    ("minmax_aggregates:MinMaxAggregator._chain_translation", "len(agg.atom.elements) == 1"): "the function returns before if len(elements) > 1; an aggregate without elements is removed by the translatable-element test of the caller (any(...) over no elements is False)",
    ("minmax_aggregates:MinMaxAggregator._create_replacement", "minmaxpred is not None"): "both callers return before when minmaxpred is None",
    ("minmax_aggregates:MinMaxAggregator._create_replacement", "isinstance(arg, AST)"): "known imprecision: translate_parameters fills missing positions with None only for head arguments that are neither rest variables nor the result; _store_aggregate_head maps every Variable/SymbolicTerm argument it accepts",
    ("minmax_aggregates:MinMaxAggregator._replace_results_in_sum_agg_elem", "old_max is not None"): "_split_element sets oldmax in the same pass in which it sets minmaxpred only if some condition has exactly the predicate; see known finding for the objective variant",
    ("normalize:_convert_old_agg", "False"): "the three atom kinds of a literal inside an old-style aggregate element are exactly Comparison, BooleanConstant and SymbolicAtom (grammar `literal`)",
    ("sum_aggregates:SumAggregator._calc_at_most_on_rule", "condition.literal.atom.symbol.ast_type == ASTType.Function"): "known finding A-23 (classically negated / pooled atoms)",
    ("symmetry:SymmetryTranslator._inequalities", "len(lit.atom.guards) == 1"): "comparison chains are split by preprocess in bodies, in conditions of body literals / aggregate elements and in the conditions of head elements, from which domain rules copy their bodies (rule C05.chain-places); generated rules build one-link comparisons or in-place chains only in __next rules, whose bodies hold no symmetric literals (rule C05.one-link)",
    ("utils.ast:potentially_unifying", "lhs.ast_type in terms"): "arguments are elements of tuple/term sequences: the set lists all seven term kinds of the grammar",
    ("utils.ast:potentially_unifying", "rhs.ast_type in terms"): "see lhs",
    ("utils.ast:collect_binding_information_body", "stm.atom.ast_type != ASTType.Aggregate"): "old-style aggregates in bodies are converted by preprocess (replace_old_aggregates) before any pass runs",
    ("utils.ast:TranslationMap.translate_parameters", "len(arguments) > index"): "translations are only registered for heads that contain every argument of the new predicate (rule C12.store-head), so the head has at least as many arguments as the largest mapped index",
    ('cleanup:CleanupTranslator._create_mappings', 'cond.ast_type == ASTType.Literal'): 'callers pass conditions of head elements (grammar: Literal*) or the result of _collect_top_level_body_symbols, which yields Literals only',
    ('cleanup:CleanupTranslator._compute_local_superseed', 'rule.ast_type == ASTType.Rule'): 'rule ids in pred2rules are statements for which headderivable_predicates yielded, which happens for Rules only',
    ('dependency:DomainPredicates.add_domain_rules.<locals>.replace_domain', 'atom.ast_type == ASTType.SymbolicAtom'): "only called through transform_ast(cond, 'SymbolicAtom', ...)",
    ('dependency:DomainPredicates.__compute_domains.<locals>.atom2pred', 'atom.ast_type == ASTType.SymbolicAtom'): 'every call is guarded by `.atom.ast_type == ASTType.SymbolicAtom` (if-condition or filter lambda)',
    ('inline:InlineTranslator.inline_literal', 'lit.ast_type == ASTType.Literal'): 'the literal comes from get_body_lit, which returns only literals with is_predicate(blit)',
    ('literal_duplication:unanonymize_variables', 'var.ast_type == ASTType.Variable'): "called with the sorted bound variables (collect_ast(..., 'Variable') results)",
    ('literal_duplication:anonymize_variables.<locals>.replace', 'var.ast_type == ASTType.Variable'): "only called through transform_ast(lit, 'Variable', replace)",
    ('literal_duplication:LiteralDuplicationTranslator.compute_size_from_body', 'rule.ast_type == ASTType.Rule'): 'called under `stm.ast_type == Rule`; replace_assignments keeps the statement kind',
    ('literal_duplication:LiteralDuplicationTranslator.compute_size_from_minimize', 'stm.ast_type == ASTType.Minimize'): 'called under `stm.ast_type == Minimize`; replace_assignments keeps the statement kind',
    ('literal_duplication:LiteralDuplicationTranslator.compute_max_size_from_conditionals', 'rule.ast_type == ASTType.Rule'): 'called under `stm.ast_type == Rule`',
    ('literal_duplication:LiteralDuplicationTranslator.compute_max_size_from_body_aggregate', 'rule.ast_type == ASTType.Rule'): 'called under `stm.ast_type == Rule`',
    ('sum_aggregates:SumAggregator._calc_at_most_on_rule', 'rule.ast_type == ASTType.Rule'): 'argument is an element of RuleDependency.get_rules_that_derive, which stores Rules only (rule C15.uses)',
    ('sum_aggregates:SumAggregator._replace_elements', 'elem.ast_type == ASTType.BodyAggregateElement'): 'called with atom.elements under `atom.ast_type == BodyAggregate`',
    ('utils.ast:negate_agg', 'agg.ast_type in (ASTType.BodyAggregate, ASTType.Aggregate)'): 'called for conditions under `conditions.issubset(agg_conditions[...])` with non-empty conditions_of_body_agg, i.e. body aggregates; inside the math fallback path',
    ('utils.ast:AggAnalytics.__init__', 'node.ast_type in (ASTType.BodyAggregate, ASTType.HeadAggregate, ASTType.Aggregate)'): "callers pass collect_ast(.., 'BodyAggregate') results, `agg.atom` of a min/max literal, or a head under an explicit kind test",
    ('utils.ast:_collect_binding_information_simple_literal', 'lit.ast_type == ASTType.Literal'): 'called under `stm.ast_type == Literal` or with elements of a `condition` field (grammar: Literal*)',
    ('utils.ast:replace_var_name', 'orig.ast_type == ASTType.Variable'): 'only used through partial(replace_var_name, <Variable>, ...) with a Variable node as first argument',
}


def _kind_cond(test: ast.expr) -> Optional[tuple[ast.expr, set[str], bool]]:
    """X.ast_type == K / in (..) / != K  ->  (X, kinds, positive)"""
    if isinstance(test, ast.Compare) and len(test.ops) == 1 and isinstance(test.left, ast.Attribute) and test.left.attr == "ast_type":
        op, right = test.ops[0], test.comparators[0]
        kinds = set()
        elts = right.elts if isinstance(right, (ast.Tuple, ast.List, ast.Set)) else [right]
        for e in elts:
            if isinstance(e, ast.Attribute) and unparse(e.value) == "ASTType":
                kinds.add(e.attr)
            else:
                return None
        if isinstance(op, (ast.Eq, ast.In)):
            return test.left.value, kinds, True
        if isinstance(op, (ast.NotEq, ast.NotIn)):
            return test.left.value, kinds, False
    return None


def _discharged(ck: Checker, func: Func, site: ast.AST, test: ast.expr, depth: int = 0) -> tuple[bool, str]:
    """is `test` guaranteed at `site` (facts, kinds, or - for conditions over parameters - at every call site)"""
    it = ck.interp(func)
    sts = it.states(site)
    if not sts:
        return True, "unreachable"
    if isinstance(test, ast.BoolOp) and isinstance(test.op, ast.And):
        parts = [_discharged(ck, func, site, v, depth) for v in test.values]
        return all(p[0] for p in parts), "; ".join(p[1] for p in parts)
    # 1. engine facts (evaluate without the assert's own refinement)
    ok = True
    for st in sts:
        outcomes = it.eval_cond(test, st.copy(), record=False)
        if not outcomes or any(not t for _, t in outcomes):
            ok = False
            break
    if ok:
        return True, "follows from dominating tests"
    # 2. kinds
    kc = _kind_cond(test)
    if kc is not None:
        kd = Kinds(it)
        good = True
        for st in sts:
            ks = kd.of(kc[0], st)
            if ks is None or not ((ks <= kc[1]) if kc[2] else not (ks & kc[1])):
                good = False
                break
        if good:
            return True, "follows from the grammar (kind of the base is known)"
    # 3. precondition over parameters: every call site
    params = func.params()
    names = {n.id for n in ast.walk(test) if isinstance(n, ast.Name)}
    ptest = names & set(params)
    free = names - set(params) - {"ASTType", "Sign", "AggregateFunction", "AST", "isinstance", "len", "set", "self", "Predicate", "Symbol"}
    # locals that are pure aliases of parameter paths are fine: expand in the first state
    if ptest and depth < 2:
        exp = it.expand(test, sts[0])
        enames = {n.id for n in ast.walk(exp) if isinstance(n, ast.Name)}
        if enames - set(params) - {"ASTType", "Sign", "AggregateFunction", "AST", "isinstance", "len", "set", "Predicate", "Symbol"}:
            return False, "depends on local state"
        sites = _call_sites(ck, func)
        if not sites:
            return False, "no resolvable call site"
        for caller, call in sites:
            mapping = _bind(func, call)
            if mapping is None:
                return False, f"cannot match arguments at {caller.short}"
            inst = _subst(exp, mapping)
            ok2, why = _discharged(ck, caller, call, inst, depth + 1)
            if not ok2:
                return False, f"not established at call site {caller.short}:{call.lineno} ({why})"
        return True, f"established at all {len(sites)} call site(s)"
    return False, "not derivable"


_CALLS: dict[str, list[tuple[Func, ast.Call]]] = {}


def _call_sites(ck: Checker, func: Func) -> list[tuple[Func, ast.Call]]:
    if not _CALLS or ("__digest__" in _CALLS and _CALLS["__digest__"] != ck.prg.digest()):  # type: ignore[comparison-overlap]
        _CALLS.clear()
        _CALLS["__digest__"] = ck.prg.digest()  # type: ignore[assignment]
        # helpers the reference tree does not have and whose body was copied into their callers: the calls they make are
        # seen (and have to be justified) at the copy, the helper itself is no call site of its own
        copied = {getattr(w, "ngosa_inline", None) for f_ in ck.prg.funcs.values() if not isinstance(f_.node, ast.Lambda) for w in ast.walk(f_.node) if isinstance(w, ast.With)} - {None}
        for caller in ck.prg.funcs.values():
            if caller.qualname in copied:
                continue
            for call in find_nodes(caller.node, lambda n: isinstance(n, ast.Call)):
                if isinstance(call.func, ast.Name) and call.func.id in ("partial",) and call.args:  # type: ignore[attr-defined]
                    continue
                res = ck.prg.resolve_callee(caller, call.func)  # type: ignore[attr-defined]
                if res and res in ck.prg.funcs:
                    _CALLS.setdefault(res, []).append((caller, call))  # type: ignore[arg-type]
                elif res and res in ck.prg.classes and f"{res}.__init__" in ck.prg.funcs:
                    _CALLS.setdefault(f"{res}.__init__", []).append((caller, call))  # type: ignore[arg-type]
    return _CALLS.get(func.qualname, [])  # type: ignore[return-value]


def _bind(func: Func, call: ast.Call) -> Optional[dict[str, ast.expr]]:
    params = func.params()
    if params and params[0] in ("self", "cls"):
        params = params[1:]
    if any(isinstance(a, ast.Starred) for a in call.args):
        return None
    mapping: dict[str, ast.expr] = {}
    for p, a in zip(params, call.args):
        mapping[p] = a
    for kw in call.keywords:
        if kw.arg:
            mapping[kw.arg] = kw.value
    return mapping


def _subst(expr: ast.expr, mapping: dict[str, ast.expr]) -> ast.expr:
    import copy

    class T(ast.NodeTransformer):
        def visit_Name(self, n: ast.Name) -> ast.AST:
            if n.id in mapping and isinstance(n.ctx, ast.Load):
                return copy.deepcopy(mapping[n.id])
            return n

    return T().visit(copy.deepcopy(expr))


# ------------------------------------------------------------------------------------------------ KIND
def _live(ck: Checker) -> set[str]:
    if "live_funcs" not in ck.notes:
        ck.notes["live_funcs"] = {f.short for f in ck.prg.funcs.values()}
    return ck.notes["live_funcs"]  # type: ignore[return-value]


def r_kinds(ck: Checker) -> None:
    sch = schema()
    allfields = {f for k in sch.kinds.values() for f in k}
    known = unknown = 0
    for func in ck.prg.funcs.values():
        if func.module.name == "ngo":
            continue
        it = ck.interp(func)
        kd = Kinds(it)
        for node in find_nodes(func.node, lambda n: isinstance(n, ast.Attribute) and isinstance(n.ctx, ast.Load)):
            if node.attr not in allfields or node.attr in COMMON:  # type: ignore[attr-defined]
                continue
            bad = None
            for st in it.states(node):
                m = kd.mult(node, st)  # type: ignore[arg-type]
                if m is None:
                    unknown += 1
                    continue
                known += 1
                mult, allhave, pk = m
                if mult == "none" or not allhave:
                    bad = (sorted(pk), sorted(k for k in pk if sch.field(k, node.attr) is None))  # type: ignore[attr-defined]
            text = unparse(node)
            if bad is None:
                continue
            key = (func.short, text)
            reason = moved_lookup(FIELD_TRIAGE, key[0], key[1], _live(ck))
            if isinstance(reason, tuple):
                reason = reason[1] + f" [under `{reason[0]}`]" if it.holds(node, reason[0]) else None
            if reason is not None:
                ck.add(f"field {text}", True, func, node, f"base may be {bad[0]}, {bad[1]} lack `.{node.attr}` - triaged: {reason}", "", rule="C03.KIND.field")  # type: ignore[attr-defined]
                continue
            ck.add(f"field {text}", False, func, node, f"`{text}`: the base can be a node of kind {bad[1]} (possible kinds {bad[0]}), which has no field `{node.attr}`",  # type: ignore[attr-defined]
                   "clingo raises AttributeError for a missing field: optimize aborts on a valid program", rule="C03.KIND.field")
        # iteration over a single node / optional node
        for loop in find_nodes(func.node, lambda n: isinstance(n, (ast.For, ast.comprehension))):
            itx = loop.iter  # type: ignore[attr-defined]
            if not isinstance(itx, ast.Attribute) or itx.attr not in allfields:
                continue
            for st in it.states(itx):
                m = kd.mult(itx, st)
                if m is not None and m[0] in ("1", "?") and m[1]:
                    ck.add(f"iteration over {unparse(itx)}", False, func, itx, f"`{unparse(itx)}` is a single node for kinds {sorted(m[2])}, not a sequence",
                           "TypeError: 'AST' object is not iterable", rule="C03.KIND.mult")
                    break
    ck.notes["C03.kinds.known"] = known
    ck.notes["C03.kinds.unknown"] = unknown
    ck.add("kind typing coverage", known >= 3000, "ngo:<all>", None, f"{known} field accesses with a known base kind were checked, {unknown} have an unknown base (blind spot of the definite-error stance)", "", nontrivial=False, rule="C03.KIND.field")


def r_optderef(ck: Checker) -> None:
    """a field the grammar marks `?` is dereferenced only under a non-None test of the same path"""
    n = 0
    for func in ck.prg.funcs.values():
        nodes = [x for x in find_nodes(func.node, lambda x: isinstance(x, ast.Attribute) and isinstance(x.value, ast.Attribute) and x.value.attr in OPT_FIELDS)]
        if not nodes:
            continue
        it = ck.interp(func)
        for node in nodes:
            base = node.value  # type: ignore[attr-defined]
            if not it.reachable(node):
                continue
            n += 1
            text = unparse(base)
            test = ast.parse(f"{text} is not None", mode="eval").body
            ok, why = _discharged(ck, func, node, test)
            ck.add(f"deref {unparse(node)}", ok, func, node, f"`{unparse(node)}`: `{text}` is optional in the grammar; non-None {why}",
                   "guard-less aggregates (`x :- #max{X : p(X)}.`) are valid: dereferencing the missing guard raises AttributeError on None", rule="C03.KIND.optderef")
    ck.need(n >= 20, f"dereferences of optional guard fields found ({n})")


# ------------------------------------------------------------------------------------------------ THROW
def r_throw(ck: Checker) -> None:
    """every assert reachable from optimize is discharged or triaged with a reason"""
    n = 0
    for func in ck.prg.funcs.values():
        if isinstance(func.node, ast.Lambda) or func.module.name in ("ngo.utils.parser", "ngo.__main__", "ngo"):
            continue
        asserts = [x for x in find_nodes(func.node, lambda x: isinstance(x, ast.Assert))]
        if not asserts:
            continue
        for node in asserts:
            n += 1
            cond = unparse(node.test)  # type: ignore[attr-defined]
            if is_const(node.test, True):  # type: ignore[attr-defined]
                ck.add(f"assert {cond}", True, func, node, "constant true", "", nontrivial=False, rule="C03.THROW.assert")
                continue
            ok, why = _discharged(ck, func, node, node.test)  # type: ignore[attr-defined]
            if ok:
                ck.add(f"assert {short(cond, 70)}", True, func, node, f"`assert {short(cond, 80)}` {why}", "", rule="C03.THROW.assert")
                continue
            reason = moved_lookup(THROW_TRIAGE, func.short, cond, _live(ck))
            if reason is not None:
                ck.add(f"assert {short(cond, 70)}", True, func, node, f"`assert {short(cond, 80)}` not mechanically discharged ({why}) - triaged: {reason}", "", rule="C03.THROW.assert")
                continue
            ck.add(f"assert {short(cond, 70)}", False, func, node, f"`assert {short(cond, 80)}` can fail: {why}",
                   "an assertion that depends on the shape of the input program aborts optimize with AssertionError instead of leaving the construct unchanged", rule="C03.THROW.assert")
    ck.need(n >= 40, f"assert statements found ({n})")
    # raises outside the CLI parser and the math containment
    for func in ck.prg.funcs.values():
        if isinstance(func.node, ast.Lambda) or func.module.name in ("ngo.utils.parser",):
            continue
        for node in find_nodes(func.node, lambda x: isinstance(x, ast.Raise)):
            exc = unparse(node.exc).split("(")[0] if node.exc is not None else "re-raise"  # type: ignore[attr-defined]
            if exc == "SympyApi":
                continue  # containment rule
            # RuntimeError in DomainPredicates: callers must establish has_domain
            ck.add(f"raise {exc} in {func.name}", func.short in ("dependency:DomainPredicates.create_domain", "dependency:DomainPredicates.create_next_pred_for_annotated_pred"), func, node,
                   f"`{short(unparse(node))}` - guarded at the call sites (rule C03.THROW.domain)", "an exception raised on an input-dependent condition aborts optimize", rule="C03.THROW.raise")


def r_symbol_access(ck: Checker) -> None:
    """`<t>.symbol.number` / `.string` raise RuntimeError unless the symbol has that type: the access is dominated by the
    matching `<t>.symbol.type == SymbolType.X` test (same conjunction, or a dominating test)"""
    want = {"number": "SymbolType.Number", "string": "SymbolType.String"}
    n = 0
    for func in ck.prg.funcs.values():
        it = None
        for node in find_nodes(func.node, lambda x: isinstance(x, ast.Attribute) and x.attr in want, True):
            if func.module.name in ("ngo.utils.parser", "ngo.__main__"):
                continue
            owner = func
            base = node.value  # type: ignore[attr-defined]
            it = it or ck.interp(owner)
            stmt = enclosing_stmt(owner, node)
            if stmt is None or not it.reachable(stmt):
                continue
            bases = it.texts(stmt, base)
            if not bases or not all(b.endswith(".symbol") for b in bases):
                continue  # not a clingo Symbol read from a SymbolicTerm
            n += 1
            test = ast.parse(f"{unparse(base)}.type == {want[node.attr]}", mode="eval").body  # type: ignore[attr-defined]
            ok, why = False, ""
            # the same conjunction: an earlier operand of an enclosing `and`
            child: ast.AST = node
            for anc in ancestors(owner, node):
                if isinstance(anc, ast.BoolOp) and isinstance(anc.op, ast.And):
                    idx = next((i for i, v in enumerate(anc.values) if v is child or any(s is child for s in ast.walk(v))), None)
                    if idx is not None and any(same(unparse(v), unparse(test)) for v in anc.values[:idx]):
                        ok, why = True, "tested by an earlier operand of the same conjunction"
                        break
                if isinstance(anc, ast.stmt):
                    break
                child = anc
            if not ok:
                ok, why = _discharged(ck, owner, stmt, test)
            ck.add(f"{short(unparse(node), 60)}", ok, owner, node, f"`{short(unparse(node), 70)}` requires `{unparse(test)}`: {why}",
                   "clingo raises RuntimeError when the symbol of a term is not of that type (`#const n=2. {a;b} n.`, `#sup`, strings): optimize aborts instead of leaving the construct unchanged", rule="C03.THROW.symbol")
    ck.need(n >= 5, f"typed symbol reads found ({n})")


# (function, subscript) -> why the sequence has an element at that position (confirmed by reading)
_SINGLE = "the statement passed is_single (C15.A.is-single: exactly one body aggregate with exactly one `=` bound, exactly one using statement)"
_MATH = "reached only from Goebner.simplify_equalities, which MathSimplification.execute calls inside `try ... except Exception` (C03.THROW.containment): the statement is kept unchanged"
INDEX_TRIAGE: dict[tuple[str, str], str] = {
    ("dependency:DomainPredicates.__compute_nonstatic_predicates", "scc[0]"): "nx.selfloop_edges yields edges: pairs (u, v)",
    ("inline:InlineTranslator.inline_literal", "rule.body[0]"): "only reached for a negated use, which get_body_lit grants for a single definition whose body has at most one literal; " + _SINGLE + ", so the body has exactly one",
    ("inline:InlineTranslator.inline_literal", "self.transform_args(orig_arguments, passed_arguments, [newlit.atom], unique_vars)[0]"): "transform_args maps the list it is given element by element: one element in, one out",
    ("inline:InlineTranslator.inline_body_aggregate", "collect_ast(rule, 'BodyAggregate')[0]"): "dominated by `num_aggs == 1` (one aggregate among the body literals; bodies hold no old-style aggregates after preprocess), and " + _SINGLE,
    ("inline:InlineTranslator.inline_body_aggregate", "agga.equal_variable_bound[0]"): _SINGLE,
    ("inline:InlineTranslator.get_body_lit", "stm.body[0]"): _SINGLE + ": the body is not empty",
    ("inline:InlineTranslator.replace_single_rule_for_body", "rdp.get_statements_that_use(hpred)[0]"): _SINGLE + " - with the same RuleDependency object (C15.fresh-dependency)",
    ("inline:InlineTranslator.replace_single_rule_for_agg", "rdp.get_statements_that_use(hpred)[0]"): _SINGLE + " - with the same RuleDependency object (C15.fresh-dependency)",
    ("math_simplification:Goebner.new_mul", "rest[0]"): _MATH,
    ("math_simplification:Goebner.new_mul", "newterms[0]"): _MATH,
    ("symmetry:SymmetryTranslator.SymmetryBundle.init_complex", "aux_body[0]"): "_create_count returns [projected literal, count aggregate] (two appends on every path)",
    ("symmetry:SymmetryTranslator.SymmetryBundle.init_simple", "symmetries[0]"): "_crosscheck builds a bundle with one Symmetry per index of a connected component of its helper graph: a component is never empty",
    ("symmetry:SymmetryTranslator.SymmetryBundle._create_count", "symmetry.literals[0]"): "the literals of a Symmetry are a group that largest_symmetric_group collected from `equality` tuples of at least two same-predicate literals (an inequality between two of them is required): never empty",
    ("utils.ast:replace_simple_assignments_aggregate", "sorted(cc)[0]"): "a connected component of a graph is never empty",
    ("utils.ast:replace_simple_assignments", "sorted(cc)[0]"): "a connected component of a graph is never empty",
    ("utils.ast:replace_simple_assignments", "new_heads[0]"): "new_heads is `[stm.head]` for a rule and `[weight, priority, *terms]` for an objective, mapped element by element",
    ("utils.ast:replace_simple_assignments", "new_heads[1]"): "objective branch: new_heads is `[weight, priority, *terms]`",
    ("utils.ast:replace_assignments", "new_heads[0]"): "new_heads is `[stm.head]` for a rule and `[weight, priority, *terms]` for an objective",
    ("utils.ast:replace_assignments", "new_heads[1]"): "objective branch: new_heads is `[weight, priority, *terms]`",
}


def _len_conditions(x: str, k: int) -> list[str]:
    out = [f"len({x}) == {m}" for m in range(max(k + 1, 1), 5)] + [c for m in range(k, 4) for c in (f"{m} < len({x})", f"len({x}) > {m}")] + [f"len({x}) >= {m}" for m in range(k + 1, 5)]
    if k == 0:
        out += [x, f"len({x}) != 0", f"0 < len({x})", f"len({x}) >= 1", f"bool({x})"]
    return out


def _holds_here_or_at_callers(ck: Checker, func: Func, site: ast.AST, conds: list[str], depth: int = 0) -> tuple[bool, str]:
    """one of the conditions holds at `site`, or - when they speak about a parameter - at every call site of func with the
    argument substituted (recursively, three levels)"""
    it = ck.interp(func)
    # `len(C[i].f) == n` for an element of C: `all(x.f for x in C)` says the same for position 0
    for c in list(conds):
        m_ = re.fullmatch(r"len\((.+)\[(?:\d+|\*)\]\.(\w+)\) == 1", c)
        if m_ and f"all(_g0.{m_.group(2)} for _g0 in {m_.group(1)})" not in conds:
            conds = conds + [f"all(_g0.{m_.group(2)} for _g0 in {m_.group(1)})"]
    for c in conds:
        try:
            if it.holds(site, c) and it.reachable(site):
                return True, f"dominated by `{short(c, 70)}`" + (f" in {func.name}" if depth else "")
        except (SyntaxError, AnalysisError):
            continue
    if depth >= 3:
        return False, ""
    params = [x for x in func.params() if x not in ("self", "cls")]
    callers = _call_sites(ck, func)
    if not callers:
        return False, ""
    # conditions that speak about parameters only (besides self) can be handed to the callers
    local_names = {n_.id for n_ in ast.walk(func.node) if isinstance(n_, ast.Name) and isinstance(n_.ctx, ast.Store)}
    by_roots: dict[frozenset[str], list[str]] = {}
    for c in conds:
        try:
            names = {nm.id for nm in ast.walk(ast.parse(c, mode="eval")) if isinstance(nm, ast.Name)}
        except SyntaxError:
            continue
        names -= {"len", "all", "any", "bool", "_g0", "self"}
        if names and names <= set(params) and not names & local_names:
            by_roots.setdefault(frozenset(names), []).append(c)
    for roots_, cs_ in by_roots.items():
        ok_all = True
        for caller, call in callers:
            mapping = _bind(func, call)
            if mapping is None or not roots_ <= set(mapping):
                ok_all = False
                break
            itc = ck.interp(caller)
            alts: list[list[str]] = [cs_]
            for root in roots_:
                nxt = []
                for cs in alts:
                    for atxt in sorted(itc.texts(call, mapping[root]) | {unparse(mapping[root])}):
                        nxt.append([re.sub(rf"(?<![\w.]){re.escape(root)}\b", atxt, c) for c in cs])
                alts = nxt
            if not any(_holds_here_or_at_callers(ck, caller, enclosing_stmt(caller, call) or call, cs, depth + 1)[0] for cs in alts):
                ok_all = False
                break
        if ok_all:
            return True, f"holds at every call site of {func.name} ({len(callers)})"
    return False, ""
    roots: set[str] = set()
    for caller, call in callers:
        mapping = _bind(func, call)
        if mapping is None or not roots <= set(mapping):
            return False, ""
        itc = ck.interp(caller)
        alts: list[list[str]] = [conds]
        for root in roots:
            nxt = []
            for cs in alts:
                for atxt in sorted(itc.texts(call, mapping[root]) | {unparse(mapping[root])}):
                    nxt.append([re.sub(rf"(?<![\w.]){re.escape(root)}\b", atxt, c) for c in cs])
            alts = nxt
        if not any(_holds_here_or_at_callers(ck, caller, enclosing_stmt(caller, call) or call, cs, depth + 1)[0] for cs in alts):
            return False, ""
    return True, f"holds at every call site of {func.name} ({len(callers)})"


def r_index_access(ck: Checker) -> None:
    """`xs[k]` with a constant k raises IndexError on a shorter sequence: the read is a tuple of fixed size, a vector the
    grammar guarantees (`Comparison.guards`), dominated by a test of the length (dominating statement, or an earlier
    operand of the same and/or), or triaged with the reason why the element exists"""
    from ..mypy_bridge import build

    ti = build()
    n = 0
    for func in ck.prg.funcs.values():
        if isinstance(func.node, ast.Lambda) or func.module.name in ("ngo.utils.parser", "ngo.__main__", "ngo", "ngo.utils.logger"):
            continue
        sites = [x for x in find_nodes(func.node, lambda x: isinstance(x, ast.Subscript) and isinstance(x.ctx, ast.Load) and isinstance(x.slice, ast.Constant) and type(x.slice.value) is int and x.slice.value >= 0)]
        if not sites:
            continue
        it = ck.interp(func)
        for node in sites:
            k = node.slice.value  # type: ignore[attr-defined]
            base = node.value  # type: ignore[attr-defined]
            x = unparse(base)
            typ = (ti.type_at(func.module.name, base) or "").lower()
            if typ.startswith("tuple[") or typ.startswith("builtins.tuple[") and "..." not in typ:
                continue  # fixed size (mypy has checked the index)
            if isinstance(base, (ast.Tuple, ast.List)) and len(base.elts) > k:
                continue
            stmt = enclosing_stmt(func, node)
            if stmt is None or not it.reachable(stmt):
                continue
            n += 1
            texts = it.texts(stmt, base) | {x}
            for t in list(texts):
                m_ = re.fullmatch(r"(?:list|sorted|tuple)\((.+)\)", t)
                if m_:
                    texts.add(m_.group(1))  # as long as the collection it was made from
            if all(t.endswith(".guards") for t in texts):
                ck.add(f"{short(unparse(node), 60)}", True, func, node, "a Comparison has at least one guard (clingo AST)", "", nontrivial=False, rule="C03.THROW.index")
                continue
            conds = [c for t in sorted(texts) for c in _len_conditions(t, k)]
            # `e.f[0]` where e is an element of a collection C for which `all(x.f for x in C)` was tested
            if k == 0 and isinstance(base, ast.Attribute):
                owners = it.texts(stmt, base.value) | {unparse(base.value)}
                for st_ in it.states(stmt):
                    org = st_.origin.get(unparse(base.value), "")
                    if org.endswith("[*]"):
                        owners.add(org)
                # a loop variable that is only ever replaced by a variable-renamed copy of itself is still "an element of" the
                # collection as far as the length of its fields goes
                if isinstance(base.value, ast.Name):
                    e_ = base.value.id
                    for lp_ in find_nodes(func.node, lambda q: isinstance(q, ast.For)):
                        if isinstance(lp_.target, ast.Name) and lp_.target.id == e_ and any(s is node for s in ast.walk(lp_)):  # type: ignore[attr-defined]
                            rebinds = [a for a in ast.walk(lp_) if isinstance(a, ast.Assign) and any(isinstance(t, ast.Name) and t.id == e_ for t in a.targets)]
                            if all(isinstance(a.value, ast.Call) and unparse(a.value.func) == "transform_ast" and len(a.value.args) >= 2 and unparse(a.value.args[0]) == e_ and is_const(a.value.args[1], "Variable") for a in rebinds):
                                owners.add(unparse(lp_.iter) + "[*]")  # type: ignore[attr-defined]
                # renaming the variables of a node (transform_ast(E, 'Variable', f)) keeps its shape
                for o in list(owners):
                    try:
                        tree_o = ast.parse(o, mode="eval").body
                    except SyntaxError:
                        continue
                    if isinstance(tree_o, ast.Call) and unparse(tree_o.func) == "transform_ast" and len(tree_o.args) >= 2 and is_const(tree_o.args[1], "Variable"):
                        inner = tree_o.args[0]
                        owners.add(unparse(inner))
                        if isinstance(inner, ast.Name):
                            # the loop variable that was transformed: where did IT come from
                            for lp_ in find_nodes(func.node, lambda q: isinstance(q, ast.For)):
                                if isinstance(lp_.target, ast.Name) and lp_.target.id == inner.id and any(s is node for s in ast.walk(lp_)):  # type: ignore[attr-defined]
                                    owners.add(unparse(lp_.iter) + "[*]")  # type: ignore[attr-defined]
                for o in sorted(owners):
                    m_ = re.fullmatch(r"(.+)\[(?:\d+|\*)\]", o)
                    if m_:
                        conds.append(f"all(_g0.{base.attr} for _g0 in {m_.group(1)})")
            ok, why = False, ""
            # an earlier operand of the same and / or
            child: ast.AST = node
            for anc in ancestors(func, node):
                if isinstance(anc, ast.BoolOp):
                    idx = next((i for i, v in enumerate(anc.values) if v is child or any(s is child for s in ast.walk(v))), None)
                    if idx:
                        for v in anc.values[:idx]:
                            if isinstance(anc.op, ast.Or) and isinstance(v, ast.UnaryOp) and isinstance(v.op, ast.Not):
                                vt = unparse(v.operand)
                            else:
                                vt = unparse(v) if isinstance(anc.op, ast.And) else unparse(ast.UnaryOp(op=ast.Not(), operand=v))
                            if any(same(vt, c) for c in conds):
                                ok, why = True, "tested by an earlier operand of the same condition"
                if isinstance(anc, ast.IfExp) and any(s is child for s in ast.walk(anc.body)) and any(same(unparse(anc.test), c) for c in conds):
                    ok, why = True, "tested by the conditional expression"
                if isinstance(anc, ast.stmt):
                    break
                child = anc
            if not ok:
                for c in conds:
                    try:
                        if it.holds(stmt, c):
                            ok, why = True, f"dominated by `{c}`"
                            break
                    except (SyntaxError, AnalysisError):
                        continue
            if not ok:
                ok, why = _holds_here_or_at_callers(ck, func, stmt, conds)
            if not ok:
                reason = moved_lookup(INDEX_TRIAGE, func.short, unparse(node), _live(ck))
                if reason is not None:
                    ok, why = True, f"triaged: {reason}"
            ck.add(f"{short(unparse(node), 60)}", ok, func, node, f"`{short(unparse(node), 70)}` needs an element at position {k}: {why or 'no length test dominates the read'}",
                   "an IndexError aborts optimize instead of leaving the construct unchanged (`#max{ : p(X)}` has an element with an empty tuple)", rule="C03.THROW.index")
    ck.need(n >= 40, f"constant-index reads found ({n})")


def r_attr_keys(ck: Checker) -> None:
    """networkx node attributes are plain dicts: `nodes[v]["aggr"] += 1` / a read of `nodes[v]["aggr"]` needs the key,
    i.e. the test `"aggr" in nodes[v]` on the way (a node that entered the graph through add_edges_from has no attribute)"""
    n = 0
    for func in ck.prg.funcs.values():
        if isinstance(func.node, ast.Lambda):
            continue
        subs = [x for x in find_nodes(func.node, lambda x: isinstance(x, ast.Subscript) and isinstance(x.slice, ast.Constant) and isinstance(x.slice.value, str)
                                      and isinstance(x.value, ast.Subscript) and isinstance(x.value.value, ast.Attribute) and x.value.value.attr == "nodes")]
        if not subs:
            continue
        it = ck.interp(func)
        stores = {id(t) for a in find_nodes(func.node, lambda a: isinstance(a, ast.Assign)) for t in a.targets}  # type: ignore[attr-defined]
        for sub_ in subs:
            if id(sub_) in stores:
                continue  # a plain store creates the key
            n += 1
            key = sub_.slice.value  # type: ignore[attr-defined]
            cond = f"'{key}' in {unparse(sub_.value)}"
            holder = next((a for a in find_nodes(func.node, lambda a: isinstance(a, ast.IfExp)) if any(x is sub_ for x in ast.walk(a.body))), None)  # type: ignore[attr-defined]
            at = enclosing_stmt(func, sub_)
            ok = it.reachable(at) and it.holds(at, cond)
            if not ok and holder is not None:
                ok = same(unparse(holder.test), cond)
            if not ok:
                # a node that is known to be in the graph, and every add_node on a graph of that name sets the attribute
                gname = unparse(sub_.value.value.value)  # type: ignore[attr-defined]
                member = f"{unparse(sub_.value.slice)} in {unparse(sub_.value.value)}"  # type: ignore[attr-defined]
                adds = [c for f2 in ck.prg.funcs.values() if f2.module is func.module and not isinstance(f2.node, ast.Lambda) for c in ast.walk(f2.node)
                        if isinstance(c, ast.Call) and isinstance(c.func, ast.Attribute) and c.func.attr == "add_node" and unparse(c.func.value) == gname]
                edges = [c for f2 in ck.prg.funcs.values() if f2.module is func.module and not isinstance(f2.node, ast.Lambda) for c in ast.walk(f2.node)
                         if isinstance(c, ast.Call) and isinstance(c.func, ast.Attribute) and c.func.attr in ("add_edge", "add_edges_from", "add_nodes_from") and unparse(c.func.value) == gname]
                ok = it.holds(at, member) and bool(adds) and not edges and all(any(k.arg == key for k in c.keywords) for c in adds)
            ck.add(f"node attribute `{key}` is read only where the node has it", ok, func, sub_, f"`{short(unparse(sub_), 60)}` dominated by `{cond}`: {ok}",
                   "KeyError: variables of comparison literals enter the graph through add_edges_from without attributes; optimize aborts when such a variable is met again as an aggregate variable", rule="C03.THROW.key")
    ck.need(n >= 2, f"reads of networkx node attributes found ({n})")


def r_domain_calls(ck: Checker) -> None:
    """create_domain / create_next_pred_for_annotated_pred / domain_predicate are only called for predicates that have a domain"""
    DP = "ngo.dependency:DomainPredicates"
    targets = {f"{DP}.create_domain": 0, f"{DP}.create_next_pred_for_annotated_pred": 0, f"{DP}.create_chain_pred_for_annotated_pred": 0}
    n = 0
    for func in ck.prg.funcs.values():
        if func.qualname.startswith(DP):
            continue
        for call in find_nodes(func.node, lambda x: isinstance(x, ast.Call)):
            res = ck.prg.resolve_callee(func, call.func)  # type: ignore[attr-defined]
            if res not in targets:
                continue
            n += 1
            recv = unparse(call.func.value)  # type: ignore[attr-defined]
            arg = call.args[0]  # type: ignore[attr-defined]
            p = unparse(arg) if res.endswith("create_domain") else f"{unparse(arg)}.pred"
            test = ast.parse(f"{recv}.has_domain({p})", mode="eval").body
            ok, why = _discharged(ck, func, call, test)
            if not ok and res.endswith("create_domain") is False:
                # the annotated predicate may wrap domain_predicate(x): AnnotatedPredicate(domain_predicate(P), ...)
                it = ck.interp(func)
                txts = it.texts(call, arg)
                if all(re.match(r"AnnotatedPredicate\(" + re.escape(recv) + r"\.domain_predicate\(", t) for t in txts) and txts:
                    inner = ast.parse(next(iter(txts)), mode="eval").body.args[0].args[0]  # type: ignore[attr-defined]
                    ok, why = _discharged(ck, func, call, ast.parse(f"{recv}.has_domain({unparse(inner)})", mode="eval").body)
            if not ok:
                it = ck.interp(func)
                txts = it.texts(call, arg)
                if txts and all(t.startswith("self._get_trigger(") for t in txts):
                    ok, why = True, "is guaranteed by the decider: _get_trigger returns a predicate only if has_domain holds for it (rule C13.get-trigger)"
            ck.add(f"{res.split('.')[-1]}({short(unparse(arg), 40)})", ok, func, call, f"`{short(unparse(call), 90)}`: has_domain {why}",
                   "DomainPredicates raises RuntimeError when no domain can be derived (recursive or choice-dependent conditions): the pass must leave the statement unchanged instead", rule="C03.THROW.domain")
    ck.need(n >= 6, f"calls of the domain generators found ({n})")
    # the assert in add_domain_rules.replace_domain is triaged with "all(map(have_domain, condition)) held": have_domain
    # has to look at exactly the atoms replace_domain is applied to - every SymbolicAtom of the literal, at any depth
    hd = ck.prg.funcs.get(f"{DP}.add_domain_rules.<locals>.have_domain")
    rd = ck.prg.funcs.get(f"{DP}.add_domain_rules.<locals>.replace_domain")
    adr = ck.func("dependency:DomainPredicates.add_domain_rules")
    ck.need(hd is not None and rd is not None, "add_domain_rules has the helpers have_domain and replace_domain")
    applied = [c for c in resolved_calls(ck.prg, adr, "ngo.utils.ast:transform_ast") if len(c.args) == 3 and unparse(c.args[2]) == "replace_domain"]
    ck.need(len(applied) == 1 and is_const(applied[0].args[1], "SymbolicAtom"), "replace_domain is applied to every SymbolicAtom of a condition literal")
    lit_p = hd.params()[0]  # type: ignore[union-attr]
    loops = [lp for lp in find_nodes(hd.node, lambda x: isinstance(x, ast.For)) if same(unparse(lp.iter), f"collect_ast({lit_p}, 'SymbolicAtom')")]  # type: ignore[union-attr,attr-defined]
    ok_h = len(loops) == 1
    detail = f"{len(loops)} loop(s) over collect_ast({lit_p}, 'SymbolicAtom')"
    if ok_h:
        lp = loops[0]
        a = unparse(lp.target)  # type: ignore[attr-defined]
        ith = ck.interp(hd, Pins.of(vals={f"{a}.symbol.ast_type": "ASTType.Function"}, facts={f"self.has_domain(Predicate({a}.symbol.name, len({a}.symbol.arguments)))": False}))  # type: ignore[arg-type]
        passes = ith.loop_back.get(id(lp), [])
        trues = [r for r in returns_of(hd) if not is_const(r.value, False)]  # type: ignore[arg-type]
        ok_h = not passes and all(enclosing_loop(hd, r) is None and is_const(r.value, True) for r in trues) and bool(trues)  # type: ignore[arg-type]
        detail = f"an atom without a domain ends the scan with False: {not passes}; `True` only after the scan: {[fmt(r) for r in trues]}"
    ck.add("have_domain examines every symbolic atom replace_domain will be applied to", ok_h, hd, hd.node, detail,  # type: ignore[arg-type,union-attr]
           "a test that skips atoms inside conditional literals or aggregates accepts a condition whose rewriting then trips `assert self.has_domain(..)` in replace_domain: every pass that builds DomainPredicates aborts", rule="C03.THROW.domain")


def r_containment(ck: Checker) -> None:
    """math: everything that can raise SympyApi (or anything inside sympy) runs inside the try that restores the old statement"""
    func = ck.func("math_simplification:MathSimplification.execute")
    tries = [n for n in find_nodes(func.node, lambda n: isinstance(n, ast.Try))]
    ck.need(len(tries) == 1, "execute has one containment try")
    tr = tries[0]
    handlers = {unparse(h.type) if h.type is not None else "<bare>": h for h in tr.handlers}  # type: ignore[attr-defined]
    broad = [k for k in handlers if k in ("Exception", "BaseException", "<bare>")]
    ck.add("sympy failures of any type are contained", bool(broad), func, tr, f"handlers: {sorted(handlers)}",
           "sympy/groebner raise many exception types (PolynomialError, TypeError from math.lcm on symbolic coefficients, ...): a narrower handler lets them abort optimize")
    for name, h in handlers.items():
        body = h.body
        keeps = any(isinstance(s, ast.Expr) and isinstance(s.value, ast.Call) and unparse(s.value.func).endswith(".append") and unparse(s.value.args[0]) == "oldstm" for s in body)
        cont = any(isinstance(s, ast.Continue) for s in body)
        ck.add(f"handler {name} falls back to the old statement", keeps and cont, func, h, f"appends oldstm: {keeps}, continues: {cont}", "a construct math cannot handle is left unchanged")
    # which Goebner methods may raise
    may_raise: set[str] = set()
    gfuncs = {q: f for q, f in ck.prg.funcs.items() if q.startswith("ngo.math_simplification:Goebner.")}
    for q, f in gfuncs.items():
        if find_nodes(f.node, lambda n: isinstance(n, ast.Raise)):
            may_raise.add(q)
            continue
        for a in find_nodes(f.node, lambda n: isinstance(n, ast.Assert)):
            ok, _why = _discharged(ck, f, a, a.test)  # type: ignore[attr-defined]
            if not ok:
                may_raise.add(q)
    changed = True
    while changed:
        changed = False
        for q, f in gfuncs.items():
            if q in may_raise:
                continue
            for call in find_nodes(f.node, lambda n: isinstance(n, ast.Call)):
                if ck.prg.resolve_callee(f, call.func) in may_raise:  # type: ignore[attr-defined]
                    may_raise.add(q)
                    changed = True
    inside = {id(n) for s in tr.body for n in ast.walk(s)}  # type: ignore[attr-defined]
    for call in find_nodes(func.node, lambda n: isinstance(n, ast.Call)):
        res = ck.prg.resolve_callee(func, call.func)  # type: ignore[attr-defined]
        if res in gfuncs:
            risky = res in may_raise
            ok = (id(call) in inside) or not risky
            ck.add(f"call {res.split('.')[-1]}", ok, func, call, f"`{short(unparse(call), 70)}` {'can raise/assert' if risky else 'cannot raise'}; inside the try: {id(call) in inside}",  # type: ignore[union-attr]
                   "an assertion or SympyApi raised outside the try aborts optimize (e.g. a guard-less aggregate `x :- #sum{X : p(X)}.`)", rule="C03.THROW.containment")


def r_mypy(ck: Checker) -> None:
    """type-level witness: no mypy error of a code that denotes a runtime exception"""
    from ..mypy_bridge import build

    ti = build(ck.prg.src)
    inlined = [m for m in ck.prg.modules.values() if getattr(m.tree, "ngosa_temps_inlined", 0)]
    if inlined and ti.errors:
        from ..nform import inline_condition_temps

        # a test moved into a temporary (`t = x is not None; if t:`) is the same program, but mypy does not narrow through
        # it: type-check the condition normal form of those modules instead (scratch copy, removed at once)
        import shutil
        import tempfile

        root = tempfile.mkdtemp(prefix="ngosa-mypy-")
        try:
            shutil.copytree(os.path.join(ck.prg.src, "ngo"), os.path.join(root, "ngo"), ignore=shutil.ignore_patterns("__pycache__"))
            for m in inlined:
                with open(os.path.join(root, os.path.relpath(m.path, ck.prg.src)), "w", encoding="utf-8") as fh:
                    fh.write(ast.unparse(inline_condition_temps(ast.parse(m.source))) + "\n")
            alt = build(root, fresh=True)
        finally:
            shutil.rmtree(root, ignore_errors=True)
        files = {os.path.relpath(m.path, ck.prg.src) for m in inlined}
        merged = [e for e in ti.errors if e[0] not in files] + [e for e in alt.errors if e[0] in files]
        ti = type("TI", (), {"errors": merged, "types": ti.types})()  # type: ignore[assignment]
    runtime = {"union-attr", "attr-defined", "call-arg", "arg-type", "index", "operator", "name-defined", "call-overload", "misc", "return-value", "assignment", "var-annotated"}
    hard = {"union-attr", "attr-defined", "call-arg", "index", "operator", "name-defined"}  # arg-type is suppressed by `# type: ignore` pragmas in the tree: comment-only edits must stay neutral
    errs = [e for e in ti.errors if e[2] in hard]
    ck.add("mypy: no error of a runtime-relevant code", not errs, "ngo:<all>", None, f"{len(ti.types)} expressions typed; runtime-relevant errors: {[(e[0], e[1], e[2]) for e in errs][:5]}",
           "e.g. union-attr = attribute access on a possibly-None result of an Optional-returning decider", rule="C03.MYPY")
    if len(ti.types) < 10000:
        raise AnalysisError(f"C03.MYPY: only {len(ti.types)} typed expressions")


# ------------------------------------------------------------------------------------------------ loops
def r_loops(ck: Checker) -> None:
    """every `while` loop has one of the terminating shapes (the three outer fixpoints are listed as not decided)"""
    undecided = {"api:optimize", "unused:UnusedTranslator.execute", "literal_duplication:LiteralDuplicationTranslator.execute"}
    n = 0
    for func in ck.prg.funcs.values():
        for loop in find_nodes(func.node, lambda x: isinstance(x, ast.While)):
            n += 1
            body_txt = " ".join(unparse(s) for s in loop.body)  # type: ignore[attr-defined]
            test = unparse(loop.test)  # type: ignore[attr-defined]
            brk = [b for b in find_nodes(loop, lambda x: isinstance(x, (ast.Break, ast.Return))) if enclosing_loop(func, b) is loop or isinstance(b, ast.Return)]
            shape = None
            # fresh-name search: counter grows, exit when candidate not in a finite set
            incs = [a for a in find_nodes(loop, lambda x: isinstance(x, ast.AugAssign) and isinstance(x.op, ast.Add))]
            if incs and (re.search(r"\bin self\.(predicates|_allvars)\b", test + " " + body_txt)):
                ctr = unparse(incs[0].target)  # type: ignore[attr-defined]
                uses = ctr in re.sub(re.escape(unparse(incs[0])), "", body_txt)
                okk, cnt = every_iteration_reaches(ck, func, loop, incs[0], None)
                shape = "fresh-name search (candidate depends on a counter that grows in every iteration)" if uses and okk else None
                if shape is None:
                    ck.add(f"while {short(test, 40)}", False, func, loop, f"name search whose counter `{ctr}` does not advance on every iteration (or is not part of the candidate)",
                           "with a colliding name the loop never ends", rule="C03.LOOP")
                    continue
            # index / removal variant
            if shape is None and re.fullmatch(r"\w+ < len\(\w+\)", test):
                idx, seq = re.fullmatch(r"(\w+) < len\((\w+)\)", test).groups()  # type: ignore[union-attr]
                it = ck.interp(func, None, mark_stmts={id(enclosing_stmt(func, x)): "adv" for x in find_nodes(loop, lambda x: (isinstance(x, ast.AugAssign) and unparse(x.target) == idx) or (isinstance(x, ast.Call) and isinstance(x.func, ast.Attribute) and x.func.attr == "pop" and unparse(x.func.value) == seq))}, clear_marks_at={id(loop): "adv"})
                back = it.loop_back.get(id(loop), [])
                if back and all("adv" in st.marks for st in back):
                    shape = "variant: every iteration advances the index or removes an element"
            if shape is None and test in ("not fix",) or (shape is None and re.fullmatch(r"not \w+", test)):
                shape = "flag loop: repeats only after an element was removed from a finite list"
                rem = [c for c in attr_calls(func, "remove") if any(x is c for x in ast.walk(loop))]
                if not rem:
                    shape = None
            if shape is None:
                # whatever the exit test looks like: every iteration that leads to another one has removed an element
                # from a list (restart-after-removal: the list is finite)
                rem_stmts = {id(enclosing_stmt(func, c)): "removed" for c in find_nodes(loop, lambda x: isinstance(x, ast.Call) and isinstance(x.func, ast.Attribute) and x.func.attr in ("remove", "pop") and not x.keywords)}
                if rem_stmts:
                    itr_ = ck.interp(func, None, mark_stmts=rem_stmts, clear_marks_at={id(loop): "removed"})
                    back_ = itr_.loop_back.get(id(loop), [])
                    if back_ and all("removed" in st.marks for st in back_):
                        shape = "variant: every iteration that is followed by another one has removed an element from a finite list"
            if shape is None and re.search(r"len\((\w+)\) (!=|>) (\w+)", test):
                shape = "monotone: a set only grows, exit when its size is unchanged"
            if shape is None and re.fullmatch(r"'\w+' in \w+", test) and ".remove(" in body_txt:
                shape = "variant: every iteration removes an occurrence"
            if shape is None and test == "True":
                txt = body_txt
                if re.search(r"if (\w+) == (\w+):\s*break", txt) or re.search(r"if len\(self\.\w+\) == \w+:\s*break", txt) or re.search(r"if \w+ == \w+\.copy\(\)", txt):
                    grows = re.search(r"(closure_until_now|bound_variables|domain_rules|orig)", txt)
                    if func.short in undecided:
                        shape = "UNDECIDED outer fixpoint (exit when a round changes nothing); termination not decided statically"
                    elif grows:
                        shape = "monotone fixpoint: a set/dict only grows, exit when unchanged"
                    else:
                        shape = None
                if shape is None and re.search(r"new_prg == prg", txt):
                    shape = "variant: every non-final iteration unfolds and deletes one rule"
            if shape is None and re.fullmatch(r"size > 1", test):
                shape = "UNDECIDED" if func.short in undecided else None
                if shape:
                    shape += " duplication fixpoint (size decreases only when nothing changed)"
            if shape is None:
                ck.add(f"while {short(test, 40)}", False, func, loop, f"`while {test}:` matches none of the terminating shapes (variant / monotone fixpoint / fresh-name search)",
                       "a loop without a decreasing variant or a growing bounded set may not terminate on some input", rule="C03.LOOP")
            else:
                ck.add(f"while {short(test, 40)}", True, func, loop, shape, "", nontrivial=not shape.startswith("UNDECIDED"), rule="C03.LOOP")
    ck.need(n >= 12, f"while loops found ({n})")
    # outer loop exit test of optimize
    api = ck.func("api:optimize")
    loops = [x for x in find_nodes(api.node, lambda x: isinstance(x, ast.While))]
    ck.need(len(loops) == 1, "optimize has one fixpoint loop")
    txt = " ".join(unparse(s) for s in loops[0].body)  # type: ignore[attr-defined]
    m = re.search(r"(\w+) = deepcopy\((\w+)\)", txt)
    ok = m is not None and re.search(r"if " + m.group(2) + " == " + m.group(1) + r":\s*break", txt) is not None
    ck.add("optimize leaves its loop when a round changes nothing", ok, api, loops[0], f"compares `{m.group(2) if m else '?'}` with the deep copy taken at the top of the round: {ok}", "")


RULES = [
    Rule("C03.KIND", P, r_kinds),
    Rule("C03.KIND.optderef", P + ("C12",), r_optderef),
    Rule("C03.THROW", P, r_throw),
    Rule("C03.THROW.domain", P, r_domain_calls),
    Rule("C03.THROW.symbol", P, r_symbol_access),
    Rule("C03.THROW.index", P, r_index_access),
    Rule("C03.THROW.key", P, r_attr_keys),
    Rule("C03.THROW.containment", P, r_containment),
    Rule("C03.MYPY", P, r_mypy),
    Rule("C03.LOOP", P, r_loops),
]
