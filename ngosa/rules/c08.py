"""C08 — cleanup deletes only literals and rules that cannot matter (DESIGN §4 C08)."""

from __future__ import annotations

import ast

from ..core import Checker, Rule, attr_calls, callee_is, calls_in, resolved_calls, short
from ..interp import Pins, find_nodes, unparse
from ..model import AnalysisError
from .util import enclosing_loop, enclosing_stmt, every_iteration_reaches, fmt, is_const, loop_targets_with_origin, parent, returns_of, same, self_attr_for_param, single_def, inline_result_names

P = ("C08", "C01", "C06", "C02")
CLS = "cleanup:CleanupTranslator"


def r_input_guard(ck: Checker) -> None:
    """D4: a rule is registered as a definition of `pred` only if pred is not an input predicate"""
    func = ck.func(f"{CLS}._find_superseeded")
    attr = self_attr_for_param(ck, CLS, "input_predicates")
    sites = [c for c in attr_calls(func, "append") if isinstance(c.func.value, ast.Subscript)]  # type: ignore[attr-defined]
    sites += [c for c in attr_calls(func, "add") if isinstance(c.func.value, ast.Subscript)]  # type: ignore[attr-defined]
    ck.need(len(sites) >= 1, "_find_superseeded registers defining rules per predicate (dict[pred].append)")
    for site in sites:
        key = site.func.value.slice  # type: ignore[attr-defined]
        ck.guard("definition registered only for non-input predicate", func, site, f"{unparse(key)} not in self.{attr}",
                 "facts the instance adds to an input predicate are not covered by its rules: 'head implies body' is closed-world reasoning and only valid for non-input predicates",
                 what="registration")
        # the registered predicate must be head-derivable in that statement
        it = ck.interp(func)
        roots = {n.id for n in ast.walk(key) if isinstance(n, ast.Name)}
        org_ok = False
        for st in it.states(site):
            for root in roots:
                if "headderivable_predicates(" in st.origin.get(root, ""):
                    org_ok = True
        ck.add("registered predicates are head-derivable ones", org_ok, func, site, f"key `{unparse(key)}` iterates headderivable_predicates(...): {org_ok}",
               "only a positive head occurrence makes the rule a definition of the predicate")


def r_intersection(ck: Checker) -> None:
    """the per-predicate accumulator is combined over all defining rules by intersection only"""
    func = ck.func(f"{CLS}._find_superseeded")
    calls = resolved_calls(ck.prg, func, f"ngo.{CLS}._compute_local_superseed")
    ck.need(len(calls) >= 1, "_find_superseeded calls _compute_local_superseed")
    it = ck.interp(func)
    acc_names: set[str] = set()
    for call in calls:
        par = parent(func, call)
        ok = False
        how = fmt(par)
        if isinstance(par, ast.Assign) and len(par.targets) == 1 and isinstance(par.targets[0], ast.Name):
            name = par.targets[0].id
            acc_names.add(name)
            ok = it.holds(par, f"{name} is None")
            how += f" (first rule: accumulator `{name}` is None: {ok})"
        elif isinstance(par, ast.Call) and isinstance(par.func, ast.Attribute) and par.func.attr in ("intersection_update", "intersection") and isinstance(par.func.value, ast.Name):
            acc_names.add(par.func.value.id)
            ok = True
        elif isinstance(par, ast.AugAssign) and isinstance(par.op, ast.BitAnd) and isinstance(par.target, ast.Name):
            acc_names.add(par.target.id)
            ok = True
        elif isinstance(par, ast.BinOp) and isinstance(par.op, ast.BitAnd):
            ok = True
        ck.add("local implication sets are intersected", ok, func, call, f"result of _compute_local_superseed flows into `{how}`",
               "'head implies literal' must hold for EVERY rule that derives the head; a union would keep implications that hold for one rule only")
    # the accumulator is what is published, and every defining rule takes part
    upd = [c for c in attr_calls(func, "update") if unparse(c.func.value).startswith("self.")]  # type: ignore[attr-defined]
    ck.need(len(upd) >= 1, "_find_superseeded publishes the accumulator with self.<set>.update")
    for call in upd:
        ok = bool(call.args) and isinstance(call.args[0], ast.Name) and bool(inline_result_names(func, call.args[0].id) & acc_names)
        ck.add("published set is the intersection accumulator", ok, func, call, f"`{fmt(call)}`", "only implications valid for all defining rules may be used")
    for call in calls:
        loop = enclosing_loop(func, call)
        ck.need(loop is not None, "_compute_local_superseed is called in the loop over the defining rules")
    loops = {id(enclosing_loop(func, c)): enclosing_loop(func, c) for c in calls}
    for loop in loops.values():
        assert loop is not None
        # every iteration over the rule ids calls _compute_local_superseed (no rule is skipped)
        hit_all = True
        marks = {id(enclosing_stmt(func, c)): "hit" for c in calls if enclosing_loop(func, c) is loop}
        it2 = ck.interp(func, None, mark_stmts=marks, clear_marks_at={id(loop): "hit"})
        back = it2.loop_back.get(id(loop), [])
        hit_all = bool(back) and all("hit" in st.marks for st in back)
        ck.add("every defining rule is intersected", hit_all, func, loop, f"{len(back)} path class(es) complete an iteration, all through _compute_local_superseed: {hit_all}",
               "skipping one defining rule keeps implications that this rule does not support")


def r_mapping_positions(ck: Checker) -> None:
    """D3: a mapping is produced only if every argument of the body atom was found among the head arguments"""
    func = ck.func(f"{CLS}._create_mappings")
    sites = resolved_calls(ck.prg, func, "ngo.cleanup:Mapping")
    ck.need(len(sites) == 1, "_create_mappings builds Mapping(head_pred, SignedPredicate(sign, Predicate(name, arity)), var_map) at one site")
    site = sites[0]
    ck.need(len(site.args) == 3, "Mapping has three positional arguments")
    it = ck.interp(func)
    vm = site.args[2]
    ck.need(isinstance(vm, ast.Call) and len(vm.args) == 1 and isinstance(vm.args[0], ast.Name), "third argument is tuple(<position list>)")
    vm_name = vm.args[0].id  # type: ignore[attr-defined]
    sp = site.args[1]
    ck.need(isinstance(sp, ast.Call) and len(sp.args) == 2 and isinstance(sp.args[1], ast.Call) and len(sp.args[1].args) == 2, "second argument is SignedPredicate(sign, Predicate(name, arity))")
    arity = sp.args[1].args[1]  # type: ignore[attr-defined]
    sign = sp.args[0]  # type: ignore[attr-defined]
    ck.guard("mapping only when all body arguments are mapped", func, site, f"len({vm_name}) == {unparse(arity)}",
             "a body argument that is not a head argument is existential: the head atom does not determine it, so no position-wise implication exists")
    ck.guard("mapping only from predicate literals", func, site, f"is_predicate({unparse(sign.value) if isinstance(sign, ast.Attribute) else 'cond'})",  # type: ignore[attr-defined]
             "only symbolic atoms carry a predicate")
    # the sign stored is the sign of the very literal whose symbol is mapped
    sign_txt = it.texts(site, sign)
    name_txt = it.texts(site, sp.args[1].args[0])  # type: ignore[attr-defined]
    lit = next(iter(sign_txt)).removesuffix(".sign") if sign_txt else "?"
    ok = all(t == f"{lit}.sign" for t in sign_txt) and all(t == f"{lit}.atom.symbol.name" for t in name_txt)
    ck.add("sign and predicate come from the same literal", ok, func, site, f"sign `{sorted(sign_txt)}`, name `{sorted(name_txt)}`", "a mapping to `not q` must be recorded as negative")
    # positions: var_map.append(H.index(arg)) guarded by arg in H, arg ranging over the body symbol's arguments
    apps = [c for c in attr_calls(func, "append") if unparse(c.func.value) == vm_name]  # type: ignore[attr-defined]
    ck.need(len(apps) == 1, "positions are appended at one site")
    app = apps[0]
    arg = app.args[0]
    ok = isinstance(arg, ast.Call) and isinstance(arg.func, ast.Attribute) and arg.func.attr == "index" and len(arg.args) == 1
    ck.need(ok, "position is <head arguments>.index(<body argument>)")
    head_args, body_arg = arg.func.value, arg.args[0]  # type: ignore[attr-defined]
    ck.guard("position recorded only for arguments that occur in the head", func, app, f"{unparse(body_arg)} in {unparse(head_args)}",
             "index() of the first equal head argument is the position the implication is about")
    org_ok = False
    for st in it.states(app):
        if isinstance(body_arg, ast.Name) and st.origin.get(body_arg.id, "").endswith(".atom.symbol.arguments[*]") and st.origin.get(body_arg.id, "").startswith(lit):
            org_ok = True
    ck.add("positions enumerate the body atom's arguments in order", org_ok, func, app, f"`{unparse(body_arg)}` iterates `{lit}.atom.symbol.arguments`: {org_ok}", "var_map[i] must be the head position of body argument i")
    ck.add("head arguments belong to the head symbol", it.texts(app, head_args) == {f"{func.params()[0]}.arguments"}, func, app, f"head arguments `{sorted(it.texts(app, head_args))}`", "")


def r_closure(ck: Checker) -> None:
    """D2: composition of implications only through a positive link"""
    func = ck.func(f"{CLS}.transitive_closure")
    sites = resolved_calls(ck.prg, func, "ngo.cleanup:Mapping")
    ck.need(len(sites) == 1 and len(sites[0].args) == 3, "transitive_closure composes Mapping(l.head_pred, r.body_pred, composed map) at one site")
    site = sites[0]
    a0, a1, a2 = site.args
    ck.need(isinstance(a0, ast.Attribute) and a0.attr == "head_pred" and isinstance(a1, ast.Attribute) and a1.attr == "body_pred", "composed mapping is (L.head_pred, R.body_pred, ...)")
    left, right = unparse(a0.value), unparse(a1.value)  # type: ignore[attr-defined]
    ck.guard("composition only through a positive middle literal", func, site, f"{left}.body_pred.sign == Sign.NoSign",
             "from a => not b and b => c nothing follows about c; chaining through a negated (or doubly negated) literal invents implications")
    ck.guard("composition only when the middle predicates coincide", func, site, f"{left}.body_pred.pred == {right}.head_pred", "a => b and b' => c compose only for b = b'")
    it = ck.interp(func)
    texts = it.texts(site, a2)
    want = f"tuple([{left}.var_map[m] for m in {right}.var_map])"
    norm = {t.replace(" ", "") for t in texts}
    ok = False
    for t in texts:
        tree = ast.parse(t, mode="eval").body
        # tuple(<comp>) / tuple(var_map) with var_map = [L.var_map[i] for i in R.var_map]
        comp = tree.args[0] if isinstance(tree, ast.Call) and tree.args else tree
        if isinstance(comp, (ast.ListComp, ast.GeneratorExp)) and len(comp.generators) == 1:
            gen = comp.generators[0]
            ok = (
                isinstance(comp.elt, ast.Subscript)
                and unparse(comp.elt.value) == f"{left}.var_map"
                and unparse(comp.elt.slice) == unparse(gen.target)
                and unparse(gen.iter) == f"{right}.var_map"
                and not gen.ifs
            )
    if not ok:
        # var_map built by a named comprehension (or the loop it abbreviates): look it up
        named = [single_def(func, n.id) for t in texts for n in ast.walk(ast.parse(t, mode="eval")) if isinstance(n, ast.Name)]
        for node in [n for n in named if isinstance(n, (ast.ListComp, ast.GeneratorExp))] + find_nodes(func.node, lambda n: isinstance(n, (ast.ListComp, ast.GeneratorExp))):
            gen = node.generators[0]  # type: ignore[attr-defined]
            elt = node.elt  # type: ignore[attr-defined]
            if isinstance(elt, ast.Subscript) and unparse(elt.value) == f"{left}.var_map" and unparse(elt.slice) == unparse(gen.target) and unparse(gen.iter) == f"{right}.var_map" and not gen.ifs:
                ok = True
    ck.add("argument maps are composed in the right order", ok, func, site, f"third argument `{sorted(norm)}`; expected {want}",
           "position i of the far body atom is head position L.var_map[R.var_map[i]]")


def r_superseeded_table(ck: Checker) -> None:
    """TABLE D2/D3 of _superseeded: when may `lhs superseeds rhs` be answered True"""
    func = ck.func(f"{CLS}._superseeded")
    params = func.params()
    ck.need(len(params) == 3, "_superseeded(self, lhs, rhs)")
    lhs, rhs = params[1], params[2]
    trues = [r for r in returns_of(func) if is_const(r.value, True)]
    ck.need(len(trues) >= 1, "_superseeded has `return True` sites")
    it = ck.interp(func)
    for i, ret in enumerate(trues):
        if not it.reachable(ret):
            continue
        tag = "same-predicate" if it.possible(ret, f"Predicate({lhs}.atom.symbol.name, len({lhs}.atom.symbol.arguments)) == Predicate({rhs}.atom.symbol.name, len({rhs}.atom.symbol.arguments))") else "via-mapping"
        ck.guard(f"{tag}: implying literal is positive", func, ret, f"{lhs}.sign == Sign.NoSign", "only a literal that holds positively implies anything (`not p` or `not not p` do not make p's consequences true)")
        ck.guard(f"{tag}: implying literal is a predicate", func, ret, f"is_predicate({lhs})", "")
        ck.guard(f"{tag}: implied literal is a predicate", func, ret, f"is_predicate({rhs})", "")
        if tag == "same-predicate":
            ck.guard("same-predicate: implied literal is not negated", func, ret, f"{rhs}.sign != Sign.Negation",
                     "`p(X), not p(X)`: the positive atom does not imply its own negation; dropping `not p(X)` turns an unsatisfiable body into `p(X)`")
            # arguments: under "some argument differs and is not `_`" no iteration may fall through to `return True`
            loops = [n for n in find_nodes(func.node, lambda n: isinstance(n, ast.For)) if n.end_lineno < ret.lineno and "zip(" in unparse(n.iter)]  # type: ignore[attr-defined]
            ck.need(len(loops) >= 1, "same-predicate branch compares the argument lists pairwise (zip)")
            loop = loops[-1]
            tgt = loop.target  # type: ignore[attr-defined]
            ck.need(isinstance(tgt, ast.Tuple) and len(tgt.elts) == 2, "loop over (lhs_arg, rhs_arg)")
            la, ra = unparse(tgt.elts[0]), unparse(tgt.elts[1])  # type: ignore[attr-defined]
            a, b = sorted((la, ra))
            pins = Pins.of(facts={f"{a} == {b}": False, f"{ra}.name == '_'": False})
            it2 = ck.interp(func, pins, mark_loop_body={id(loop): "entered"})
            bad = [st for st in it2.states(ret) if "entered" in st.marks]
            ck.add("same-predicate: every argument pair agrees or is anonymous", not bad, func, ret,
                   f"with a differing, non-anonymous argument pair `return True` is reached after entering the comparison loop: {bool(bad)}",
                   "p(X,Y) does not imply p(Y,X): argument positions are respected")
            pins = Pins.of(facts={f"{a} == {b}": False, f"{ra}.ast_type == ASTType.Variable": False}, vals={f"{ra}.ast_type": "ASTType.Function"})
            it3 = ck.interp(func, pins, mark_loop_body={id(loop): "entered"})
            bad = [st for st in it3.states(ret) if "entered" in st.marks]
            ck.add("same-predicate: only an anonymous VARIABLE is a wildcard", not bad, func, ret, f"non-variable differing argument accepted: {bool(bad)}", "a constant `_`-named function is not a wildcard")
        else:
            ms = loop_targets_with_origin(it, ret, "superseeds[*]")
            ck.need(len(ms) == 1, "mapping branch iterates self.superseeds")
            m = next(iter(ms))
            ck.guard("via-mapping: sign of the mapping equals sign of the implied literal", func, ret, f"{m}.body_pred.sign == {rhs}.sign",
                     "a mapping a => not b justifies dropping `not b` only; a negative literal is never implied by a positive mapping")
            ck.guard("via-mapping: mapping head is the implying predicate", func, ret,
                     f"{m}.head_pred == Predicate({lhs}.atom.symbol.name, len({lhs}.atom.symbol.arguments))", "")
            ck.guard("via-mapping: mapping body is the implied predicate", func, ret,
                     f"{m}.body_pred.pred == Predicate({rhs}.atom.symbol.name, len({rhs}.atom.symbol.arguments))", "")
            loops = [n for n in find_nodes(func.node, lambda n: isinstance(n, ast.For)) if "var_map" in unparse(n.iter)]  # type: ignore[attr-defined]
            ck.need(len(loops) == 1, "mapping branch compares arguments along m.var_map")
            loop = loops[0]
            it_pre = ck.interp(func)
            cmps = [n for n in find_nodes(loop, lambda n: isinstance(n, ast.Compare)) if ".arguments[" in unparse(n) or any(".arguments[" in it_pre.text(n.left, st) for st in it_pre.states(n))]  # type: ignore[attr-defined]
            ck.need(len(cmps) == 1, "one comparison of mapped argument pairs")
            cmp_ = cmps[0]
            ck.need(isinstance(loop.target, ast.Tuple) and "enumerate(" in unparse(loop.iter), "for rhs_index, lhs_index in enumerate(m.var_map)")  # type: ignore[attr-defined]
            ri, li = unparse(loop.target.elts[0]), unparse(loop.target.elts[1])  # type: ignore[attr-defined]
            sides = {unparse(cmp_.left).replace(" ", ""), unparse(cmp_.comparators[0]).replace(" ", "")}  # type: ignore[attr-defined]
            it_loop = ck.interp(func)
            exp = {it_loop.text(cmp_.left, st).replace(" ", "") for st in it_loop.states(cmp_)} | {it_loop.text(cmp_.comparators[0], st).replace(" ", "") for st in it_loop.states(cmp_)}  # type: ignore[attr-defined]
            want = {f"{rhs}.atom.symbol.arguments[{ri}]", f"{lhs}.atom.symbol.arguments[{li}]"}
            ck.add("via-mapping: body position i is compared with head position var_map[i]", exp == want, func, cmp_, f"compares {sorted(exp)}, expected {sorted(want)}",
                   "swapping the indices compares unrelated positions")
            # the accept flag may only be lowered inside the loop (one mismatch at ANY position must stick)
            gate = parent(func, ret)
            if isinstance(gate, ast.If) and isinstance(gate.test, ast.Name):
                flag = gate.test.id
                inloop = [n for n in find_nodes(loop, lambda n: isinstance(n, (ast.Assign, ast.AnnAssign, ast.AugAssign))) if unparse(getattr(n, "target", None) or n.targets[0]) == flag]  # type: ignore[attr-defined]
                ok_flag = bool(inloop) and all(isinstance(n, ast.Assign) and is_const(n.value, False) for n in inloop)
                ck.add("via-mapping: a mismatch at any position sticks (the accept flag is only ever lowered in the loop)", ok_flag, func, gate,
                       f"assignments to `{flag}` inside the loop: {[fmt(n) for n in inloop]}", "overwriting the flag at every position lets the LAST argument alone decide: edge(Z,Y) would be 'implied' by conn(X,Y)")
            a, b = sorted((unparse(it_loop.expand(cmp_.left, it_loop.states(cmp_)[0])), unparse(it_loop.expand(cmp_.comparators[0], it_loop.states(cmp_)[0]))))  # type: ignore[attr-defined]
            pins = Pins.of(facts={f"{a} == {b}": False})
            it2 = ck.interp(func, pins, mark_loop_body={id(loop): "entered"})
            bad = [st for st in it2.states(ret) if "entered" in st.marks]
            ck.add("via-mapping: every mapped argument pair agrees", not bad, func, ret, f"with a differing mapped argument `return True` is reached after entering the loop: {bool(bad)}",
                   "the implication is position-wise")


def r_scope(ck: Checker) -> None:
    """D1: implier and implied literal come from the same list; the implied one is removed"""
    func = ck.func(f"{CLS}._remove_superseed_from_list")
    lst = func.params()[1]
    it = ck.interp(func)
    tests = resolved_calls(ck.prg, func, f"ngo.{CLS}._superseeded")
    ck.need(len(tests) == 1 and len(tests[0].args) == 2, "_remove_superseed_from_list tests self._superseeded(lhs, rhs) at one site")
    test = tests[0]
    a, b = unparse(test.args[0]), unparse(test.args[1])
    ok = False
    for st in it.states(test):
        oa, ob = st.origin.get(a, ""), st.origin.get(b, "")
        ok = oa == f"permutations({lst}, 2)[*][0]" and ob == f"permutations({lst}, 2)[*][1]"
    ck.add("both literals come from the one list", ok, func, test, f"`{fmt(test)}` over permutations({lst}, 2): {ok}", "a literal may only be implied by a literal of the same scope (body, one condition, one element)")
    removes = [c for c in attr_calls(func, "remove")]
    ck.need(len(removes) == 1, "one removal site")
    rem = removes[0]
    ck.add("the implied literal is the one removed", unparse(rem.func.value) == lst and unparse(rem.args[0]) == b, func, rem, f"`{fmt(rem)}`; implied literal is `{b}`",  # type: ignore[attr-defined]
           "removing the implying literal instead loses information")
    ck.guard("removal only after a positive subsumption test", func, rem, unparse(test), "a literal is deleted only if it is implied")
    ploop = enclosing_loop(func, rem)
    ck.need(ploop is not None and "permutations(" in unparse(ploop.iter), "removal happens inside the enumeration of pairs")
    itm = ck.interp(func, None, mark_stmts={id(enclosing_stmt(func, rem)): "removed"}, clear_marks_at={id(ploop): "removed"})
    stale = [st for st in itm.loop_back.get(id(ploop), []) if "removed" in st.marks]
    ck.add("after a removal the enumeration of pairs starts again", not stale, func, rem, f"the pair loop can continue with pairs taken from the list before the removal: {bool(stale)}",
           "a pair enumerated before the removal may name a literal that is gone: with `sel(X), sel(X)` each copy removes the other, with a(X), b(X) implying each other both disappear")
    # callers pass fresh copies of exactly one scope
    caller = ck.func(f"{CLS}._apply_superseeding")
    itc = ck.interp(caller)
    calls = resolved_calls(ck.prg, caller, f"ngo.{CLS}._remove_superseed_from_list")
    ck.need(len(calls) >= 3, "_apply_superseeding cleans body, conditional-literal conditions and aggregate-element conditions")
    scopes = []
    for call in calls:
        texts = itc.texts(call, call.args[0])
        ok = all(t.startswith("list(") and (t.endswith(".body)") or t.endswith(".condition)")) for t in texts) and bool(texts)
        scopes.append(sorted(texts))
        ck.add("cleaned list is a copy of one scope", ok, caller, call, f"argument is `{sorted(texts)}`", "mixing scopes would let a body literal remove a literal inside a condition (or vice versa)")
    ck.guard("only rules and objectives are cleaned", caller, calls[0], f"{caller.params()[1]}.ast_type in (ASTType.Rule, ASTType.Minimize)", "other statements are passed through")


def _table(ck: Checker, name: str, want_true: bool) -> None:
    func = ck.func(f"{CLS}.{name}")
    p = func.params()[0]
    rows = []
    for sign in ("Sign.NoSign", "Sign.DoubleNegation", "Sign.Negation"):
        for value in (True, False):
            pins = Pins.of(vals={f"{p}.ast_type": "ASTType.Literal", f"{p}.atom.ast_type": "ASTType.BooleanConstant", f"{p}.sign": sign}, facts={f"{p}.atom.value": value})
            it = ck.interp(func, pins)
            got = it.return_truths()
            literal_true = value if sign != "Sign.Negation" else not value
            expect = literal_true if want_true else not literal_true
            rows.append((sign, value, got, expect))
            ck.add(f"{name}({sign}, #{str(value).lower()})", got == {expect}, func, func.node, f"returns {sorted(map(str, got))}, truth table says {expect}",
                   "a literal is removed as constant true / a statement dropped as constant false only per the truth table of `not`")
    # non-boolean atoms are never constant
    pins = Pins.of(vals={f"{p}.ast_type": "ASTType.Literal", f"{p}.atom.ast_type": "ASTType.SymbolicAtom"})
    got = ck.interp(func, pins).return_truths()
    ck.add(f"{name}(symbolic atom)", got == {False}, func, func.node, f"returns {sorted(map(str, got))}", "only #true/#false are constants")
    # conditional literal: only with empty condition
    pins = Pins.of(vals={f"{p}.ast_type": "ASTType.ConditionalLiteral"}, facts={f"{p}.condition": True})
    got = ck.interp(func, pins).return_truths()
    ck.add(f"{name}(conditional literal with non-empty condition)", got == {False}, func, func.node, f"returns {sorted(map(str, got))}", "`#false : c` is true when c has no instance")


def r_truth_tables(ck: Checker) -> None:
    _table(ck, "true", True)
    _table(ck, "false", False)


def r_keep(ck: Checker) -> None:
    """E1/E2: what is kept - literals unless constant true, elements/conditionals unless their condition is constant false,
    statements unless their body is constant false"""
    C = f"ngo.{CLS}"
    # remove_true_literals
    func = ck.func(f"{CLS}.remove_true_literals")
    apps = attr_calls(func, "append")
    ck.need(len(apps) == 1, "remove_true_literals appends kept literals at one site")
    loop = enclosing_loop(func, apps[0])
    ck.need(loop is not None, "append inside the loop over the literals")
    item = unparse(loop.target)  # type: ignore[union-attr]
    ok, n = every_iteration_reaches(ck, func, loop, apps[0], Pins.of(facts={f"CleanupTranslator.true({item})": False}))  # type: ignore[arg-type]
    ck.add("a literal that is not constant true is kept", ok and n > 0 and unparse(apps[0].args[0]) == item, func, apps[0], f"under true({item}) == False every iteration appends `{item}`: {ok} ({n} path classes)",
           "only literals that are true in every answer set may be deleted here")
    # contains_false: answers True only for a constant-false member
    func = ck.func(f"{CLS}.contains_false")
    for ret in returns_of(func):
        if is_const(ret.value, True):
            loop = enclosing_loop(func, ret)
            ck.need(loop is not None, "contains_false returns True inside its loop")
            ck.guard("contains_false is true only for a constant-false literal", func, ret, f"CleanupTranslator.false({unparse(loop.target)})", "a statement is dropped only if its body can never hold")  # type: ignore[union-attr]
            itcf = ck.interp(func)
            lv = unparse(loop.target)  # type: ignore[union-attr]
            whole = itcf.texts(ret, ast.Name(lv, ast.Load())) == {lv} and {st_.origin.get(lv, "") for st_ in itcf.states(ret)} == {f"{func.params()[0]}[*]"}
            ck.add("... and the tested literal is the body element itself", whole, func, ret, f"`{lv}` at the return is {sorted(itcf.texts(ret, ast.Name(lv, ast.Load())))}",
                   "`#false : sel(Y), Y > X` is satisfiable (it holds when the condition is empty): testing the head literal of a conditional literal instead of the element drops the condition, and remove_boolean deletes a rule that can fire")
    # cleanup_boolean_conditionals / cleanup_boolean_aggregates: kept unless the (cleaned) condition contains false
    for name, what in (("cleanup_boolean_conditionals", "conditional literal"), ("cleanup_boolean_aggregates", "aggregate element")):
        func = ck.func(f"{CLS}.{name}")
        it = ck.interp(func)
        apps = attr_calls(func, "append")
        cond_apps = []
        for app in apps:
            arg = app.args[0]
            if isinstance(arg, ast.Call) and isinstance(arg.func, ast.Attribute) and arg.func.attr == "update" and any(kw.arg == "condition" for kw in arg.keywords):
                cond_apps.append(app)
        top_loops = [lp_ for lp_ in find_nodes(func.node, lambda n: isinstance(n, ast.For)) if enclosing_loop(func, lp_) is None]
        cut = [b for lp_ in top_loops for b in find_nodes(lp_, lambda n: isinstance(n, (ast.Break, ast.Return))) if enclosing_loop(func, b) is lp_]
        ck.add(f"{name}: the scan over the literals is never cut short", not cut and len(top_loops) == 1, func, cut[0] if cut else func.node, f"`break`/`return` inside the loop over the literals: {len(cut)}",
               f"leaving the loop at a {what} whose condition is #false drops every literal behind it from the body")
        if len(cond_apps) != 1 and cut:
            continue  # the function was restructured around the early exit: reported above
        ck.need(len(cond_apps) == 1, f"{name} rebuilds the {what} with a cleaned condition at one site")
        app = cond_apps[0]
        cond = [kw.value for kw in app.args[0].keywords if kw.arg == "condition"][0]  # type: ignore[attr-defined]
        texts = it.texts(app, cond)
        ok = all(t.startswith("CleanupTranslator.remove_true_literals(") and t.endswith(".condition)") for t in texts) and bool(texts)
        ck.add(f"{what}: new condition = old condition without constant-true literals", ok, func, app, f"condition := {sorted(texts)}", "conditions only lose literals that are constant true")
        loop = enclosing_loop(func, app)
        ck.need(loop is not None, "inside a loop")
        key = f"CleanupTranslator.contains_false({next(iter(texts))})" if texts else "?"
        ok2, n = every_iteration_reaches(ck, func, loop, app, Pins.of(facts={key: False}))  # type: ignore[arg-type]
        if name == "cleanup_boolean_conditionals":
            # only conditional literals are rebuilt; others go through the else-branch append
            pins = Pins.of(facts={key: False}, vals={f"{unparse(loop.target)}.ast_type": "ASTType.ConditionalLiteral"})  # type: ignore[union-attr]
            ok2, n = every_iteration_reaches(ck, func, loop, app, pins)  # type: ignore[arg-type]
        ck.add(f"{what} is kept unless its condition contains #false", ok2 and n > 0, func, app, f"under contains_false(cleaned condition) == False every iteration keeps the {what}: {ok2} ({n} path classes)",
               f"a {what} may vanish only if its condition can never hold")
        if name == "cleanup_boolean_aggregates":
            # the aggregate literal itself stays, also when no element is left (an aggregate over nothing still has a value)
            whole = [a for a in apps if isinstance(a.args[0], ast.Call) and isinstance(a.args[0].func, ast.Attribute) and a.args[0].func.attr == "update" and any(kw.arg == "atom" for kw in a.args[0].keywords)]
            ck.need(len(whole) == 1, "the cleaned aggregate literal is appended at one site")
            wl = enclosing_loop(func, whole[0])
            wv = unparse(wl.target) if wl is not None else "?"
            okw, nw = every_iteration_reaches(ck, func, wl, whole[0], Pins.of(vals={f"{wv}.ast_type": "ASTType.Literal", f"{wv}.atom.ast_type": "ASTType.BodyAggregate"})) if wl is not None else (False, 0)
            ck.add("an aggregate literal is kept even if none of its elements is", okw and nw > 0, func, whole[0], f"for a body aggregate every iteration appends the rebuilt literal: {okw} ({nw} path classes)",
                   "`2 <= #count{ X : p(X), #false }` is false, not absent: deleting the literal turns the rule into a fact")
        # everything else is passed through unchanged
        others = [a for a in apps if a is not app]
        for other in others:
            oloop = enclosing_loop(func, other)
            if oloop is not None and isinstance(other.args[0], ast.Name) and unparse(oloop.target) == other.args[0].id:
                ck.add(f"{name}: other literals pass through", True, func, other, f"`{fmt(other)}`", "", nontrivial=False)
    # remove_boolean
    func = ck.func(f"{CLS}.remove_boolean")
    stm = func.params()[1]
    it = ck.interp(func)
    for ret in returns_of(func):
        if ret.value is None or is_const(ret.value, None):
            ck.guard("statement dropped only if it is a rule/objective", func, ret, f"{stm}.ast_type in (ASTType.Rule, ASTType.Minimize)", "directives are never dropped")
            ck.guard("statement dropped only if its body contains #false", func, ret, f"self.contains_false({stm}.body)", "a statement is deleted only if its (cleaned) body can never hold")
            for st in it.states(ret):
                body = it.text(ast.parse(f"{stm}.body", mode="eval").body, st)
                inner = body
                for wrap in ("self.remove_true_literals(", "self.cleanup_boolean_conditionals(", "self.cleanup_boolean_aggregates("):
                    while inner.startswith(wrap):
                        inner = inner[len(wrap):-1]
                ck.add("the tested body is the original body after boolean cleaning only", inner == f"{stm}.body", func, ret, f"tested body `{short(body)}`", "only removal of constant literals may precede the test")
    # execute: a statement is lost only if remove_boolean returned nothing
    func = ck.func(f"{CLS}.execute")
    apps = attr_calls(func, "append")
    ck.need(len(apps) == 1, "execute appends the surviving statements at one site")
    app = apps[0]
    loop = enclosing_loop(func, app)
    ck.need(loop is not None, "execute loops over the program")
    it = ck.interp(func)
    texts = it.texts(app, app.args[0])
    ok = all(t.startswith("self.remove_boolean(self._apply_superseeding(") for t in texts) and bool(texts)
    ck.add("every statement goes through superseeding and boolean removal", ok, func, app, f"appended value: {sorted(texts)}", "", nontrivial=False)
    key = next(iter(texts)) if texts else "?"
    ok2, n = every_iteration_reaches(ck, func, loop, app, Pins.of(facts={key: True}))  # type: ignore[arg-type]
    ck.add("a statement that remove_boolean returns is emitted", ok2 and n > 0, func, app, f"under `remove_boolean(...)` truthy every iteration appends: {ok2}", "no other reason to drop a statement exists: in particular a statement equal to an earlier one is not a duplicate to drop (a multi-part encoding repeats `#program base.`; directives appear verbatim, once each, in order)")
    ck.add("statements are emitted in program order", "prg" in unparse(loop.iter) and not isinstance(loop.iter, ast.Call) or unparse(loop.iter) in ("prg",), func, loop, f"loop over `{unparse(loop.iter)}`", "", nontrivial=False)  # type: ignore[union-attr]


def r_local_superseed(ck: Checker) -> None:
    """per-rule mappings: head atom -> literals of the SAME rule (element condition + top-level body), only for the predicate asked for"""
    func = ck.func(f"{CLS}._compute_local_superseed")
    it = ck.interp(func)
    pred = func.params()[1]
    calls = resolved_calls(ck.prg, func, f"ngo.{CLS}._create_mappings")
    ck.need(len(calls) >= 3, "_compute_local_superseed creates mappings for head-aggregate elements, choice/disjunction elements and the body")
    rule_p = func.params()[2]
    want_body = f"[lit for lit in {rule_p}.body if lit.ast_type == ASTType.Literal and lit.atom.ast_type == ASTType.SymbolicAtom and lit.atom.symbol.ast_type == ASTType.Function]"
    inlined_body = False
    head_list = None
    for call in calls:
        texts = it.texts(call, call.args[1])
        sym = it.texts(call, call.args[0])
        lp_c = enclosing_loop(func, call)
        while lp_c is not None and not isinstance(lp_c.iter, ast.Name):  # type: ignore[union-attr]
            lp_c = enclosing_loop(func, lp_c)
        local_def = single_def(func, unparse(call.args[1])) if isinstance(call.args[1], ast.Name) else None
        if local_def is not None and same(unparse(local_def), want_body):
            texts = {"<plain body atoms of the rule>"}  # the collector written out in place
            inlined_body = True
        if any("_collect_top_level_body_symbols" in t or t.startswith("<plain") for t in texts) and lp_c is not None and isinstance(lp_c.iter, ast.Name):
            head_list = lp_c.iter.id
        ok = all(t.endswith(".condition") or t.endswith(".condition.condition") or "_collect_top_level_body_symbols" in t or t.startswith("<plain") for t in texts)
        ck.add("implied literals are conditions of the same element or the rule body", ok, func, call, f"`{fmt(call)}` with literals {sorted(texts)}", "a head atom implies only what its own rule (and its own element condition) requires")
        if any(t.endswith(".condition") or t.endswith(".condition.condition") for t in texts):
            # element branch: the symbol must belong to the requested predicate
            sname = unparse(call.args[0])
            ck.guard("element mappings only for the requested predicate", func, call, f"{pred} == Predicate({sname}.name, len({sname}.arguments))", "mappings of other head atoms must not be mixed into this predicate's intersection")
    # head_symbols.append guarded by predicate equality
    for app in [a for a in attr_calls(func, "append") if head_list is None or unparse(a.func.value) == head_list]:  # type: ignore[attr-defined]
        sname = unparse(app.args[0])
        ck.guard("head symbols are those of the requested predicate", func, app, f"{pred} == Predicate({sname}.name, len({sname}.arguments))", "the body of the rule is implied by the atoms of this predicate only")
    # top-level body symbols: positive or negative predicate literals only (no aggregates, no conditionals)
    if inlined_body:
        return  # checked above on the comprehension that replaces the collector
    coll = ck.func(f"{CLS}._collect_top_level_body_symbols")
    itc = ck.interp(coll)
    ys = find_nodes(coll.node, lambda n: isinstance(n, ast.Yield))
    ck.need(len(ys) == 1, "_collect_top_level_body_symbols yields at one site")
    y = ys[0]
    lit = unparse(y.value)  # type: ignore[attr-defined]
    yl = enclosing_loop(coll, y)
    ck.need(yl is not None and isinstance(yl.target, ast.Name), "_collect_top_level_body_symbols loops over the body")
    ytx = itc.texts(y, y.value)  # type: ignore[attr-defined]
    yorg = {st_.origin.get(yl.target.id, "") for st_ in itc.states(y)}  # type: ignore[union-attr]
    ck.add("body symbols: the yielded literal is a TOP-LEVEL element of the body", ytx == {yl.target.id} and yorg == {f"{coll.params()[0]}[*]"}, coll, y, f"yields {sorted(ytx)} (loop element from {sorted(yorg)})",  # type: ignore[union-attr]
           "`ok(X) :- node(X), marked(X) : edge(X,Y).` does not imply marked(X) (the conditional literal holds vacuously without edges): the head literal of a conditional literal is not implied by the rule head")
    for cond in (f"{lit}.ast_type == ASTType.Literal", f"{lit}.atom.ast_type == ASTType.SymbolicAtom", f"{lit}.atom.symbol.ast_type == ASTType.Function"):
        ck.add(f"body symbols: {cond.split('.')[-1]}", itc.holds(y, cond), coll, y, f"`yield {lit}` dominated by `{cond}`: {itc.holds(y, cond)}", "only plain body atoms are implied by the head")


RULES = [
    Rule("C08.D4.input-guard", P, r_input_guard),
    Rule("C08.FLOW.intersection", P, r_intersection),
    Rule("C08.D3.mapping-positions", P, r_mapping_positions),
    Rule("C08.D2.closure", P, r_closure),
    Rule("C08.TABLE.superseeded", P + ("C04",), r_superseeded_table),
    Rule("C08.D1.scope", P + ("C04",), r_scope),
    Rule("C08.TABLE.true-false", P, r_truth_tables),
    Rule("C08.E.keep", P, r_keep, extra={"C07": ("a statement that remove_boolean returns is emitted",)}),
    Rule("C08.local-superseed", P, r_local_superseed),
]
