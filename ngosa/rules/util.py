"""helpers shared by the rule modules"""

from __future__ import annotations

import ast
from typing import Callable, Iterable, Optional

from ..core import Checker, attr_calls, callee_is, calls_in, resolved_calls, short
from ..interp import Interp, Pins, find_nodes, unparse
from ..model import AnalysisError, Func

_PARENTS: dict[str, dict[int, ast.AST]] = {}


def parents(func: Func) -> dict[int, ast.AST]:
    if func.qualname not in _PARENTS:
        table: dict[int, ast.AST] = {}
        for node in ast.walk(func.node):
            for child in ast.iter_child_nodes(node):
                table[id(child)] = node
        _PARENTS[func.qualname] = table
    return _PARENTS[func.qualname]


def parent(func: Func, node: ast.AST) -> Optional[ast.AST]:
    return parents(func).get(id(node))


def ancestors(func: Func, node: ast.AST) -> Iterable[ast.AST]:
    table = parents(func)
    cur = table.get(id(node))
    while cur is not None:
        yield cur
        cur = table.get(id(cur))


def enclosing_stmt(func: Func, node: ast.AST) -> ast.stmt:
    if isinstance(node, ast.stmt):
        return node
    for anc in ancestors(func, node):
        if isinstance(anc, ast.stmt):
            return anc
    raise AnalysisError(f"no enclosing statement for {unparse(node)} in {func.short}")


def enclosing_loop(func: Func, node: ast.AST) -> Optional[ast.For | ast.While]:
    for anc in ancestors(func, node):
        if isinstance(anc, (ast.For, ast.While)):
            return anc
        if isinstance(anc, (ast.FunctionDef, ast.Lambda)):
            return None
    return None


def self_attr_for_param(ck: Checker, cls: str, param: str) -> str:
    """name X such that `self.X = <param>` (possibly wrapped in set()/list()) in cls.__init__"""
    init = ck.func(f"{cls}.__init__")
    for node in ast.walk(init.node):
        if isinstance(node, (ast.Assign, ast.AnnAssign)):
            target = node.targets[0] if isinstance(node, ast.Assign) else node.target
            value = node.value
            if isinstance(value, ast.Call) and isinstance(value.func, ast.Name) and value.func.id in ("set", "list", "frozenset", "tuple") and len(value.args) == 1:
                value = value.args[0]
            if (
                isinstance(target, ast.Attribute)
                and isinstance(target.value, ast.Name)
                and target.value.id == "self"
                and isinstance(value, ast.Name)
                and value.id == param
            ):
                return target.attr
    raise AnalysisError(f"{cls}.__init__ does not store its parameter `{param}` in an attribute")


def every_iteration_reaches(ck: Checker, func: Func, loop: ast.AST, site: ast.AST, pins: Optional[Pins]) -> tuple[bool, int]:
    """under pins: every completed iteration of `loop` has executed the statement containing `site`.
    Returns (holds, number of path classes completing an iteration)."""
    stmt = enclosing_stmt(func, site)
    it = ck.interp(func, pins, mark_stmts={id(stmt): "hit"}, clear_marks_at={id(loop): "hit"})
    back = it.loop_back.get(id(loop), [])
    return all("hit" in st.marks for st in back), len(back)


def returns_of(func: Func) -> list[ast.Return]:
    """the return statements of the function itself (not those of helpers copied to their call sites)"""
    return [n for n in find_nodes(func.node, lambda n: isinstance(n, ast.Return) and not getattr(n, "ngosa_inline", False))]  # type: ignore[misc]


def is_const(node: Optional[ast.AST], value: object) -> bool:
    return isinstance(node, ast.Constant) and type(node.value) is type(value) and node.value == value


def loop_targets_with_origin(it: Interp, site: ast.AST, suffix: str) -> set[str]:
    """names of loop/comprehension targets (in all states reaching site) whose origin text ends with suffix"""
    out: Optional[set[str]] = None
    for st in it.states(site):
        cur = {name for name, org in st.origin.items() if org.endswith(suffix)}
        out = cur if out is None else out & cur
    return out or set()


def block_of(func: Func, stmt: ast.AST) -> Optional[list[ast.stmt]]:
    """the statement list (body / orelse / finalbody / handler body) that contains stmt"""
    holder = parent(func, stmt)
    if holder is None:
        return None
    for fld in ("body", "orelse", "finalbody"):
        block = getattr(holder, fld, None)
        if isinstance(block, list) and any(s is stmt for s in block):
            return block
    return None


def on_path_before(func: Func, site: ast.AST) -> list[ast.stmt]:
    """statements that are executed before `site` on every path to it, as far as block structure tells: earlier
    statements of the blocks that contain site (its own block and those of the enclosing compound statements)"""
    out: list[ast.stmt] = []
    cur: Optional[ast.AST] = enclosing_stmt(func, site)
    while cur is not None and cur is not func.node:
        block = block_of(func, cur)
        if block is not None:
            for s in block:
                if s is cur:
                    break
                out.append(s)
        cur = parent(func, cur)
        while cur is not None and not isinstance(cur, ast.stmt):
            cur = parent(func, cur)
    return out


def covers_program(it: ast.expr, prg: str) -> bool:
    """the iterable visits every statement of the program `prg` (as is, enumerated, or unpooled statement by statement)"""
    while isinstance(it, ast.Call) and isinstance(it.func, ast.Name) and it.func.id in ("enumerate", "list", "tuple", "iter") and len(it.args) >= 1:
        it = it.args[0]
    if isinstance(it, ast.Name):
        return it.id == prg
    if isinstance(it, ast.Call) and unparse(it.func) in ("chain.from_iterable", "itertools.chain.from_iterable") and len(it.args) == 1:
        gen = it.args[0]
        if isinstance(gen, (ast.GeneratorExp, ast.ListComp)) and len(gen.generators) == 1:
            g = gen.generators[0]
            if not g.ifs and isinstance(g.iter, ast.Name) and g.iter.id == prg and isinstance(g.target, ast.Name):
                elt = gen.elt
                return isinstance(elt, ast.Call) and isinstance(elt.func, ast.Attribute) and elt.func.attr == "unpool" and unparse(elt.func.value) == g.target.id
    return False


def _comp_alpha(text: str) -> str:
    """comprehension / generator variables renamed to positional names: `[x for x in xs]` and `[y for y in xs]` are the same"""
    tree = ast.parse(text, mode="eval")
    n = [0]

    class R(ast.NodeTransformer):
        def __init__(self) -> None:
            self.env: list[dict[str, str]] = []

        def _comp(self, node: ast.AST) -> ast.AST:
            env: dict[str, str] = {}
            for gen in node.generators:  # type: ignore[attr-defined]
                for t in ast.walk(gen.target):
                    if isinstance(t, ast.Name) and t.id not in env:
                        env[t.id] = f"_c{n[0]}"
                        n[0] += 1
            self.env.append(env)
            self.generic_visit(node)
            self.env.pop()
            return node

        visit_ListComp = visit_SetComp = visit_DictComp = visit_GeneratorExp = _comp  # type: ignore[assignment]

        def visit_Name(self, node: ast.Name) -> ast.AST:
            for env in reversed(self.env):
                if node.id in env:
                    return ast.copy_location(ast.Name(env[node.id], node.ctx), node)
            return node

    from ..nform import sort_operands

    return ast.unparse(sort_operands(R().visit(tree)))


def same(actual: str, expected: str) -> bool:
    """two expression texts are the same up to the condition normal form (operand order of ==, spacing)"""
    from ..nform import canon_expr

    try:
        return _comp_alpha(canon_expr(actual)) == _comp_alpha(canon_expr(expected))
    except SyntaxError:
        return actual.replace(" ", "") == expected.replace(" ", "")


def fmt(node: Optional[ast.AST]) -> str:
    return short(unparse(node)) if node is not None else "<none>"


def effect_table(ck: Checker, func: Func, domains: dict[str, list[str]], sites: list[ast.AST], describe: Callable[[Interp, ast.AST, object], str],
                 extra_pins: Optional[dict[str, str]] = None, facts: Optional[dict[str, bool]] = None) -> dict[tuple[str, ...], frozenset[str]]:
    """decision table of a classifier: for every assignment of the enum-valued paths in `domains` (universal pins) the
    set of effect signatures (describe(...)) of the sites that are reachable"""
    import itertools

    keys = list(domains)
    table: dict[tuple[str, ...], frozenset[str]] = {}
    for combo in itertools.product(*[domains[k] for k in keys]):
        vals = dict(zip(keys, combo))
        vals.update(extra_pins or {})
        it = ck.interp(func, Pins.of(vals=vals, facts=facts))
        effects: set[str] = set()
        for site in sites:
            for st in it.states(site):
                effects.add(describe(it, site, st))
        table[combo] = frozenset(effects)
    return table


def enum_members(enum: str) -> list[str]:
    from ..interp import load_enums

    return [f"{enum}.{m}" for m in load_enums()[enum]]


def single_def(func: Func, name: str) -> Optional[ast.expr]:
    """the value of the only assignment to local `name` in func (None if not exactly one)"""
    vals = []
    nodes = []
    for node in find_nodes(func.node, lambda n: isinstance(n, (ast.Assign, ast.AnnAssign))):
        target = node.target if isinstance(node, ast.AnnAssign) else (node.targets[0] if len(node.targets) == 1 else None)  # type: ignore[attr-defined]
        if isinstance(target, ast.Name) and target.id == name and node.value is not None:  # type: ignore[attr-defined]
            vals.append(node.value)  # type: ignore[attr-defined]
            nodes.append(node)
    if len(vals) != 1:
        return None
    # an accumulator that is filled by the loop right behind it reads as the comprehension it spells out
    from ..nform import fold_accumulator

    block = block_of(func, nodes[0])
    if block is not None:
        idx = next(i for i, s in enumerate(block) if s is nodes[0])
        if idx + 1 < len(block):
            comp = fold_accumulator(name, vals[0], block[idx + 1])
            if comp is not None:
                return inline_new_expr_calls(func, comp)
    return inline_new_expr_calls(func, vals[0])


def inline_new_expr_calls(func: Func, expr: ast.expr, depth: int = 0) -> ast.expr:
    """calls of one-expression helpers that the reference tree does not have (a lambda that became a named nested
    function, an extracted predicate) are replaced by their body: the definition reads as it did before the extraction"""
    import copy

    if not _NEW_FUNCS or _PRG is None or depth > 2:
        return expr

    class T(ast.NodeTransformer):
        def visit_Call(self, call: ast.Call) -> ast.AST:
            self.generic_visit(call)
            q = _resolve(func, call)
            if q not in _NEW_FUNCS or call.keywords or any(isinstance(a, ast.Starred) for a in call.args):
                return call
            target = _PRG.funcs.get(q)
            if target is None or isinstance(target.node, ast.Lambda):
                return call
            body = [s for s in target.node.body if not (isinstance(s, ast.Expr) and isinstance(s.value, ast.Constant))]
            if len(body) != 1 or not isinstance(body[0], ast.Return) or body[0].value is None:
                return call
            params = [a.arg for a in target.node.args.posonlyargs + target.node.args.args]
            if params and params[0] in ("self", "cls"):
                params = params[1:]
            if len(params) != len(call.args):
                return call
            bind = dict(zip(params, call.args))

            class S(ast.NodeTransformer):
                def visit_Name(self, n: ast.Name) -> ast.AST:
                    return copy.deepcopy(bind[n.id]) if isinstance(n.ctx, ast.Load) and n.id in bind else n

            return inline_new_expr_calls(func, S().visit(copy.deepcopy(body[0].value)), depth + 1)

    return T().visit(copy.deepcopy(expr))


def resolved(func: Func, expr: Optional[ast.expr]) -> Optional[ast.expr]:
    """a plain name with exactly one definition stands for that definition (accumulator loops folded into comprehensions)"""
    if isinstance(expr, ast.Name):
        d = single_def(func, expr.id)
        if d is not None:
            return d
    return expr


def scan_parts(comp_text: str) -> Optional[dict[str, object]]:
    """parts of a collection written as (folded into) a comprehension with one or two generators:
    {'elt', 'gens': [{'target', 'iter', 'ifs': [..]}, ..]} as texts (None if it is not a comprehension)"""
    try:
        tree = ast.parse(comp_text, mode="eval").body
    except SyntaxError:
        return None
    if not isinstance(tree, (ast.ListComp, ast.SetComp, ast.GeneratorExp)):
        return None
    return {"elt": unparse(tree.elt), "gens": [{"target": unparse(g.target), "iter": unparse(g.iter), "ifs": [unparse(i) for i in g.ifs]} for g in tree.generators]}


def contributions(func: Func, name: str) -> list[tuple[ast.stmt, str]]:
    """what is put into the list / set `name`, in source order, as expression texts: `name.extend(E)` / `name.update(E)`
    give E, `name.append(E)` / `name.add(E)` give `[E]`, and a loop nest that only feeds `name` gives the comprehension
    it spells out (so `name.extend([x for x in xs if c])` and the equivalent loop read the same)"""
    from ..nform import fold_accumulator

    out: list[tuple[ast.stmt, str]] = []

    def walk(block: list[ast.stmt]) -> None:
        for stmt in block:
            if isinstance(stmt, (ast.FunctionDef, ast.AsyncFunctionDef, ast.ClassDef)):
                continue
            if isinstance(stmt, ast.For):
                comp = fold_accumulator(name, ast.List(elts=[], ctx=ast.Load()), stmt) or fold_accumulator(name, ast.Call(func=ast.Name("set", ast.Load()), args=[], keywords=[]), stmt)
                if comp is not None:
                    if isinstance(comp, ast.SetComp):
                        comp = ast.ListComp(elt=comp.elt, generators=comp.generators)
                    out.append((stmt, unparse(comp)))
                    continue
            if isinstance(stmt, ast.Expr) and isinstance(stmt.value, ast.Call) and isinstance(stmt.value.func, ast.Attribute) and unparse(stmt.value.func.value) == name and len(stmt.value.args) == 1:
                if stmt.value.func.attr in ("extend", "update"):
                    out.append((stmt, unparse(stmt.value.args[0])))
                elif stmt.value.func.attr in ("append", "add"):
                    out.append((stmt, "[" + unparse(stmt.value.args[0]) + "]"))
            for fld in ("body", "orelse", "finalbody"):
                sub_ = getattr(stmt, fld, None)
                if isinstance(sub_, list) and sub_ and isinstance(sub_[0], ast.stmt):
                    walk(sub_)
            for h in getattr(stmt, "handlers", []) or []:
                walk(h.body)

    walk(func.node.body)  # type: ignore[attr-defined]
    return out


_NEW_FUNCS: set[str] = set()
def inline_result_names(func: Func, name: str) -> set[str]:
    """names a copied-in helper returns into `name` (`with __ngosa_inline__(..) as name: ... return x`), plus name itself"""
    out = {name}
    for node in ast.walk(func.node):
        if isinstance(node, ast.With) and getattr(node, "ngosa_inline", None) is not None and node.items and isinstance(node.items[0].optional_vars, ast.Name) and node.items[0].optional_vars.id == name:
            for sub_ in ast.walk(node):
                if isinstance(sub_, ast.Return) and isinstance(sub_.value, ast.Name):
                    out.add(sub_.value.id)
    return out


_PRG = None


def register_program(prg) -> None:  # type: ignore[no-untyped-def]
    """called by the checker: lets the syntactic helpers of this module know which functions are new w.r.t. the reference"""
    global _PRG  # pylint: disable=global-statement
    _PRG = prg
    _NEW_FUNCS.clear()
    _NEW_FUNCS.update(prg.new_functions())


def _resolve(func: Func, call: ast.Call):  # type: ignore[no-untyped-def]
    return _PRG.resolve_callee(func, call.func) if _PRG is not None else None


def inline_displays(func: Func, node: ast.expr, depth: int = 0) -> ast.expr:
    """replace names that are defined exactly once by a list/tuple display with that display (displays are not
    aliased by the interpreter because their text does not identify the object)"""
    import copy

    class T(ast.NodeTransformer):
        def visit_Name(self, n: ast.Name) -> ast.AST:
            if isinstance(n.ctx, ast.Load) and depth < 4:
                val = single_def(func, n.id)
                if isinstance(val, (ast.List, ast.Tuple)) and val.elts:
                    return inline_displays(func, copy.deepcopy(val), depth + 1)
                if isinstance(val, ast.Call) and _NEW_FUNCS and _resolve(func, val) in _NEW_FUNCS:
                    return inline_displays(func, copy.deepcopy(val), depth + 1)  # a display moved into a new helper: expand() inlines the call
            return n

    return T().visit(copy.deepcopy(node))
