"""Cross-cutting rules that hold for every module of ngo (DESIGN 10.3, round 5).

Each obligation is attributed to the property of the pass whose module it sits in (tag `[module]` in the title)
and to C01; the state rule is part of C17 as well.

  GEN.class-state   no class-level container is written through an instance: it would be shared by all translators of
                    all optimize calls (the result of a call then depends on the call history)
  GEN.index-space   an index obtained from `enumerate(A)` only stores into A itself (after a removal from a copy the
                    positions of two lists no longer correspond)
"""

from __future__ import annotations

import ast

from ..core import Checker, Rule, short
from ..interp import MUTATORS, unparse

MODULE_PROPS = {
    "cleanup": ("C08",),
    "unused": ("C09",),
    "literal_duplication": ("C10",),
    "symmetry": ("C11",),
    "minmax_aggregates": ("C12",),
    "sum_aggregates": ("C13",),
    "math_simplification": ("C14",),
    "inline": ("C15",),
    "projection": ("C16",),
    "normalize": ("C05",),
    "dependency": ("C20", "C12", "C13"),
    "utils.globals": ("C07", "C18"),
    "utils.ast": ("C05",),
    "api": (),
    "__main__": ("C19",),
    "utils.logger": ("C19",),
}


def tag(modname: str) -> str:
    return "[" + modname.removeprefix("ngo.") + "]"


def module_extra(*always: str) -> dict[str, tuple[str, ...]]:
    """Rule.extra: property -> the module tags whose obligations bear on it"""
    out: dict[str, list[str]] = {}
    for mod, props in MODULE_PROPS.items():
        for p in props:
            out.setdefault(p, []).append("[" + mod + "]")
    return {p: tuple(v) for p, v in out.items() if p not in always}


MUTABLE_CALLS = ("list", "dict", "set", "defaultdict", "OrderedDict", "Counter", "deque")


def _is_mutable_value(value: ast.expr) -> bool:
    if isinstance(value, (ast.List, ast.Dict, ast.Set, ast.ListComp, ast.DictComp, ast.SetComp)):
        return True
    return isinstance(value, ast.Call) and unparse(value.func).split(".")[-1] in MUTABLE_CALLS


def r_class_state(ck: Checker) -> None:
    n = 0
    for klass in ck.prg.classes.values():
        cname = klass.qualname.split(":")[1]
        is_dc = any("dataclass" in unparse(d) for d in klass.node.decorator_list)
        for stmt in klass.node.body:
            if not isinstance(stmt, (ast.Assign, ast.AnnAssign)) or stmt.value is None:
                continue
            target = stmt.targets[0] if isinstance(stmt, ast.Assign) else stmt.target
            if not isinstance(target, ast.Name) or not _is_mutable_value(stmt.value) or is_dc:
                continue
            n += 1
            name = target.id
            # an instance attribute of the same name assigned in __init__ shadows the class attribute for every instance
            init = ck.prg.funcs.get(f"{klass.qualname}.__init__")
            shadowed = init is not None and any(
                isinstance(s, (ast.Assign, ast.AnnAssign)) and unparse(s.targets[0] if isinstance(s, ast.Assign) else s.target) == f"self.{name}" and (isinstance(s, ast.Assign) or s.value is not None)
                for s in ast.walk(init.node)
            )
            writes: list[str] = []
            for func in ck.prg.funcs.values():
                if func.module is not klass.module and name not in unparse(func.node):
                    continue
                for sub in ast.walk(func.node):
                    recv = None
                    if isinstance(sub, ast.Call) and isinstance(sub.func, ast.Attribute) and sub.func.attr in MUTATORS:
                        recv = sub.func.value
                    elif isinstance(sub, (ast.Assign, ast.AugAssign)):
                        tg = sub.targets[0] if isinstance(sub, ast.Assign) else sub.target
                        if isinstance(tg, ast.Subscript):
                            recv = tg.value
                        elif isinstance(sub, ast.AugAssign):
                            recv = tg
                    elif isinstance(sub, ast.Delete):
                        recv = sub.targets[0].value if isinstance(sub.targets[0], ast.Subscript) else None
                    if recv is None or not isinstance(recv, ast.Attribute) or recv.attr != name:
                        continue
                    base = unparse(recv.value)
                    through_instance = base in ("self", "cls") and ck.prg.class_of_func(func) is klass
                    if through_instance or base.split(".")[-1] == cname.split(".")[-1]:
                        writes.append(f"{func.module.relpath}:{sub.lineno}")
            ok = not writes or shadowed
            ck.add(f"{tag(klass.module.name)} class attribute {cname}.{name} is never written through an instance", ok, klass.module.name, stmt,
                   f"mutable `{short(unparse(stmt), 60)}` in the class body; writes: {sorted(set(writes))}; shadowed by an instance attribute in __init__: {shadowed}",
                   "a container in the class body is one object for all instances of all optimize calls: what one program's analysis records is still there for the next program")
    ck.notes["class-level containers"] = n


# (function, iterated, stored-into) -> reason
INDEX_TRIAGE = {
    ("literal_duplication:LiteralDuplicationTranslator.execute", "restore", "newprogram"): "restore, prg and newprogram are parallel lists with one entry per statement of the input program (newprogram starts as a copy of the rewritten program of equal length)",
}


def _same_length_copy(func, name: str, iterated: str, loop: ast.AST) -> bool:  # type: ignore[no-untyped-def]
    """`name` is a local defined once as list(A) / A.copy() / A[:] / deepcopy(A) / [x] * len(A) and, up to the loop, neither
    resized nor handed to anybody who could resize it"""
    defs = [n for n in ast.walk(func.node) if isinstance(n, (ast.Assign, ast.AnnAssign)) and n.value is not None and unparse(n.targets[0] if isinstance(n, ast.Assign) else n.target) == name]
    if len(defs) != 1:
        return False
    v = unparse(defs[0].value).replace(" ", "")
    a = iterated.replace(" ", "")
    if v not in (f"list({a})", f"{a}.copy()", f"{a}[:]", f"deepcopy({a})", f"copy({a})", f"deepcopy(list({a}))") and not (v.endswith(f"*len({a})") and v.startswith("[")):
        return False
    for n in ast.walk(func.node):
        if getattr(n, "lineno", 0) <= defs[0].lineno or getattr(n, "lineno", 0) >= loop.lineno:  # type: ignore[attr-defined]
            continue
        if isinstance(n, ast.Call):
            if isinstance(n.func, ast.Attribute) and isinstance(n.func.value, ast.Name) and n.func.value.id == name and n.func.attr in MUTATORS:
                return False
            if any(isinstance(x, ast.Name) and x.id == name for arg in list(n.args) + [k.value for k in n.keywords] for x in ast.walk(arg)):
                return False
        if isinstance(n, ast.Delete) and name in unparse(n):
            return False
    return True


def r_index_space(ck: Checker) -> None:
    from ..core import moved_lookup

    n = 0
    for func in ck.prg.funcs.values():
        if isinstance(func.node, ast.Lambda):
            continue
        for loop in ast.walk(func.node):
            if not (isinstance(loop, ast.For) and isinstance(loop.iter, ast.Call) and unparse(loop.iter.func) == "enumerate" and loop.iter.args
                    and isinstance(loop.target, ast.Tuple) and isinstance(loop.target.elts[0], ast.Name)):
                continue
            idx = loop.target.elts[0].id
            iterated = unparse(loop.iter.args[0])
            for stmt in loop.body:
                for sub in ast.walk(stmt):
                    if isinstance(sub, ast.Subscript) and isinstance(sub.ctx, (ast.Store, ast.Del)) and isinstance(sub.slice, ast.Name) and sub.slice.id == idx:
                        n += 1
                        into = unparse(sub.value)
                        ok = into == iterated
                        why = ""
                        if not ok and isinstance(sub.value, ast.Name) and _same_length_copy(func, sub.value.id, iterated, loop):
                            ok, why = True, f" (`{into}` is a copy of `{short(iterated, 30)}` of the same length that nothing resizes before the loop)"
                        if not ok:
                            hit = INDEX_TRIAGE.get((func.short, iterated, into))
                            if hit is not None:
                                ok, why = True, f" (triaged: {hit})"
                        ck.add(f"{tag(func.module.name)} index of enumerate({short(iterated, 40)}) stores into the list it counts", ok, func, sub,
                               f"`{into}[{idx}] = ...` inside `for {idx}, _ in enumerate({short(iterated, 50)})`{why}",
                               "positions of two different lists correspond only as long as nothing was removed from or inserted into one of them")
    ck.need(n >= 6, f"index stores inside enumerate loops found ({n})")


def _container_inits(func) -> dict[str, list[ast.stmt]]:  # type: ignore[no-untyped-def]
    out: dict[str, list[ast.stmt]] = {}
    for n in ast.walk(func.node):
        if isinstance(n, (ast.Assign, ast.AnnAssign)) and n.value is not None:
            t = n.targets[0] if isinstance(n, ast.Assign) else n.target
            if isinstance(t, ast.Name) and (_is_mutable_value(n.value) or (isinstance(n.value, ast.Call) and isinstance(n.value.func, ast.Name) and n.value.func.id[:1].isupper())):
                out.setdefault(t.id, []).append(n)
    return out


def r_loop_state(ck: Checker) -> None:
    """a container (or helper object) that is filled AND consulted inside a loop and that nothing outside the loop ever
    looks at describes one iteration: it is created inside the loop. Created before the loop it silently carries what
    earlier iterations (earlier statements of the program) recorded into the decisions about later ones."""
    n = 0
    for func in ck.prg.funcs.values():
        if isinstance(func.node, ast.Lambda):
            continue
        inits = _container_inits(func)
        if not inits:
            continue
        loops = [x for x in ast.walk(func.node) if isinstance(x, (ast.For, ast.While))]
        nested = {id(y) for lp in loops for y in ast.walk(lp) if isinstance(y, (ast.FunctionDef, ast.Lambda))}
        for name, stmts in inits.items():
            if len(stmts) != 1:
                continue
            init = stmts[0]
            loads = [x for x in ast.walk(func.node) if isinstance(x, ast.Name) and x.id == name and isinstance(x.ctx, ast.Load)]
            stores = [x for x in ast.walk(func.node) if isinstance(x, ast.Name) and x.id == name and isinstance(x.ctx, ast.Store)]
            if len(stores) != 1 or not loads:
                continue
            # the outermost loop that contains every use of the container
            holder = None
            for lp in loops:
                inside = {id(y) for y in ast.walk(lp)}
                if all(id(x) in inside for x in loads) and (holder is None or id(lp) not in {id(y) for y in ast.walk(holder)} or lp is holder):
                    if holder is None or id(holder) in inside:
                        holder = lp
            if holder is None:
                continue
            inside = {id(y) for y in ast.walk(holder)}
            recv_of_mut = set()
            mutated = False
            for y in ast.walk(holder):
                if isinstance(y, ast.Call) and isinstance(y.func, ast.Attribute) and y.func.attr in MUTATORS:
                    base = y.func.value
                    while isinstance(base, ast.Subscript):
                        base = base.value
                    if isinstance(base, ast.Name) and base.id == name:
                        mutated = True
                        recv_of_mut.add(id(base))
                elif isinstance(y, (ast.Assign, ast.AugAssign)):
                    tg = y.targets[0] if isinstance(y, ast.Assign) else y.target
                    base = tg
                    while isinstance(base, (ast.Subscript, ast.Attribute)):
                        base = base.value
                    if isinstance(tg, (ast.Subscript, ast.Attribute)) and isinstance(base, ast.Name) and base.id == name:
                        mutated = True
                        recv_of_mut.add(id(base))
            consulted = [x for x in loads if id(x) not in recv_of_mut]
            if not mutated or not consulted:
                continue
            # a "seen" set (`if k in seen: continue ... seen.add(k)`) is loop-carried on purpose: GEN.memo-key judges it
            par = {id(c): a for a in ast.walk(holder) for c in ast.iter_child_nodes(a)}
            if all(isinstance(par.get(id(x)), ast.Compare) and len(par[id(x)].ops) == 1 and isinstance(par[id(x)].ops[0], (ast.In, ast.NotIn)) and par[id(x)].comparators[0] is x for x in consulted):  # type: ignore[union-attr]
                continue
            n += 1
            ok = id(init) in inside
            ck.add(f"{tag(func.module.name)} {func.name}: `{name}` serves one iteration of the loop that fills and consults it, and is created there", ok, func, init,
                   f"`{short(unparse(init), 60)}` " + ("inside" if ok else "BEFORE") + f" the loop at line {holder.lineno}; nothing outside the loop reads it",
                   "state created before the loop accumulates over all iterations: what was recorded for an earlier statement then decides how a later one is rewritten")
    ck.need(n >= 10, f"per-iteration containers found ({n})")


# (function, key) -> why the remembered answer may ignore the other varying values (confirmed by reading)
MEMO_TRIAGE = {
    ("literal_duplication:LiteralCollector.process", "rule_builder.ruleid"): "by design a statement is rewritten at most once per round (the occurrences recorded for it refer to its body as it was): the set remembers statements, not occurrences",
    ("math_simplification:Goebner.simplify_equalities", "solve_for"): "by design a needed variable is defined by ONE equation: once an expression was solved for it, no other expression is (the expression only decides which equation that is)",
}


def _names(node: ast.AST) -> set[str]:
    return {x.id for x in ast.walk(node) if isinstance(x, ast.Name)}


def r_memo_key(ck: Checker) -> None:
    """`if K in S: continue / return <remembered>` with `S.add(K)` / `S[K] = ..` elsewhere in the function is a memo:
    the work that is skipped on a hit may depend on nothing that varies besides K - otherwise the answer remembered for
    one situation is reused in another (order predicates per predicate AND position, a split per sub-body AND rest, ...)"""
    from ..core import moved_lookup

    n = 0
    for func in ck.prg.funcs.values():
        if isinstance(func.node, ast.Lambda):
            continue
        parents: dict[int, ast.AST] = {}
        for a in ast.walk(func.node):
            for c in ast.iter_child_nodes(a):
                parents[id(c)] = a
        params = [x for x in func.params() if x not in ("self", "cls")]
        for node in ast.walk(func.node):
            if not isinstance(node, ast.If):
                continue
            test = node.test
            if isinstance(test, ast.BoolOp) and isinstance(test.op, ast.And):
                # `S is not None and K in S`
                mem = [v for v in test.values if isinstance(v, ast.Compare) and len(v.ops) == 1 and isinstance(v.ops[0], ast.In)]
                rest_ = [v for v in test.values if v not in mem]
                if len(mem) == 1 and all(isinstance(v, ast.Compare) and isinstance(v.ops[0], (ast.Is, ast.IsNot)) for v in rest_):
                    test = mem[0]
            if not (isinstance(test, ast.Compare) and len(test.ops) == 1 and isinstance(test.ops[0], (ast.In, ast.NotIn))):
                continue
            key, store = test.left, test.comparators[0]
            ktxt, stxt = unparse(key), unparse(store)
            if isinstance(key, ast.Constant):
                continue
            fills = [m for m in ast.walk(func.node)
                     if (isinstance(m, ast.Call) and isinstance(m.func, ast.Attribute) and m.func.attr in ("add", "append") and unparse(m.func.value) == stxt and m.args and unparse(m.args[0]) == ktxt)
                     or (isinstance(m, ast.Assign) and isinstance(m.targets[0], ast.Subscript) and unparse(m.targets[0].value) == stxt and unparse(m.targets[0].slice) == ktxt)]
            if not fills:
                continue
            hit = node.body if isinstance(test.ops[0], ast.In) else node.orelse
            miss = node.orelse if isinstance(test.ops[0], ast.In) else node.body
            # enclosing function-level nest of the `if`
            cur: ast.AST = node
            loop = None
            while id(cur) in parents and parents[id(cur)] is not func.node:
                cur = parents[id(cur)]
                if isinstance(cur, (ast.For, ast.While)) and loop is None:
                    loop = cur
                if isinstance(cur, (ast.FunctionDef, ast.Lambda)):
                    break
            if isinstance(cur, (ast.FunctionDef, ast.Lambda)) and cur is not func.node:
                continue  # belongs to a nested function, which is analysed on its own
            early = bool(hit) and isinstance(hit[-1], (ast.Continue, ast.Return, ast.Break))
            if not early and hit:
                continue  # both branches do work: not a skip
            # the statements a hit skips: the miss branch plus (for an early exit) whatever follows the `if` in its block
            holder = parents.get(id(node))
            block = next((getattr(holder, f) for f in ("body", "orelse", "finalbody") if isinstance(getattr(holder, f, None), list) and any(s is node for s in getattr(holder, f))), [])
            following = block[[i for i, s in enumerate(block) if s is node][0] + 1:] if early else []
            skipped = list(miss) + list(following)
            if not skipped:
                continue
            # names that occur in the skipped statements OUTSIDE of occurrences of the key expression itself
            # (`term.name` as key covers `term.name`, not `term.arguments`)
            kdump = ast.dump(key)

            def outside_key(tree: ast.AST) -> set[str]:
                out: set[str] = set()
                todo = [tree]
                while todo:
                    cur_ = todo.pop()
                    if isinstance(cur_, ast.expr) and ast.dump(cur_) == kdump:
                        continue
                    if isinstance(cur_, ast.Name):
                        out.add(cur_.id)
                    todo.extend(ast.iter_child_nodes(cur_))
                return out

            plain_key = isinstance(key, ast.Name) or (isinstance(key, ast.Tuple) and all(isinstance(e, ast.Name) for e in key.elts))
            used = set().union(*[(_names(s) if plain_key else outside_key(s)) for s in skipped]) if skipped else set()
            covered = (_names(key) if plain_key else set()) | _names(store)
            if isinstance(key, ast.Name):
                # `k = (a, b)` bound once: the components can be read back from the key
                kdefs = [s for s in ast.walk(func.node) if isinstance(s, (ast.Assign, ast.AnnAssign)) and s.value is not None
                         and any(isinstance(t, ast.Name) and t.id == key.id for t in (s.targets if isinstance(s, ast.Assign) else [s.target]))]
                if len(kdefs) == 1 and (isinstance(kdefs[0].value, ast.Name) or (isinstance(kdefs[0].value, ast.Tuple) and all(isinstance(e, ast.Name) for e in kdefs[0].value.elts))):
                    covered |= _names(kdefs[0].value)
            # what varies between two executions of the guard
            varying: set[str] = set()
            if loop is not None and isinstance(loop, ast.For):
                lp: ast.AST = node
                while id(lp) in parents and parents[id(lp)] is not func.node:
                    lp = parents[id(lp)]
                    if isinstance(lp, ast.For):
                        tnames = _names(lp.target)
                        varying |= tnames
                        if isinstance(lp.iter, ast.Call) and isinstance(lp.iter.func, ast.Attribute) and lp.iter.func.attr == "items" and isinstance(lp.target, ast.Tuple) and _names(lp.target.elts[0]) <= covered:
                            covered |= tnames  # the value of a dict entry is determined by its key
                scope: ast.AST = loop
                if isinstance(store, ast.Attribute) and unparse(store).startswith("self."):
                    # the memo lives on the object and survives this call: what the parameters bring varies as well
                    varying |= set(params)
                    scope = func.node
            else:
                varying |= set(params)
                scope = func.node
            # locals computed from varying values vary as well
            for _ in range(4):
                for s in ast.walk(scope):
                    if isinstance(s, (ast.Assign, ast.AnnAssign)) and s.value is not None and _names(s.value) & varying:
                        for tg in (s.targets if isinstance(s, ast.Assign) else [s.target]):
                            varying |= {x.id for x in ast.walk(tg) if isinstance(x, ast.Name) and isinstance(x.ctx, ast.Store)}
            # ... unless they are computed from the key alone
            for _ in range(3):
                for s in ast.walk(func.node):
                    if isinstance(s, ast.Assign) and len(s.targets) == 1 and isinstance(s.targets[0], ast.Name):
                        vn = _names(s.value) if plain_key else outside_key(s.value)
                        mentions_key = bool(_names(s.value) & covered) or (not plain_key and kdump in ast.dump(s.value))
                        if mentions_key and not (vn & varying) - covered:
                            covered.add(s.targets[0].id)
            loose = sorted((used & varying) - covered)
            n += 1
            ok = not loose
            why = ""
            if not ok:
                hit_t = MEMO_TRIAGE.get((func.short, ktxt)) or moved_lookup(MEMO_TRIAGE, func.short, ktxt, {f.short for f in ck.prg.funcs.values()})
                if hit_t:
                    ok, why = True, f" (triaged: {hit_t})"
            ck.add(f"{tag(func.module.name)} {func.name}: what `{short(ktxt, 40)} in {short(stxt, 30)}` skips depends only on the remembered key", ok, func, node,
                   f"skipped on a hit: {len(skipped)} statement(s) using {sorted(used & varying)}; not determined by the key: {loose}{why}",
                   "an answer remembered under an incomplete key is reused where it does not apply: rules that define an order predicate are not emitted for a second position, a split computed for one rule is applied to another, an index records only the first statement")
    ck.need(n >= 3, f"memo guards found ({n})")


def r_loop_leak(ck: Checker) -> None:
    """a name that is bound only inside a loop and read after it carries the value of ONE iteration: that is what a
    search loop that leaves through `break` wants, and a slip everywhere else (a statement that slid out of the loop body
    sees the last element only)"""
    n = 0
    for func in ck.prg.funcs.values():
        if isinstance(func.node, ast.Lambda):
            continue
        own: list[ast.AST] = []
        todo: list[ast.AST] = list(func.node.body)  # type: ignore[attr-defined]
        while todo:
            cur = todo.pop()
            own.append(cur)
            if isinstance(cur, (ast.FunctionDef, ast.AsyncFunctionDef, ast.Lambda, ast.ClassDef)):
                continue
            todo.extend(ast.iter_child_nodes(cur))
        loops = [x for x in own if isinstance(x, (ast.For, ast.While))]
        params = set(func.params())
        own_ids = {id(y) for y in own}
        inside_of = {id(lp): {id(x) for x in ast.walk(lp)} for lp in loops}
        names = {x.id for x in own if isinstance(x, ast.Name) and isinstance(x.ctx, ast.Store)} - params
        for name in sorted(names):
            stores = [x for x in own if isinstance(x, ast.Name) and x.id == name and isinstance(x.ctx, ast.Store)]
            holders = [lp for lp in loops if any(id(x) in inside_of[id(lp)] for x in stores)]
            if not holders or any(not any(id(x) in inside_of[id(lp)] for lp in loops) for x in stores):
                continue  # also bound outside of loops
            outer = [lp for lp in holders if not any(id(lp) in inside_of[id(o)] and o is not lp for o in holders)]
            for ld in [x for x in own if isinstance(x, ast.Name) and x.id == name and isinstance(x.ctx, ast.Load)]:
                if any(id(ld) in inside_of[id(lp)] for lp in holders):
                    continue
                before = [lp for lp in outer if getattr(lp, "end_lineno", 0) < getattr(ld, "lineno", 0)]
                if not before:
                    continue
                lp = max(before, key=lambda q: getattr(q, "end_lineno", 0))
                n += 1
                searches = any(isinstance(b, ast.Break) for b in ast.walk(lp))
                ck.add(f"{tag(func.module.name)} {func.name}: `{name}` is bound inside a loop and read after it - the loop is a search that leaves through `break`", searches, func, ld,
                       f"bound only inside loops, read at line {ld.lineno} after the loop at line {lp.lineno}; that loop has a `break`: {searches}",
                       "without a `break` the value is the one of the LAST iteration: `no_bound_needed.update(bound)` after the loop over the head elements reports the variables of the last element only")
    ck.need(n >= 5, f"loop-bound names read after their loop found ({n})")


def r_pred_identity(ck: Checker) -> None:
    """a predicate is a NAME AND AN ARITY (`p/2` and `p/3` are unrelated): wherever two predicate names are compared, the
    arities are compared in the same condition (or whole Predicate objects are); and no set or list of bare predicate
    names stands in for a set of predicates"""
    from ..mypy_bridge import build

    ti = build()

    def predicate_like(func, expr: ast.expr) -> bool:  # type: ignore[no-untyped-def]
        typ = (ti.type_at(func.module.name, expr) or "")
        txt = unparse(expr)
        return typ.endswith("Predicate") or "symbol" in txt.lower() or txt.endswith(".pred") or txt in ("pred", "hpred", "orig_pred", "new_pred")

    n = 0
    for func in ck.prg.funcs.values():
        if isinstance(func.node, ast.Lambda) or func.module.name in ("ngo.utils.logger",):
            continue
        parents: dict[int, ast.AST] = {}
        for a in ast.walk(func.node):
            for c in ast.iter_child_nodes(a):
                parents[id(c)] = a
        for node in ast.walk(func.node):
            if isinstance(node, ast.Compare) and len(node.ops) == 1 and isinstance(node.ops[0], (ast.Eq, ast.NotEq)):
                l, r = node.left, node.comparators[0]
                if not (isinstance(l, ast.Attribute) and l.attr == "name" and isinstance(r, ast.Attribute) and r.attr == "name"):
                    continue
                n += 1
                if not (predicate_like(func, l.value) or predicate_like(func, r.value)):
                    ck.add(f"{tag(func.module.name)} {func.name}: `{short(unparse(node), 50)}` compares names of variables", True, func, node, "not a predicate", "", nontrivial=False)
                    continue
                # the arity in the same conjunction
                up = parents.get(id(node))
                conj = [unparse(v).replace(" ", "") for v in up.values] if isinstance(up, ast.BoolOp) and isinstance(up.op, ast.And) else []
                lb, rb = unparse(l.value).replace(" ", ""), unparse(r.value).replace(" ", "")
                want = {f"len({lb}.arguments)==len({rb}.arguments)", f"len({rb}.arguments)==len({lb}.arguments)", f"{lb}.arity=={rb}.arity", f"{rb}.arity=={lb}.arity",
                        f"{lb}.arity==len({rb}.arguments)", f"len({rb}.arguments)=={lb}.arity", f"{rb}.arity==len({lb}.arguments)", f"len({lb}.arguments)=={rb}.arity"}
                ok = bool(want & set(conj))
                ck.add(f"{tag(func.module.name)} {func.name}: predicate names are compared together with the arities", ok, func, node, f"`{short(unparse(up if conj else node), 110)}`",
                       "`shift/2` and `shift/3` share a name: matching by name alone takes an unrestricted predicate for the at-most-one one, or emits the domain rules of the wrong predicate")
            elif isinstance(node, (ast.SetComp, ast.ListComp, ast.GeneratorExp)) and isinstance(node.elt, ast.Attribute) and node.elt.attr == "name":
                src = node.generators[0].iter
                typ = (ti.type_at(func.module.name, src) or "")
                if "Predicate" not in typ:
                    continue
                up = parents.get(id(node))
                if isinstance(up, ast.JoinedStr) or (isinstance(up, ast.Call) and unparse(up.func).split(".")[-1] in ("info", "debug", "warning", "join", "error")):
                    continue
                n += 1
                ck.add(f"{tag(func.module.name)} {func.name}: no collection of bare predicate names stands in for a set of predicates", False, func, node, f"`{short(unparse(node), 80)}` over `{short(typ, 60)}`",
                       "membership by name drops the arity: an open `edge/3` next to a derived `edge/2` is no longer reported as input")
            elif (isinstance(node, ast.Call) and isinstance(node.func, ast.Attribute) and node.func.attr in ("add", "append") and len(node.args) == 1
                  and isinstance(node.args[0], ast.Attribute) and node.args[0].attr == "name"):
                # the same as a loop: names.add(p.name)
                typ = (ti.type_at(func.module.name, node.args[0].value) or "")
                if not typ.endswith("Predicate"):
                    continue
                n += 1
                ck.add(f"{tag(func.module.name)} {func.name}: no collection of bare predicate names stands in for a set of predicates", False, func, node, f"`{short(unparse(node), 80)}` with `{unparse(node.args[0].value)}`: {short(typ, 50)}",
                       "membership by name drops the arity: an open `edge/3` next to a derived `edge/2` is no longer reported as input")
    ck.need(n >= 3, f"name comparisons found ({n})")


ONE_SHOT_CALLS = ("enumerate", "zip", "map", "filter", "iter", "reversed", "chain", "from_iterable", "product", "permutations", "combinations", "islice", "takewhile", "dropwhile", "starmap", "groupby")


def _one_shot_stores(tree: ast.AST) -> list[ast.stmt]:
    """assignments that keep a one-shot iterator in an attribute (`self.x = enumerate(..)`, a generator expression, ...)"""
    out: list[ast.stmt] = []
    for node in ast.walk(tree):
        if not isinstance(node, (ast.Assign, ast.AnnAssign)) or node.value is None:
            continue
        targets = node.targets if isinstance(node, ast.Assign) else [node.target]
        if not any(isinstance(t, ast.Attribute) for t in targets):
            continue
        v = node.value
        if isinstance(v, ast.GeneratorExp) or (isinstance(v, ast.Call) and unparse(v.func).split(".")[-1] in ONE_SHOT_CALLS):
            out.append(node)
    return out


def r_one_shot(ck: Checker) -> None:
    """an iterator is consumed by its first traversal: kept on an object it makes the second call of a method see an empty
    sequence (TranslationMap.translate_parameters then maps every later atom to no arguments at all)"""
    probe = ast.parse("class T:\n    def __init__(self, m):\n        self.m = enumerate(m)\n        self.k = list(m)\n")
    hit = _one_shot_stores(probe)
    ck.add("matcher self-test: `self.m = enumerate(m)` is recognised, `self.k = list(m)` is not", len(hit) == 1 and hit[0].lineno == 3, "ngo:<all>", None, f"{len(hit)} store(s) matched in the probe", "", nontrivial=False)
    n = 0
    for func in ck.prg.funcs.values():
        if isinstance(func.node, ast.Lambda):
            continue
        stores = [x for x in ast.walk(func.node) if isinstance(x, (ast.Assign, ast.AnnAssign)) and any(isinstance(t, ast.Attribute) for t in (x.targets if isinstance(x, ast.Assign) else [x.target]))]
        n += len(stores)
        for st_ in _one_shot_stores(func.node):
            ck.add(f"{tag(func.module.name)} {func.name}: no one-shot iterator is kept in an attribute", False, func, st_, f"`{short(unparse(st_), 90)}` stores an iterator that its first traversal exhausts",
                   "every later traversal sees nothing: the second atom translated through the same TranslationMap loses all its arguments, an objective over it silently costs 0")
    ck.add("no one-shot iterator is kept in an attribute (TranslationMap, translators, name generators)", True, "ngo:<all>", None, f"{n} attribute stores examined", "", nontrivial=False)
    ck.need(n >= 60, f"attribute stores found ({n})")


def _cross_wired(fnode: ast.AST) -> list[tuple[ast.stmt, str, str]]:
    """`self.a = b` in a constructor where a and b are both parameters and a != b"""
    args = getattr(fnode, "args", None)
    if args is None:
        return []
    params = {a.arg for a in args.posonlyargs + args.args + args.kwonlyargs} - {"self", "cls"}
    out = []
    for node in ast.walk(fnode):
        if isinstance(node, (ast.Assign, ast.AnnAssign)) and node.value is not None:
            for t in (node.targets if isinstance(node, ast.Assign) else [node.target]):
                if isinstance(t, ast.Attribute) and isinstance(t.value, ast.Name) and t.value.id == "self" and t.attr in params:
                    used = {x.id for x in ast.walk(node.value) if isinstance(x, ast.Name)} & params
                    if used and t.attr not in used:
                        out.append((node, t.attr, ", ".join(sorted(used))))
    return out


def r_ctor_wiring(ck: Checker) -> None:
    """a constructor that keeps its parameters keeps each under its own name: `self.output_predicates = input_predicates`
    silently hands the pass the wrong declaration (outputs are no longer protected from being inlined away)"""
    probe = ast.parse("class T:\n    def __init__(self, a, b):\n        self.a = a\n        self.b = a\n").body[0].body[0]  # type: ignore[attr-defined]
    hit = _cross_wired(probe)
    ck.add("matcher self-test: `self.b = a` is recognised, `self.a = a` is not", len(hit) == 1 and hit[0][1] == "b", "ngo:<all>", None, f"{len(hit)} store(s) matched in the probe", "", nontrivial=False)
    n = 0
    for func in ck.prg.funcs.values():
        if isinstance(func.node, ast.Lambda) or not func.name.endswith("__init__"):
            continue
        n += 1
        bad = _cross_wired(func.node)
        for node, attr, used in bad:
            ck.add(f"{tag(func.module.name)} {func.name}: the parameter `{attr}` is what `self.{attr}` keeps", False, func, node, f"`{short(unparse(node), 90)}`: the attribute named after parameter `{attr}` is filled from `{used}`",
                   "the pass then works with another declaration than the caller gave: with the inputs in place of the outputs, inline unfolds and deletes a rule that defines a declared output predicate")
        if not bad:
            ck.add(f"{tag(func.module.name)} {func.name}: every kept parameter is kept under its own name", True, func, func.node, "no attribute named after one parameter is filled from another", "", nontrivial=False)
    ck.need(n >= 10, f"constructors found ({n})")


def _misplaced_names(params: list[str], call: ast.Call) -> list[tuple[str, str]]:
    """(argument name, parameter it is passed as) for bare-name arguments that carry the name of ANOTHER parameter"""
    out = []
    if any(isinstance(a, ast.Starred) for a in call.args):
        return out
    for i, a in enumerate(call.args):
        if isinstance(a, ast.Name) and i < len(params) and a.id in params and params.index(a.id) != i:
            out.append((a.id, params[i]))
    for kw in call.keywords:
        if kw.arg and isinstance(kw.value, ast.Name) and kw.value.id in params and kw.value.id != kw.arg:
            out.append((kw.value.id, kw.arg))
    return out


def r_arg_names(ck: Checker) -> None:
    """throughout ngo a local that is named like a parameter of the function it is handed to is handed over AS that
    parameter (678 resolved calls, no exception): `good_split(rest, new, stm)` for `def good_split(self, new, rest, stm)` is
    two arguments in the wrong order"""
    probe = ast.parse("f(rest, new, stm)").body[0].value  # type: ignore[attr-defined]
    hit = _misplaced_names(["new", "rest", "stm"], probe)
    ck.add("matcher self-test: `f(rest, new, stm)` for parameters (new, rest, stm) is recognised", len(hit) == 2 and not _misplaced_names(["new", "rest", "stm"], ast.parse("f(new, rest, stm)").body[0].value), "ngo:<all>", None, f"{len(hit)} misplaced name(s) in the probe", "", nontrivial=False)  # type: ignore[attr-defined]
    n = 0
    for func in ck.prg.funcs.values():
        if isinstance(func.node, ast.Lambda):
            continue
        for call in [x for x in ast.walk(func.node) if isinstance(x, ast.Call)]:
            res = ck.prg.resolve_callee(func, call.func)
            tgt = ck.prg.funcs.get(res) if res else None
            if tgt is None and res in ck.prg.classes:
                tgt = ck.prg.funcs.get(f"{res}.__init__")
            if tgt is None or isinstance(tgt.node, ast.Lambda):
                continue
            n += 1
            params = [p_ for p_ in tgt.params() if p_ not in ("self", "cls")]
            for name, as_ in _misplaced_names(params, call):
                ck.add(f"{tag(func.module.name)} {func.name}: `{name}` is passed to {tgt.name} as `{name}`", False, func, call, f"`{short(unparse(call), 90)}` passes `{name}` as parameter `{as_}` of {tgt.name}({', '.join(params)})",
                       "two arguments of the same type in the wrong order type-check and run: the callee then tests the safety of the wrong half of a split, renames the wrong variables, registers the outputs as inputs")
    ck.add("arguments named like a parameter of the callee are passed as that parameter", True, "ngo:<all>", None, f"{n} resolved calls examined", "", nontrivial=False)
    ck.need(n >= 500, f"resolved calls found ({n})")


def r_analysis_args(ck: Checker) -> None:
    """the analysis objects every pass builds (UniqueNames, RuleDependency, DomainPredicates) look at the WHOLE program the
    pass was given and at the declared inputs: all 19 constructions on the tree pass the enclosing function's own parameters"""
    want = {"UniqueNames": (("prg", 0), ("input_predicates", 1)), "RuleDependency": (("prg", 0),), "DomainPredicates": (("prg", 1),)}
    n = 0
    for func in ck.prg.funcs.values():
        if isinstance(func.node, ast.Lambda):
            continue
        params = set(func.params())
        stored = {x.id for x in ast.walk(func.node) if isinstance(x, ast.Name) and isinstance(x.ctx, ast.Store)}
        for call in [x for x in ast.walk(func.node) if isinstance(x, ast.Call)]:
            res = ck.prg.resolve_callee(func, call.func) or ""
            cname = res.split(":")[-1]
            if res not in ck.prg.classes or cname not in want:
                continue
            n += 1
            for pname, pos in want[cname]:
                arg = call.args[pos] if pos < len(call.args) else next((k.value for k in call.keywords if k.arg == pname), None)
                ok = isinstance(arg, ast.Name) and arg.id in params and arg.id not in stored
                ck.add(f"{tag(func.module.name)} {func.name}: {cname} is built on the {'program' if pname == 'prg' else 'declared inputs'} the pass was given", ok, func, call,
                       f"`{short(unparse(call), 80)}`: `{pname}` is `{unparse(arg) if arg is not None else None}`" + ("" if ok else " - not an unmodified parameter of the enclosing function"),
                       "an analysis of a filtered program (facts left out) misses derivations: domains become too small, 'defined by one rule' becomes true for predicates with facts; a name generator that is not told the declared inputs hands out `__aux_1` although the instance has `__aux_1` facts")
    ck.need(n >= 15, f"constructions of the analysis objects found ({n})")


_EXTRA = module_extra()
_EXTRA_ONE_SHOT = {**_EXTRA, **{p_: tuple(_EXTRA.get(p_, ())) + ("TranslationMap", "[utils.ast]") for p_ in ("C02", "C12", "C13")}}

RULES = [
    Rule("GEN.class-state", ("C17", "C01"), r_class_state, extra=_EXTRA),
    Rule("GEN.index-space", ("C01",), r_index_space, extra=_EXTRA),
    Rule("GEN.loop-state", ("C01",), r_loop_state, extra=_EXTRA),
    Rule("GEN.memo-key", ("C01",), r_memo_key, extra=_EXTRA),
    Rule("GEN.pred-identity", ("C01",), r_pred_identity, extra=_EXTRA),
    Rule("GEN.loop-leak", ("C01",), r_loop_leak, extra=_EXTRA),
    Rule("GEN.one-shot", ("C01",), r_one_shot, extra=_EXTRA_ONE_SHOT),
    Rule("GEN.ctor-wiring", ("C01", "C07"), r_ctor_wiring, extra=_EXTRA),
    Rule("GEN.arg-names", ("C01",), r_arg_names, extra=_EXTRA),
    Rule("GEN.analysis-args", ("C01", "C07"), r_analysis_args, extra=_EXTRA),
]
