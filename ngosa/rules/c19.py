"""C19 — the command line is the API (DESIGN §4 C19, items 1-9)."""

from __future__ import annotations

import ast
from typing import Optional

from ..core import Checker, Rule, attr_calls, callee_is, calls_in, kwarg, resolved_calls, short
from ..interp import Pins, find_nodes, unparse
from ..model import AnalysisError, Func

P = ("C19",)

# README "Traits" table: flag of optimize -> (module, class)
TRAIT_CLASSES = {
    "cleanup": ("ngo.cleanup", "CleanupTranslator"),
    "unused": ("ngo.unused", "UnusedTranslator"),
    "duplication": ("ngo.literal_duplication", "LiteralDuplicationTranslator"),
    "symmetry": ("ngo.symmetry", "SymmetryTranslator"),
    "minmax_chains": ("ngo.minmax_aggregates", "MinMaxAggregator"),
    "sum_chains": ("ngo.sum_aggregates", "SumAggregator"),
    "math": ("ngo.math_simplification", "MathSimplification"),
    "inline": ("ngo.inline", "InlineTranslator"),
    "projection": ("ngo.projection", "ProjectionTranslator"),
}


def optimize_flags(ck: Checker) -> tuple[Func, list[str], dict[str, bool]]:
    """bool-annotated parameters of api.optimize with their defaults"""
    func = ck.func("api:optimize")
    args = func.node.args  # type: ignore[attr-defined]
    params = args.posonlyargs + args.args
    defaults = [None] * (len(params) - len(args.defaults)) + list(args.defaults)
    flags: list[str] = []
    dflt: dict[str, bool] = {}
    for arg, default in list(zip(params, defaults)) + list(zip(args.kwonlyargs, args.kw_defaults)):
        ann = arg.annotation
        if isinstance(ann, ast.Name) and ann.id == "bool":
            flags.append(arg.arg)
            if isinstance(default, ast.Constant) and isinstance(default.value, bool):
                dflt[arg.arg] = default.value
    ck.need(len(flags) >= 1, "api.optimize has bool-annotated trait parameters")
    return func, flags, dflt


def r_option_lists(ck: Checker) -> None:
    """1. ALL_OPTIONS = the bool flags of optimize, DEFAULT_OPTIONS = those whose default is True"""
    func, flags, dflt = optimize_flags(ck)
    mod = ck.prg.module("utils.parser")
    try:
        all_opts = ck.prg.fold(mod, ast.Name("ALL_OPTIONS", ast.Load()))
        def_opts = ck.prg.fold(mod, ast.Name("DEFAULT_OPTIONS", ast.Load()))
    except ValueError as err:
        raise AnalysisError(f"C19: ALL_OPTIONS/DEFAULT_OPTIONS are not statically foldable: {err}") from err
    ck.add("ALL_OPTIONS == bool parameters of optimize", set(all_opts) == set(flags), "utils.parser:<module>", None,  # type: ignore[arg-type]
           f"ALL_OPTIONS={sorted(all_opts)} flags={sorted(flags)}",  # type: ignore[type-var,arg-type]
           "`--enable all` (and the accepted choices) must name exactly the traits optimize has")
    ck.add("every flag has a bool default", set(dflt) == set(flags), func, func.node, f"defaults={dflt}", "the documented default set is read from the defaults")
    want = {f for f in flags if dflt.get(f)}
    ck.add("DEFAULT_OPTIONS == flags defaulting to True", set(def_opts) == want, "utils.parser:<module>", None,  # type: ignore[arg-type]
           f"DEFAULT_OPTIONS={sorted(def_opts)} expected={sorted(want)}",  # type: ignore[type-var,arg-type]
           "`ngo` without --enable, `--enable default` and optimize() with default arguments must agree")


def _main_optimize_call(ck: Checker) -> tuple[Func, ast.Call]:
    main = ck.func("__main__:main")
    calls = resolved_calls(ck.prg, main, "ngo.api:optimize")
    ck.need(len(calls) == 1, "main() calls ngo.api.optimize exactly once")
    return main, calls[0]


def r_main_wiring(ck: Checker) -> None:
    """2. main passes flag b as `"b" in args.enable`, program and predicate lists positionally in order"""
    _, flags, _ = optimize_flags(ck)
    main, call = _main_optimize_call(ck)
    it = ck.interp(main)
    parse_calls = resolved_calls(ck.prg, main, "clingo.ast.parse_args", "parse_args") or attr_calls(main, "parse_args")
    ck.need(len(parse_calls) == 1, "main() calls parser.parse_args() once")
    # name bound to the parse result
    args_name: Optional[str] = None
    for node in ast.walk(main.node):
        if isinstance(node, ast.Assign) and node.value is parse_calls[0] and isinstance(node.targets[0], ast.Name):
            args_name = node.targets[0].id
    ck.need(args_name is not None, "result of parse_args() is bound to a local")
    st = it.states(call)[0] if it.states(call) else None
    ck.need(st is not None, "optimize call reachable in main")
    opt_params = ck.func("api:optimize").params()
    for flag in flags:
        val = kwarg(call, flag, opt_params.index(flag) if flag in opt_params else None)
        ok = False
        text = "<missing>"
        if val is not None:
            text = unparse(val)
            ok = (
                isinstance(val, ast.Compare)
                and len(val.ops) == 1
                and isinstance(val.ops[0], ast.In)
                and isinstance(val.left, ast.Constant)
                and val.left.value == flag
                and (unparse(val.comparators[0]) == f"{args_name}.enable" or it.texts(call, val.comparators[0]) == it.texts(call, ast.parse(f"{args_name}.enable", mode="eval").body))  # also through a local
            )
        ck.add(f"optimize({flag}=...)", ok, main, call, f"keyword {flag} is bound to `{text}`, expected `'{flag}' in {args_name}.enable`",
               "a trait named on the command line must switch on exactly the trait of the same name")
    extra = [kw.arg for kw in call.keywords if kw.arg not in flags]
    ck.add("no other keywords", not extra, main, call, f"unexpected keywords {extra}", "", nontrivial=False)
    pos = [unparse(a) for a in call.args]
    # positional: program list, input predicates, output predicates
    ok_in = len(call.args) >= 2 and pos[1] == f"{args_name}.input_predicates" or unparse(kwarg(call, "input_predicates") or ast.Constant(None)) == f"{args_name}.input_predicates"
    ok_out = len(call.args) >= 3 and pos[2] == f"{args_name}.output_predicates" or unparse(kwarg(call, "output_predicates") or ast.Constant(None)) == f"{args_name}.output_predicates"
    ck.add("input predicates argument", ok_in, main, call, f"positional args {pos}", "--input-predicates must reach optimize as input_predicates (not swapped)")
    ck.add("output predicates argument", ok_out, main, call, f"positional args {pos}", "--output-predicates must reach optimize as output_predicates (not swapped)")


def r_enable_option(ck: Checker) -> None:
    """3. declaration of --enable"""
    gp = ck.func("utils.parser:get_parser")
    mod = gp.module
    decl = [c for c in attr_calls(gp, "add_argument") if c.args and isinstance(c.args[0], ast.Constant) and c.args[0].value == "--enable"]
    ck.need(len(decl) == 1, "get_parser declares --enable once")
    call = decl[0]
    all_opts = ck.prg.fold(mod, ast.Name("ALL_OPTIONS", ast.Load()))
    def_opts = ck.prg.fold(mod, ast.Name("DEFAULT_OPTIONS", ast.Load()))

    def folded(name: str) -> object:
        val = kwarg(call, name)
        if val is None:
            return None
        try:
            return ck.prg.fold(mod, val)
        except ValueError:
            return f"<unfoldable {unparse(val)}>"

    choices = folded("choices")
    ck.add("--enable choices", isinstance(choices, (list, tuple)) and set(choices) == {"all", "none", "default"} | set(all_opts), gp, call,  # type: ignore[arg-type]
           f"choices={choices}", "every trait name and the three keywords must be accepted, nothing else")
    ck.add("--enable nargs", folded("nargs") == "+", gp, call, f"nargs={folded('nargs')}", "several traits may be named")
    default = folded("default")
    ck.add("--enable default", isinstance(default, (list, tuple)) and set(default) == set(def_opts), gp, call,  # type: ignore[arg-type]
           f"default={default}", "absent --enable means the documented default traits")
    action = kwarg(call, "action")
    ck.add("--enable action", action is not None and (ck.prg.resolve_callee(gp, action) or "").endswith(":VerifyEnable"), gp, call,
           f"action={unparse(action) if action is not None else None}", "all/default/none are expanded by VerifyEnable")
    typ = kwarg(call, "type")
    ck.add("--enable type", typ is not None and unparse(typ) in ("str.lower", "str"), gp, call, f"type={unparse(typ) if typ is not None else None}",
           "values are matched against lower-case trait names")


# -------------------------------------------------------------------------------- VerifyEnable
class _SetExpr:
    """symbolic evaluation of the value stored by VerifyEnable: constants plus (part of) the user's values"""

    def __init__(self, ck: Checker, func: Func, all_opts: set[str]):
        self.ck, self.func, self.all = ck, func, all_opts

    def eval(self, node: ast.expr, user: str) -> tuple[set[str], Optional[set[str]], bool]:
        """(constant members, None if all user values kept else the set of user values that survive, recognised)"""
        if isinstance(node, ast.Name):
            if node.id == user:
                return set(), None, True
            try:
                val = self.ck.prg.fold(self.func.module, node)
                return set(val), set(), True  # type: ignore[arg-type]
            except (ValueError, TypeError):
                return set(), set(), False
        if isinstance(node, (ast.List, ast.Tuple, ast.Set)):
            try:
                return set(self.ck.prg.fold(self.func.module, node)), set(), True  # type: ignore[arg-type]
            except (ValueError, TypeError):
                return set(), set(), False
        if isinstance(node, ast.Call) and isinstance(node.func, ast.Name) and node.func.id in ("sorted", "list", "set", "tuple", "frozenset") and len(node.args) == 1:
            return self.eval(node.args[0], user)
        if isinstance(node, ast.BinOp) and isinstance(node.op, (ast.Add, ast.BitOr)):
            lc, lu, lr = self.eval(node.left, user)
            rc, ru, rr = self.eval(node.right, user)
            keep: Optional[set[str]]
            if lu is None or ru is None:
                keep = None
            else:
                keep = lu | ru
            return lc | rc, keep, lr and rr
        if isinstance(node, (ast.ListComp, ast.SetComp, ast.GeneratorExp)) and len(node.generators) == 1:
            gen = node.generators[0]
            if isinstance(gen.target, ast.Name) and isinstance(node.elt, ast.Name) and node.elt.id == gen.target.id:
                consts, keep, rec = self.eval(gen.iter, user)
                for cond in gen.ifs:
                    ok, allowed = self._filter(cond, gen.target.id)
                    if not ok:
                        return consts, keep, False
                    if allowed is not None:
                        consts &= allowed
                        keep = (allowed if keep is None else keep & allowed)
                return consts, keep, rec
        return set(), set(), False

    def _filter(self, cond: ast.expr, var: str) -> tuple[bool, Optional[set[str]]]:
        """(recognised, None if the filter only removes non-trait words else the allowed set)"""
        if isinstance(cond, ast.Compare) and len(cond.ops) == 1 and isinstance(cond.left, ast.Name) and cond.left.id == var:
            op, right = cond.ops[0], cond.comparators[0]
            try:
                val = self.ck.prg.fold(self.func.module, right)
            except (ValueError, TypeError):
                return False, None
            if isinstance(op, ast.NotEq) and isinstance(val, str):
                return True, (None if val not in self.all else self.all - {val})
            if isinstance(op, ast.NotIn) and isinstance(val, (list, tuple, set, frozenset)):
                return True, (None if not set(val) & self.all else self.all - set(val))
            if isinstance(op, ast.In) and isinstance(val, (list, tuple, set, frozenset)):
                return True, set(val)
        return False, None


def r_verify_enable(ck: Checker) -> None:
    """4. VerifyEnable.__call__: none is exclusive; all -> every trait; default -> named + defaults; else named"""
    func = ck.func("utils.parser:VerifyEnable.__call__")
    mod = func.module
    all_opts = set(ck.prg.fold(mod, ast.Name("ALL_OPTIONS", ast.Load())))  # type: ignore[arg-type]
    def_opts = set(ck.prg.fold(mod, ast.Name("DEFAULT_OPTIONS", ast.Load())))  # type: ignore[arg-type]
    params = func.params()
    ck.need(len(params) >= 4, "argparse Action signature (self, parser, namespace, values, ...)")
    ns, user = params[2], params[3]
    stores = calls_in(func, lambda c: isinstance(c.func, ast.Name) and c.func.id == "setattr")
    raises = find_nodes(func.node, lambda n: isinstance(n, ast.Raise))
    ck.need(len(stores) >= 1, "VerifyEnable stores the result with setattr")
    ck.need(len(raises) >= 1, "VerifyEnable rejects `none` combined with other values")
    k_all, k_def, k_none, k_many = f"'all' in {user}", f"'default' in {user}", f"'none' in {user}", f"1 < len({user})"
    # (a) none is exclusive
    it = ck.interp(func, Pins.of(facts={k_none: True, k_many: True}, entry=True))
    ck.add("none + others is rejected", not any(it.reachable(s) for s in stores) and any(it.reachable(r) for r in raises), func, raises[0],
           "under `len(values) > 1 and 'none' in values` no value is stored and an ArgumentTypeError is raised", "invalid combinations are rejected without output")
    for label, facts in (("single value", {k_many: False}), ("no none", {k_none: False})):
        it = ck.interp(func, Pins.of(facts=facts, entry=True))
        ck.add(f"no rejection: {label}", not any(it.reachable(r) for r in raises) and any(it.reachable(s) for s in stores), func, raises[0],
               f"under {facts} nothing is raised and a value is stored", "every list the parser accepts must be expanded, not rejected")
    # (b) stored value per case
    evaluator = _SetExpr(ck, func, all_opts)
    cases = [
        ("all", {k_all: True}, all_opts, False),
        ("default without all", {k_all: False, k_def: True}, def_opts, True),
        ("plain names", {k_all: False, k_def: False}, set(), True),
    ]
    for label, facts, want_consts, want_user in cases:
        it = ck.interp(func, Pins.of(facts={**facts, k_none: False}, entry=True))
        reached = [s for s in stores if it.reachable(s)]
        ck.need(bool(reached), f"VerifyEnable stores a value in case `{label}`")
        for store in reached:
            ck.need(len(store.args) == 3, "setattr(namespace, dest, value)")
            dest_ok = unparse(store.args[0]) == ns and unparse(store.args[1]) == "self.dest"
            for st in it.states(store):
                value = it.expand(store.args[2], st)
                consts, keep, rec = evaluator.eval(value, user)
                if not rec:
                    raise AnalysisError(f"C19: cannot interpret the value stored by VerifyEnable in case `{label}`: {unparse(value)}")
                trait_consts = consts & all_opts | (consts - {"all", "none", "default"} - all_opts)
                if label == "all":
                    ok = all_opts <= consts
                else:
                    lost = set() if keep is None else (all_opts - keep)
                    ok = (consts & all_opts) == want_consts and (not want_user or not lost) and not (trait_consts - all_opts)
                ck.add(f"stored value: {label}", ok and dest_ok, func, store,
                       f"stores `{short(unparse(value))}` = constants {sorted(consts & all_opts)} + {'all named traits' if keep is None else 'named traits restricted to ' + str(sorted(keep))}; expected constants {sorted(want_consts)}{' + all named traits' if want_user else ''} into namespace.<dest>",
                       "the documented expansion: all = nine traits, default = all but duplication (plus names given), names = themselves")


def r_predicate_list(ck: Checker) -> None:
    """5. PredicateList: auto verbatim, None/'' -> [], else Predicate(name.strip, int(arity)) per comma item"""
    func = ck.func("utils.parser:PredicateList.__call__")
    params = func.params()
    ck.need(len(params) >= 4, "argparse Action signature")
    ns, user = params[2], params[3]
    stores = calls_in(func, lambda c: isinstance(c.func, ast.Name) and c.func.id == "setattr")
    ck.need(len(stores) >= 1, "PredicateList stores with setattr")
    k_auto, k_none, k_empty = f"{user} == 'auto'", f"{user} is None", f"{user} == ''"

    def stored(facts: dict[str, bool], vals: Optional[dict[str, str]] = None) -> list[str]:
        it = ck.interp(func, Pins.of(vals=vals, facts=facts, entry=True))
        out = []
        for store in stores:
            for st in it.states(store):
                out.append(unparse(it.expand(store.args[2], st)))
        return sorted(set(out))

    got = stored({}, {user: "'auto'"})
    ck.add("auto is stored verbatim", got in ([user], ["'auto'"]), func, stores[0], f"under values == 'auto' stores {got}", "`auto` must reach main() unchanged to trigger auto-detection")
    got = stored({k_none: True}, None)
    ck.add("absent value -> []", got == ["[]"], func, stores[0], f"under values is None stores {got}", "`--output-predicates` without argument means no predicates")
    got = stored({k_none: False}, {user: "''"})
    ck.add("empty string -> []", got == ["[]"], func, stores[0], f"under values == '' stores {got}", "an empty list means no predicates")
    # list case: the constructed Predicate
    it = ck.interp(func, Pins.of(facts={k_none: False}, vals=None, entry=True))
    preds = resolved_calls(ck.prg, func, "ngo.utils.ast:Predicate")
    ck.need(len(preds) == 1, "PredicateList constructs Predicate(name, arity) at one site")
    call = preds[0]
    ck.need(it.reachable(call), "Predicate(...) reachable")
    for st in it.states(call):
        name = unparse(it.expand(call.args[0], st)) if call.args else "<none>"
        arity = unparse(it.expand(call.args[1], st)) if len(call.args) > 1 else "<none>"
        item = None
        for root, org in st.origin.items():
            if org.replace('"', "'").endswith(".split(',')[*]"):
                item = root
        ck.need(item is not None, "items come from values.split(',')")
        ok_name = name.replace('"', "'").startswith(f"{item}.split('/')[0]") and ".strip(" in name
        ok_arity = arity.replace('"', "'") == f"int({item}.split('/')[1])"
        ck.add("Predicate name", ok_name, func, call, f"name argument is `{name}`", "name/arity: the part before the slash, stripped, is the name")
        ck.add("Predicate arity", ok_arity, func, call, f"arity argument is `{arity}`", "name/arity: the part after the slash is the integer arity")
        ck.add("two parts required", it.holds(call, f"len({item}.split('/')) == 2"), func, call, "Predicate(...) only built when the item has exactly two '/'-separated parts",
               "malformed items must be rejected with ArgumentTypeError")
        break
    # the result list is what is stored
    appends = [c for c in attr_calls(func, "append") if c.args and c.args[0] is call]
    ck.add("every item is appended to the stored list", len(appends) == 1 and any(unparse(s.args[2]) == unparse(appends[0].func.value) for s in stores), func, call,  # type: ignore[attr-defined]
           "pred_list.append(Predicate(...)) and setattr(..., pred_list)", "every listed predicate must reach optimize")


def r_predicate_options(ck: Checker) -> None:
    """defaults of --input-predicates / --output-predicates"""
    gp = ck.func("utils.parser:get_parser")
    for opt in ("--input-predicates", "--output-predicates"):
        decl = [c for c in attr_calls(gp, "add_argument") if c.args and isinstance(c.args[0], ast.Constant) and c.args[0].value == opt]
        ck.need(len(decl) == 1, f"get_parser declares {opt} once")
        call = decl[0]
        default = kwarg(call, "default")
        action = kwarg(call, "action")
        nargs = kwarg(call, "nargs")
        ck.add(f"{opt} default auto", isinstance(default, ast.Constant) and default.value == "auto", gp, call, f"default={unparse(default) if default is not None else None}",
               "by default predicates are auto-detected")
        ck.add(f"{opt} action", action is not None and (ck.prg.resolve_callee(gp, action) or "").endswith(":PredicateList"), gp, call,
               f"action={unparse(action) if action is not None else None}", "lists are parsed by PredicateList")
        ck.add(f"{opt} nargs", isinstance(nargs, ast.Constant) and nargs.value == "?", gp, call, f"nargs={unparse(nargs) if nargs is not None else None}",
               "the option may be given without a value (empty list)")


def r_main_auto(ck: Checker) -> None:
    """6. main(): 'auto' -> the matching detector; '' -> []; nothing else rewrites the predicate options"""
    main, call = _main_optimize_call(ck)
    it = ck.interp(main)
    for kind, detector in (("input_predicates", "auto_detect_input"), ("output_predicates", "auto_detect_output")):
        assigns = [
            n for n in find_nodes(main.node, lambda n: isinstance(n, ast.Assign))
            if any(isinstance(t, ast.Attribute) and t.attr == kind for t in n.targets)  # type: ignore[attr-defined]
        ]
        saw_auto = False
        for node in assigns:
            target = unparse(node.targets[0])  # type: ignore[attr-defined]
            value = node.value  # type: ignore[attr-defined]
            if isinstance(value, ast.Call) and callee_is(ck.prg, main, value, f"ngo.utils.globals:{detector}"):
                saw_auto = True
                ck.add(f"{kind}: detector only for auto", it.holds(node, f"{target} == 'auto'"), main, node,
                       f"`{short(unparse(node))}` is {'guarded' if it.holds(node, target + ' == ' + repr('auto')) else 'NOT guarded'} by `{target} == 'auto'`",
                       "explicit (also empty) predicate lists must reach optimize unchanged; only `auto` triggers detection")
                prg_arg = unparse(value.args[0]) if value.args else ""
                ck.add(f"{kind}: detector sees the parsed program", prg_arg == unparse(call.args[0]), main, node, f"detector argument `{prg_arg}` vs optimize argument `{unparse(call.args[0])}`",
                       "detection must look at the program that is optimised")
            elif isinstance(value, ast.List) and not value.elts:
                ok = it.holds(node, f"{target} == ''") or it.holds(node, f"{target} is None")
                ck.add(f"{kind}: [] only for empty", ok, main, node, f"`{short(unparse(node))}` guarded by `{target} == ''`: {ok}", "only the empty option value means the empty list")
            elif isinstance(value, ast.Call) and (callee_is(ck.prg, main, value, "ngo.utils.globals:auto_detect_input") or callee_is(ck.prg, main, value, "ngo.utils.globals:auto_detect_output")):
                ck.add(f"{kind}: crossed detector", False, main, node, f"`{short(unparse(node))}` uses the other detector", "inputs come from auto_detect_input, outputs from auto_detect_output")
            else:
                ck.add(f"{kind}: unexpected rewrite", False, main, node, f"`{short(unparse(node))}` rewrites the option", "the parsed option must reach optimize")
        ck.add(f"{kind}: auto handled", saw_auto, main, call, f"main() calls {detector} for `auto`: {saw_auto}", "`auto` (the default) must be replaced by the detected list")


def r_stdout(ck: Checker) -> None:
    """7. stdout discipline: the only print is the loop over optimize's result; logging to stderr"""
    main, call = _main_optimize_call(ck)
    result_name: Optional[str] = None
    for node in ast.walk(main.node):
        if isinstance(node, ast.Assign) and node.value is call and isinstance(node.targets[0], ast.Name):
            result_name = node.targets[0].id
    ck.need(result_name is not None, "result of optimize() is bound to a local in main")
    prints = 0
    for mod in ck.prg.modules.values():
        for node in ast.walk(mod.tree):
            bad = None
            if isinstance(node, ast.Name) and node.id in ("print", "pprint") and isinstance(node.ctx, ast.Load):
                func = ck.prg.enclosing_func(mod, node)
                ok = False
                if func is not None and func.qualname == main.qualname:
                    # must be `for x in <result>: print(x)`
                    for loop in find_nodes(main.node, lambda n: isinstance(n, ast.For)):
                        body = loop.body  # type: ignore[attr-defined]
                        if (
                            len(body) == 1 and isinstance(body[0], ast.Expr) and isinstance(body[0].value, ast.Call) and body[0].value.func is node
                            and unparse(loop.iter) == result_name  # type: ignore[attr-defined]
                            and len(body[0].value.args) == 1 and not body[0].value.keywords
                            and unparse(body[0].value.args[0]) == unparse(loop.target)  # type: ignore[attr-defined]
                            and loop.lineno > call.lineno
                        ):
                            ok = True
                prints += 1
                ck.add(f"print in {func.short if func else mod.name}", ok, func or mod.name, node,
                       "print is the loop over the statements returned by optimize" if ok else "print outside the output loop of main()",
                       "nothing but the optimised program may be written to stdout (CHANGELOG 1.0.2)")
            elif isinstance(node, ast.Attribute) and node.attr in ("stdout", "__stdout__") and isinstance(node.value, ast.Name) and node.value.id == "sys":
                bad = "sys.stdout"
            elif isinstance(node, ast.Call) and isinstance(node.func, ast.Attribute) and node.func.attr == "write" and isinstance(node.func.value, ast.Name) and node.func.value.id == "os":
                bad = "os.write"
            if bad:
                func = ck.prg.enclosing_func(mod, node)
                ck.add(f"{bad} in {func.short if func else mod.name}", False, func or mod.name, node, f"{bad} used", "nothing but the optimised program may be written to stdout")
    ck.add("exactly one print", prints == 1, main, call, f"{prints} print reference(s) in package ngo", "the program is printed once, statement by statement")
    basic = calls_in(main, lambda c: isinstance(c.func, ast.Attribute) and c.func.attr == "basicConfig")
    ck.need(len(basic) == 1, "main() configures logging with basicConfig")
    stream = kwarg(basic[0], "stream")
    ck.add("logging goes to stderr", stream is not None and unparse(stream) == "sys.stderr", main, basic[0], f"basicConfig(stream={unparse(stream) if stream is not None else None})",
           "log output on stdout would corrupt the emitted encoding")
    handlers = [m for m in ck.prg.modules.values() for n in ast.walk(m.tree) if isinstance(n, ast.Call) and isinstance(n.func, ast.Attribute) and n.func.attr in ("StreamHandler", "addHandler")]
    ck.add("no extra log handlers", not handlers, main, basic[0], f"{len(handlers)} StreamHandler/addHandler call(s)", "a handler on stdout would corrupt the output", nontrivial=False)


def r_stdin(ck: Checker) -> None:
    """8. the program read from stdin is the list handed to optimize"""
    main, call = _main_optimize_call(ck)
    parses = resolved_calls(ck.prg, main, "clingo.ast.parse_files")
    ck.need(len(parses) == 1, "main() calls clingo.ast.parse_files once")
    pf = parses[0]
    files = pf.args[0] if pf.args else kwarg(pf, "files")
    callback = pf.args[1] if len(pf.args) > 1 else kwarg(pf, "callback")
    ck.add("reads stdin", files is not None and unparse(files) in ("['-']", "('-',)"), main, pf, f"files={unparse(files) if files is not None else None}", "ngo reads the program from stdin")
    prg_arg = unparse(call.args[0]) if call.args else unparse(kwarg(call, "prg") or ast.Constant(None))
    ck.add("parsed statements are what is optimised", callback is not None and unparse(callback) == f"{prg_arg}.append", main, pf,
           f"callback={unparse(callback) if callback is not None else None}, optimize argument={prg_arg}", "stdout must be optimize(parse(stdin))")
    logger = kwarg(pf, "logger")
    ok = logger is not None and "logging.warning" in unparse(logger) or logger is None
    ck.add("clingo messages do not go to stdout", ok, main, pf, f"logger={unparse(logger) if logger is not None else None}", "parser messages must not be mixed into the program", nontrivial=False)


def r_pass_dispatch(ck: Checker) -> None:
    """9. api.optimize: each pass is controlled by exactly its own flag and built from the documented class"""
    func, flags, _ = optimize_flags(ck)
    execs = attr_calls(func, "execute")
    base = ck.interp(func)
    seen: dict[str, ast.Call] = {}
    for call in execs:
        texts = base.texts(call, call.func.value)  # type: ignore[attr-defined]
        recvs = [ast.parse(t, mode="eval").body for t in sorted(texts)]
        ck.need(bool(recvs) and all(isinstance(r, ast.Call) for r in recvs), f"receiver of {unparse(call)} is a constructor call")
        ctors = {unparse(r.func) for r in recvs}  # type: ignore[attr-defined]
        ck.need(len(ctors) == 1, f"receiver of {unparse(call)} is built by one constructor")
        cls = ck.prg.resolve_callee(func, recvs[0].func)  # type: ignore[attr-defined]
        owner = [f for f, (m, c) in TRAIT_CLASSES.items() if cls == f"{m}:{c}"]
        ck.add(f"pass class {cls}", len(owner) == 1, func, call, f"`{unparse(call)}` runs {cls}", "only the nine documented traits are passes", nontrivial=False)
        if len(owner) != 1:
            continue
        flag = owner[0]
        ck.add(f"one block per trait: {flag}", flag not in seen, func, call, f"{flag} executed at {func.loc(call)}", "each trait runs once per round")
        seen[flag] = call
        on = ck.interp(func, Pins.of(facts={f: (f == flag) for f in flags}))
        off = ck.interp(func, Pins.of(facts={f: (f != flag) for f in flags}))
        ck.add(f"{flag} runs when only {flag} is on", on.reachable(call), func, call, f"`{unparse(call)}` reachable with only `{flag}` true: {on.reachable(call)}",
               "a trait must not depend on another trait's flag")
        ck.add(f"{flag} does not run when off", not off.reachable(call), func, call, f"`{unparse(call)}` reachable with `{flag}` false and all others true: {off.reachable(call)}",
               "a disabled trait must not rewrite the program")
        # the executed list and the result stay in the pipeline variable
        arg = unparse(call.args[0]) if call.args else ""
        parent_assign = [n for n in find_nodes(func.node, lambda n: isinstance(n, ast.Assign)) if n.value is call]  # type: ignore[attr-defined]
        ok = bool(parent_assign) and unparse(parent_assign[0].targets[0]) == arg  # type: ignore[attr-defined]
        ck.add(f"{flag} rewrites the pipeline variable", ok, func, call, f"`{unparse(parent_assign[0]) if parent_assign else unparse(call)}`", "the result of a pass must be what the next pass and the caller see")
    ck.add("all nine traits dispatched", set(seen) == set(flags) == set(TRAIT_CLASSES), func, func.node, f"dispatched={sorted(seen)} flags={sorted(flags)}", "every documented trait exists as a flag and as a pass")
    # unflagged transformations
    allowed = {"preprocess", "postprocess", "exline_arithmetic", "deepcopy"}
    none_on = ck.interp(func, Pins.of(facts={f: False for f in flags}))
    pvar = next((unparse(getattr(n, "target", None) or n.targets[0]) for n in find_nodes(func.node, lambda n: isinstance(n, (ast.Assign, ast.AnnAssign)) and isinstance(n.value, ast.Call) and unparse(n.value.func) == "preprocess")), "input_")  # type: ignore[attr-defined]
    pipeline = {id(n.value) for n in find_nodes(func.node, lambda n: isinstance(n, (ast.Assign, ast.AnnAssign)) and isinstance(n.value, ast.Call)) if unparse(getattr(n, "target", None) or n.targets[0]) == pvar}  # type: ignore[attr-defined]
    for call in calls_in(func, lambda c: True):
        if id(call) not in pipeline:
            continue  # only a call whose result is bound can change what is emitted
        if none_on.reachable(call) and isinstance(call.func, ast.Name):
            name = call.func.id
            res = ck.prg.resolve_callee(func, call.func) or name
            ck.add(f"unflagged call {name}", name in allowed, func, call, f"with all traits off `{short(unparse(call))}` ({res}) still runs", "`--enable none` must only normalise")
    # returned value comes from postprocess
    for ret, st in base.returns:
        text = unparse(base.expand(ret.value, st)) if ret.value is not None else "None"
        ck.add("result is the postprocessed pipeline", text.startswith("postprocess("), func, ret, f"returns `{short(text)}`", "the caller receives the final program", nontrivial=False)
        break


RULES = [
    Rule("C19.options", P, r_option_lists),
    Rule("C19.main-wiring", P, r_main_wiring),
    Rule("C19.enable-option", P, r_enable_option),
    Rule("C19.verify-enable", P, r_verify_enable),
    Rule("C19.predicate-list", P, r_predicate_list),
    Rule("C19.predicate-options", P, r_predicate_options),
    Rule("C19.main-auto", P, r_main_auto),
    Rule("C19.stdout", P, r_stdout),
    Rule("C19.stdin", P, r_stdin),
    Rule("C19.pass-dispatch", P + ("C01",), r_pass_dispatch),
]
