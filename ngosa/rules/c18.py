"""C18 — auto-detected input/output predicates are exactly the open and the shown ones (DESIGN §4 C18)."""

from __future__ import annotations

import ast
import re

from ..core import Checker, Rule, attr_calls, callee_is, calls_in, kwarg, resolved_calls, short
from ..grammar import schema
from ..interp import Pins, find_nodes, unparse
from ..kindflow import Collect, fmt_path, required_paths
from .util import contributions, covers_program, enum_members, enclosing_loop, enclosing_stmt, every_iteration_reaches, fmt, is_const, parent, returns_of, single_def

P = ("C18", "C01")
U = "ngo.utils.ast"


def _col(ck: Checker) -> Collect:
    if "collect" not in ck.notes:
        ck.notes["collect"] = Collect(ck)
    return ck.notes["collect"]  # type: ignore[return-value]


def r_predicates_cover(ck: Checker) -> None:
    """KIND/EXHAUST: predicates() reaches every symbolic atom of rules and objectives, with every sign"""
    col = _col(ck)
    func = ck.func("utils.ast:predicates")
    for kind in ("Rule", "Minimize"):
        req = required_paths(kind)
        res = col.run(f"{U}:predicates", kind, "SIGNS")
        got = {p for p, s, sk in res}
        for path in sorted(req):
            ok = path in got
            ck.add(f"predicates({kind}) reaches {fmt_path(path)}", ok, func, func.node, f"a predicate is yielded on this grammar path: {ok}",
                   "an occurrence the collector does not see is missing from 'all predicates': an open predicate used only there is not reported as input and gets closed-world treatment")
        signs = {s for p, s, sk in res}
        ck.add(f"predicates({kind}) filters by the requested signs only", signs <= {"SIGNS"}, func, func.node, f"sign filters on yields: {sorted(signs)}", "occurrences under `not` count as occurrences")
        extra = got - req
        ck.add(f"predicates({kind}) yields only on grammar paths", not extra, func, func.node, f"extra: {[fmt_path(p) for p in sorted(extra)][:3]}", "", nontrivial=False)
    ck.add("no collector call was left unresolved", not col.unresolved, func, func.node, f"unresolved: {col.unresolved[:3]}", "", nontrivial=False)
    # the "all signs" constant the collectors default to
    mod = ck.prg.module("utils.ast")
    sg = mod.consts.get("SIGNS")
    ck.need(sg is not None, "utils.ast.SIGNS defined")
    members = {unparse(n) for n in ast.walk(sg) if isinstance(n, ast.Attribute) and isinstance(n.value, ast.Name) and n.value.id == "Sign"}  # type: ignore[arg-type]
    ck.add("SIGNS lists every sign", members == set(enum_members("Sign")), "utils.ast:<module>", sg, f"SIGNS = `{unparse(sg)}`; clingo has {sorted(enum_members('Sign'))}",  # type: ignore[arg-type]
           "the collectors filter on `lit.sign in signs`: with a sign missing, predicates that only occur under it (`not not p(X)`) are invisible to auto detection and to every pass")
    # symbol kinds: what the parser really puts into SymbolicAtom.symbol before unpooling
    lp = ck.func("utils.ast:literal_predicate")
    res = col.run(f"{U}:literal_predicate", "Literal", "SIGNS")
    symk = set()
    for p, s, sk in res:
        symk |= set(sk.split(","))
    # pools: either the collectors handle them, or whoever runs the collectors on a program as parsed unpools first
    raw_users = ("utils.globals:auto_detect_input", "utils.globals:auto_detect_output")
    unpooled = {}
    for name in raw_users:
        f = ck.func(name)
        loops = [x for x in find_nodes(f.node, lambda x: isinstance(x, ast.For)) if enclosing_loop(f, x) is None and unparse(x.iter).find(f.params()[0]) >= 0]
        ck.need(len(loops) >= 1, f"{name} loops over the program")
        unpooled[name] = all(re.search(r"\.unpool\(", unparse(x.iter)) is not None for x in loops)
        if "Pool" not in symk:
            ck.add(f"{f.name}: pooled atoms are unpooled before the collectors run", unpooled[name], f, loops[0], f"statement loop iterates `{short(unparse(loops[0].iter), 90)}`",
                   "the collectors skip atoms whose symbol is a pool: `p(1;2). q :- p(X).` reports the defined p/1 as an input predicate", rule="C18.symbol-kinds")
    for kind, example in (("Function", "p(X)"), ("Pool", "p(1;2)  (a pooled atom, present when auto-detection runs on the parsed, not yet unpooled program)"), ("UnaryOperation", "-a(X)  (classical negation)")):
        ok = kind in symk or (kind == "Pool" and all(unpooled.values()))
        ck.add(f"symbolic atoms whose symbol is a {kind} are collected", ok, lp, lp.node, f"literal_predicate yields for symbol kinds {sorted(symk)}" + ("; programs as parsed are unpooled first" if kind == "Pool" and ok and kind not in symk else "") + f"; `{example}`",
               "a defined-but-pooled predicate `p(1;2).` is reported as input; an open `-a/1` is not reported", rule="C18.symbol-kinds")


def r_headderivable(ck: Checker) -> None:
    """headderivable_predicates = exactly the positive atoms in head position"""
    col = _col(ck)
    func = ck.func("utils.ast:headderivable_predicates")
    res = col.run(f"{U}:headderivable_predicates", "Rule", "-")
    want = {p for p in required_paths("Rule") if p[0][0] == "head" and not any(f == "condition[*]" for f, k in p)}
    got = {p for p, s, sk in res}
    for path in sorted(want):
        ck.add(f"derivable: {fmt_path(path)}", path in got, func, func.node, f"yielded: {path in got}", "a predicate with a defining head occurrence must not be reported as input")
    for path in sorted(got - want):
        ck.add(f"not derivable: {fmt_path(path)}", False, func, func.node, "headderivable_predicates yields a predicate on a path that is not a head atom",
               "a predicate used only in the CONDITION of a head element is not defined by that rule: counting it as derivable hides an open predicate from auto-detection")
    signs = {s for p, s, sk in res}
    ck.add("only positive head atoms are derivable", signs == {"positive"} or signs == {"{Sign.NoSign}"}, func, func.node, f"sign filter {sorted(signs)}", "`not p :- body` does not define p")
    pos = single_def(func, "positive")
    ck.add("positive = {NoSign}", pos is not None and unparse(pos).replace(" ", "") == "{Sign.NoSign}", func, func.node, f"positive = `{unparse(pos) if pos is not None else None}`", "")
    res_m = col.run(f"{U}:headderivable_predicates", "Minimize", "-")
    ck.add("objectives derive nothing", not res_m, func, func.node, f"{len(res_m)} paths", "", nontrivial=False)


def r_body_cover(ck: Checker) -> None:
    col = _col(ck)
    bp = ck.func("utils.ast:body_predicates")
    for kind, fq in (("Rule", "body_predicates"), ("Minimize", "minimize_predicates")):
        req = {p for p in required_paths(kind) if p[0][0] == "body[*]"}
        res = col.run(f"{U}:{fq}", kind, "SIGNS")
        got = {p for p, s, sk in res}
        for path in sorted(req):
            ck.add(f"{fq}({kind}) reaches {fmt_path(path)}", path in got, ck.func(f"utils.ast:{fq}"), None, f"yielded: {path in got}",
                   "in_body/uses: a predicate whose only use is on this path would look unused / not self-supporting")
        ck.add(f"{fq} stays in the body", got <= req, ck.func(f"utils.ast:{fq}"), None, f"extra {[fmt_path(p) for p in sorted(got - req)][:3]}", "", nontrivial=False)


def r_unconditional(ck: Checker) -> None:
    """the predicate collectors of utils.ast decide by node KIND where to descend and by `sign in signs` what to report;
    nothing else may stand between a node and its predicates (the grammar-path rules only see whether a yield can be reached)"""
    n = 0
    for q, f in ck.prg.funcs.items():
        if not q.startswith("ngo.utils.ast:") or isinstance(f.node, ast.Lambda):
            continue
        ys = find_nodes(f.node, lambda x: isinstance(x, (ast.Yield, ast.YieldFrom)))
        yp = [y for y in ys if isinstance(y.value, ast.Call) and ("predicate" in unparse(y.value.func).lower() or "preds" in unparse(y.value.func).lower())]  # type: ignore[attr-defined]
        if not yp:
            continue
        it = ck.interp(f)
        sparam = [x for x in f.params() if x in ("signs", "sign")] or f.params()[1:2]
        for y in yp:
            if not it.reachable(y):
                continue
            n += 1
            extra = [f"{k} is {v}" for k, v in it.known(y) if "ast_type" not in k and not any(re.fullmatch(rf".+\.sign in {re.escape(sp)}", k) for sp in sparam)]
            ck.add(f"{f.name}: `{short(unparse(y), 60)}` depends on node kinds and the sign filter only", not extra, f, y, f"further conditions on the way: {extra}",
                   "a collector that skips `not c(X) : risky(X)` in a disjunction (or any other shape) hides predicates from auto-detection, from the usage analysis of unused and from the dependency graphs")
    ck.need(n >= 25, f"collector yield sites found ({n})")


def r_detect_input(ck: Checker) -> None:
    func = ck.func("utils.globals:auto_detect_input")
    it = ck.interp(func)
    prg = func.params()[0]
    contrib = contributions(func, "all_preds")
    ck.need(len(contrib) == 1, "all predicates are collected at one site")
    site0, txt = contrib[0]
    m = re.fullmatch(r"\[(\w+)\.pred for \1 in predicates\((\w+)\)\]", txt)
    ck.add("all predicates = predicates(stm) for every statement", m is not None, func, site0, f"`{txt}`", "")
    stm = m.group(2) if m else "stm"
    allp = [site0]
    lp = enclosing_loop(func, site0)
    okk, n = every_iteration_reaches(ck, func, lp, site0, None)  # type: ignore[arg-type]
    ck.add("... over the whole program", okk and n > 0 and lp is not None and covers_program(lp.iter, prg), func, allp[0], f"loop `{unparse(lp.iter) if lp is not None else None}` unconditional: {okk}", "")
    der = [c for c in attr_calls(func, "add") if unparse(c.func.value) == "derivable_preds"]  # type: ignore[attr-defined]
    ck.need(len(der) == 1, "derivable predicates collected at one site")
    org = {st.origin.get(unparse(der[0].args[0]).split(".")[0], "") for st in it.states(der[0])}
    ck.add("derivable = headderivable_predicates(stm)", org == {f"headderivable_predicates({stm})[*]"} and unparse(der[0].args[0]).endswith(".pred"), func, der[0], f"iterates {sorted(org)}", "only a positive head atom defines a predicate")
    inb = [c for c in attr_calls(func, "add") if unparse(c.func.value).startswith("in_body[")]  # type: ignore[attr-defined]
    inh = [c for c in attr_calls(func, "add") if unparse(c.func.value).startswith("in_head[")]  # type: ignore[attr-defined]
    ck.need(len(inb) == 1 and len(inh) == 1, "in_body / in_head indexes")
    orgb = {st.origin.get(unparse(inb[0].func.value.slice).split(".")[0], "").replace(" ", "") for st in it.states(inb[0])}  # type: ignore[attr-defined]
    ck.add("in_body = statements using the predicate in body or objective, any sign", orgb == {f"chain(body_predicates({stm},SIGNS),minimize_predicates({stm},SIGNS))[*]"}, func, inb[0], f"iterates {sorted(orgb)}", "")
    orgh = {st.origin.get(unparse(inh[0].func.value.slice).split(".")[0], "") for st in it.states(inh[0])}  # type: ignore[attr-defined]
    ck.add("in_head = statements deriving the predicate", orgh == {f"headderivable_predicates({stm})[*]"}, func, inh[0], f"iterates {sorted(orgh)}", "")
    for site, what in ((inh[0], "deriving"), (inb[0], "using"), (der[0], "derivable")):
        sl = enclosing_loop(func, site)
        okr, nr = every_iteration_reaches(ck, func, sl, site, None) if sl is not None else (False, 0)
        ck.add(f"every {what} occurrence is recorded, not only the first per predicate", okr and nr > 0, func, site, f"`{short(unparse(site), 60)}` unconditional in its loop: {okr}",
               "the test 'defined only by statements that also use it' compares the complete sets of statement indexes: a recursive rule listed before the base case would make the predicate look self-supporting")
    idx = {unparse(c.args[0]) for c in inb + inh}
    ck.add("both indexes record the statement index", len(idx) == 1, func, inb[0], f"recorded {sorted(idx)}", "")
    key = next(iter(idx))
    src = {st.origin.get(key, "") or it.text(ast.Name(key, ast.Load()), st) for st in it.states(inb[0])} | {st.origin.get(key, "") or it.text(ast.Name(key, ast.Load()), st) for st in it.states(inh[0])}
    ok = lp is not None and isinstance(lp.iter, ast.Call) and unparse(lp.iter.func) == "enumerate" and src == {f"{unparse(lp.iter)}[*][0]"}
    ck.add("the recorded index identifies one statement (position in the program)", ok, func, inb[0], f"`{key}` is {sorted(src)}",
           "with anything coarser (the source line, the location) two statements share an index: a predicate defined on the same line as a rule using it looks self-supporting and is reported as input")
    base = [n for n in find_nodes(func.node, lambda n: isinstance(n, ast.Assign)) if unparse(n.targets[0]) == "input_"]  # type: ignore[attr-defined]
    ck.need(len(base) == 1, "result list initialised once")
    ck.add("result starts with sorted(all - derivable)", unparse(base[0].value).replace(" ", "") in ("list(sorted(all_preds-derivable_preds))", "sorted(all_preds-derivable_preds)"), func, base[0], f"`{fmt(base[0])}`",  # type: ignore[attr-defined]
           "U = {p occurring, never a positive head atom} must be a subset of the result; sorted() makes it reproducible")
    ext = [c for c in attr_calls(func, "append") if unparse(c.func.value) == "input_"]  # type: ignore[attr-defined]
    ck.need(len(ext) == 1, "self-supporting predicates are appended at one site")
    p = unparse(ext[0].args[0])
    ck.guard("only predicates defined solely by statements that also use them are added", func, ext[0], f"in_body[{p}] == in_head[{p}]", "a predicate with a defining statement whose body does not mention it must be excluded")
    rets = returns_of(func)
    ck.add("the list is what is returned", len(rets) == 1 and unparse(rets[0].value) == "input_", func, func.node, f"`{fmt(rets[0]) if rets else None}`", "", nontrivial=False)  # type: ignore[arg-type]


def r_detect_output(ck: Checker) -> None:
    col = _col(ck)
    func = ck.func("utils.globals:auto_detect_output")
    stm = None
    loops = [n for n in find_nodes(func.node, lambda n: isinstance(n, ast.For)) if covers_program(n.iter, func.params()[0])]  # type: ignore[attr-defined]
    ck.need(len(loops) == 1, "auto_detect_output loops over the program")
    stm = unparse(loops[0].target)  # type: ignore[attr-defined]
    it_sig = ck.interp(func, Pins.of(vals={f"{stm}.ast_type": "ASTType.ShowSignature"}))
    adds = [c for c in attr_calls(func, "add") if unparse(c.func.value) == "output"]  # type: ignore[attr-defined]
    upd = [c for c in attr_calls(func, "update") if unparse(c.func.value) == "output"]  # type: ignore[attr-defined]
    sig_adds = [c for c in adds if it_sig.reachable(c)]
    ok = len(sig_adds) == 1 and unparse(sig_adds[0].args[0]).replace(" ", "") == f"Predicate({stm}.name,{stm}.arity)"
    ck.add("#show p/n. contributes p/n", ok, func, sig_adds[0] if sig_adds else func.node, f"`{fmt(sig_adds[0]) if sig_adds else None}`", "")
    adds_all = adds
    adds = sig_adds
    if adds:
        itb = ck.interp(func)
        okn = itb.holds(adds[0], f"{stm}.name != ''") or itb.holds(adds[0], f"{stm}.name")
        ck.add("`#show.` contributes nothing", okn, func, adds[0], f"signature registration guarded by a non-empty name: {okn}", "`#show.` is parsed as a signature with empty name: the pseudo predicate `/0` is not a shown predicate", rule="C18.show-nothing")
    it_t = ck.interp(func, Pins.of(vals={f"{stm}.ast_type": "ASTType.ShowTerm"}))
    reach = [c for c in upd + adds_all if it_t.reachable(c)]
    ck.need(len(reach) == 1, "#show terms contribute through one update site")
    c = reach[0]
    inner = enclosing_loop(func, c)
    comp = c.args[0] if c.func.attr == "update" else (inner.iter if inner is not None else c.args[0])  # type: ignore[attr-defined]
    call = [n for n in ast.walk(comp) if isinstance(n, ast.Call) and (ck.prg.resolve_callee(func, n.func) or "").startswith(U + ":")]
    ck.need(len(call) == 1, "a collector of utils.ast is applied to each condition literal")
    if c.func.attr == "add" and inner is not None:  # type: ignore[attr-defined]
        ck.add("every predicate the collector yields is registered", unparse(c.args[0]) == f"{unparse(inner.target)}.pred" and every_iteration_reaches(ck, func, inner, c, None)[0], func, c, f"`{fmt(c)}` for every element of `{unparse(inner.iter)}`", "")
    callee = ck.prg.resolve_callee(func, call[0].func)
    st = it_t.states(c)[0]
    lit = unparse(call[0].args[0])
    org = st.origin.get(lit, "")
    ck.add("every literal of the #show term's condition is scanned", org == f"{stm}.body[*]", func, c, f"`{lit}` iterates `{org}`", "")
    signs = unparse(call[0].args[1]) if len(call[0].args) > 1 else "SIGNS"
    sch = schema()
    for kind in sorted(sch.field("ShowTerm", "body").kinds):  # type: ignore[union-attr]
        req = required_paths(kind)
        res = col.run(callee, kind, signs)  # type: ignore[arg-type]
        got = {p for p, s, sk in res}
        for path in sorted(req):
            ck.add(f"#show term condition: {kind}{fmt_path(path)}", path in got, func, c, f"collector {callee.split(':')[1]} yields there: {path in got}",  # type: ignore[union-attr]
                   "predicates in show-term conditions are outputs: a missed one is deleted or shrunk by unused")
    for kind in ("Rule", "Minimize", "External", "Definition"):
        itk = ck.interp(func, Pins.of(vals={f"{stm}.ast_type": f"ASTType.{kind}"}))
        ck.add(f"{kind} statements contribute nothing", not any(itk.reachable(x) for x in adds_all + upd), func, loops[0], "no registration reachable", "exactly the shown predicates are outputs")
    rets = returns_of(func)
    ck.add("result is sorted", len(rets) == 1 and unparse(rets[0].value).replace(" ", "") in ("list(sorted(output))", "sorted(output)"), func, func.node, f"`{fmt(rets[0]) if rets else None}`", "C17")  # type: ignore[arg-type]


RULES = [
    Rule("C18.EXHAUST.predicates", P + ("C07", "C19"), r_predicates_cover, extra={p_: ("SIGNS lists every sign",) for p_ in ("C20", "C12", "C13", "C15", "C09", "C08")}),
    Rule("C18.EXHAUST.unconditional", P + ("C07", "C19", "C09", "C08", "C15", "C20"), r_unconditional),
    Rule("C18.headderivable", P + ("C08", "C20", "C19"), r_headderivable),
    Rule("C18.body", P + ("C15", "C20", "C08", "C19"), r_body_cover),
    Rule("C18.FLOW.detect-input", P + ("C19",), r_detect_input),
    Rule("C18.detect-output", P + ("C19",), r_detect_output),
]
