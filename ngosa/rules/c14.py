"""C14 — math (tables, acceptance tests, merged aggregates), C06 (who may construct heads, heads kept, sign buckets),
C02 (unification table, objective term coverage), C01 (interface wiring of api.optimize)."""

from __future__ import annotations

import ast
import re

from ..core import Checker, Rule, attr_calls, callee_is, calls_in, kwarg, resolved_calls, short
from ..interp import Pins, find_nodes, unparse
from .util import ancestors, on_path_before, effect_table, enclosing_loop, enclosing_stmt, enum_members, every_iteration_reaches, fmt, inline_displays, is_const, parent, parents, returns_of, same, self_attr_for_param, single_def, contributions, resolved

P14 = ("C14", "C01", "C06")
G = "math_simplification:Goebner"


def r_term_table(ck: Checker) -> None:
    """TABLE _to_sympy_term: clingo operator -> python/sympy operator"""
    func = ck.func(f"{G}._to_sympy_term")
    t = func.params()[1]
    want_bin = {"Plus": "lhs + rhs", "Minus": "lhs - rhs", "Multiplication": "lhs * rhs", "Power": "lhs ** rhs", "And": None, "Or": None, "XOr": None}
    for op in enum_members("BinaryOperator"):
        o = op.split(".")[1]
        it = ck.interp(func, Pins.of(vals={f"{t}.ast_type": "ASTType.BinaryOperation", f"{t}.operator_type": op}, facts={f"self._to_sympy_term({t}.left) is None": False, f"self._to_sympy_term({t}.right) is None": False}))
        got = set()
        want_txt = set()
        for ret, st in it.returns:
            v = it.expand(ret.value, st) if ret.value is not None else None
            if isinstance(v, ast.Call) and unparse(v.func) == "cast" and len(v.args) == 2:
                v = v.args[1]
            got.add(unparse(v) if v is not None else "None")
            if want_bin.get(o) is not None:
                want_txt.add(it.text(ast.parse(want_bin[o], mode="eval").body, st))  # type: ignore[arg-type]
        if o in ("Division", "Modulo"):
            ck.add(f"binary {o}", True, func, func.node, f"maps to {sorted(got)} (gringo truncates, sympy floors: noted in DESIGN, no simplification survives it; not armed)", "", nontrivial=False)
            continue
        want = {"None"} if want_bin[o] is None else want_txt
        ck.add(f"binary {o}", got == want, func, func.node, f"maps to {sorted(got)}; integer semantics requires {sorted(want)}", "a wrong arithmetic operator makes every simplification through it wrong")
    want_un = {"Minus": "Number(0) - term", "Absolute": "Abs(term)", "Negation": "None"}
    for op in enum_members("UnaryOperator"):
        o = op.split(".")[1]
        it = ck.interp(func, Pins.of(vals={f"{t}.ast_type": "ASTType.UnaryOperation", f"{t}.operator_type": op}, facts={f"self._to_sympy_term({t}.argument) is None": False}))
        got = set()
        for ret, st in it.returns:
            v = ret.value
            if isinstance(v, ast.Call) and unparse(v.func) == "cast" and len(v.args) == 2:
                v = v.args[1]
            got.add(unparse(v) if v is not None else "None")
        ck.add(f"unary {o}", got == {want_un[o]}, func, func.node, f"maps to {sorted(got)}; required {want_un[o]}", "")
    for styp, want in (("SymbolType.Number", "Integer(symbol.number)"), ("SymbolType.String", "None"), ("SymbolType.Infimum", "None"), ("SymbolType.Supremum", "None")):
        it = ck.interp(func, Pins.of(vals={f"{t}.ast_type": "ASTType.SymbolicTerm", f"{t}.symbol.type": styp}))
        got = set()
        for ret, st in it.returns:
            v = ret.value
            if isinstance(v, ast.Call) and unparse(v.func) == "cast" and len(v.args) == 2:
                v = v.args[1]
            got.add(unparse(it.expand(v, st)).replace(f"{t}.symbol", "symbol") if v is not None else "None")
        ck.add(f"constant of type {styp.split('.')[1]}", got == {want}, func, func.node, f"maps to {sorted(got)}; required {want}", "strings and #inf/#sup are not integers: relations over them must not be solved")
    tt = ck.func(f"{G}._to_sympy_term")
    itt2 = ck.interp(tt)
    n_div = 0
    tp = tt.params()[1]
    for opname in ("Division", "Modulo"):
        itd = ck.interp(tt, Pins.of(vals={f"{tp}.ast_type": "ASTType.BinaryOperation", f"{tp}.operator_type": f"BinaryOperator.{opname}"}))
        for r, st in itd.returns:
            if r.value is None:
                continue
            val = itd.expand(r.value, st)
            bins = [n for n in ast.walk(val) if isinstance(n, ast.BinOp) and isinstance(n.op, (ast.Div, ast.Mod, ast.FloorDiv))]
            if not bins:
                continue
            n_div += 1
            den = unparse(bins[0].right)
            okz = any(itd.eval_atom(ast.parse(f"{den} == 0", mode="eval").body, st) is False for _ in (0,)) or any(v is False for k, v in st.facts.items() if k in (f"0 == {den}", f"{den} == 0")) or "0" in st.nvals.get(den, frozenset())
            ck.add(f"{opname}: the divisor is not the constant 0", okz, tt, r, f"`{short(unparse(val), 60)}` reached only if `{short(den, 40)} != 0`: {okz}",
                   "sympy raises ZeroDivisionError for `X \\ 0` while the body is translated, before the try block of execute: optimize aborts (C03)", rule="C14.TABLE.terms.zero")
    ck.need(n_div >= 2, "division and modulo are translated")
    s2a = ck.func(f"{G}.sympy2ast")
    its2 = ck.interp(s2a)
    ints = [c for c in calls_in(s2a, lambda c: isinstance(c.func, ast.Name) and c.func.id == "int" and len(c.args) == 1 and unparse(c.args[0]) == s2a.params()[1])]
    ck.need(len(ints) >= 1, "sympy2ast converts integer constants with int(expr)")
    e_ = s2a.params()[1]
    for c in ints:
        oki = any(its2.holds(c, k) for k in (f"{e_}.func in (Integer, Zero, NegativeOne, One)", f"isinstance({e_}, Integer)", f"{e_}.is_Integer", f"{e_}.is_integer"))
        ck.add("a sympy constant is converted with int() only if it is an integer", oki, s2a, c, f"`{short(unparse(enclosing_stmt(s2a, c)), 90)}` dominated by an integer test: {oki}",
               "solving `2*X = Y` gives the rational coefficient 1/2: int() truncates it to 0 instead of refusing the simplification (division is solved away)")
    tab = ck.prg.klass(G)
    d = [n for n in tab.node.body if isinstance(n, ast.Assign) and unparse(n.targets[0]) == "ast2sympy_op"]
    ref = {"Equal": "Equality", "GreaterEqual": "GreaterThan", "LessEqual": "LessThan", "LessThan": "StrictLessThan", "GreaterThan": "StrictGreaterThan", "NotEqual": "Unequality"}
    if d and isinstance(d[0].value, ast.Dict):
        got = {unparse(k).split(".")[-1]: unparse(v) for k, v in zip(d[0].value.keys, d[0].value.values)}
        ck.add("ast2sympy_op table", got == ref, "math_simplification:Goebner", d[0], f"{got}", "sympy's GreaterThan is >=, StrictGreaterThan is >")


def r_sign_handling(ck: Checker) -> None:
    func = ck.func(f"{G}.to_sympy")
    it = ck.interp(func)
    a = func.params()[1]
    folded_cmp = not ck.prg.has_func(f"{G}._to_sympy_comparison")
    for callee in ("_to_sympy_comparison", "_to_sympy_bodyaggregate"):
        if callee == "_to_sympy_comparison" and folded_cmp:
            continue
        calls = resolved_calls(ck.prg, func, f"ngo.{G}.{callee}")
        ck.need(len(calls) == 1, f"to_sympy calls {callee}")
        neg = it.texts(calls[0], calls[0].args[1])
        ck.add(f"{callee}: operator is negated iff the literal's sign is Negation", neg == {f"{a}.sign == Sign.Negation"}, func, calls[0], f"neg argument {sorted(neg)}", "`not X < 3` is X >= 3; `not not X < 3` is X < 3")
    if folded_cmp:
        # the comparison helper was folded into to_sympy: the two obligations are decided together at the translation site
        ceq = resolved_calls(ck.prg, func, f"ngo.{G}._to_equality")
        ck.need(len(ceq) == 1, "the comparison is translated at one site")
        got_s = {}
        for sign in ("Negation", "NoSign", "DoubleNegation"):
            itf = ck.interp(func, Pins.of(vals={f"{a}.sign": f"Sign.{sign}", f"{a}.atom.ast_type": "ASTType.Comparison"}))
            got_s[sign] = {t.replace(" ", "") for t in itf.texts(ceq[0], ceq[0].args[1])} if itf.reachable(ceq[0]) else None
        opx = f"{a}.atom.guards[0].comparison"
        ok_f = got_s["Negation"] == {f"negate_comparison({opx})"} and got_s["NoSign"] == {opx} and got_s["DoubleNegation"] == {opx}
        ck.add("_to_sympy_comparison: operator is negated iff the literal's sign is Negation", ok_f, func, ceq[0], f"operator by sign: {got_s}", "`not X < 3` is X >= 3; `not not X < 3` is X < 3")
    else:
        cmp_ = ck.func(f"{G}._to_sympy_comparison")
        c, neg = cmp_.params()[1], cmp_.params()[2]
        ceq = resolved_calls(ck.prg, cmp_, f"ngo.{G}._to_equality")
        ck.need(len(ceq) == 1, "the comparison is translated at one site")
        got_c = {}
        for flag in (True, False):
            itf = ck.interp(cmp_, Pins.of(facts={neg: flag}))
            got_c[flag] = {t.replace(" ", "") for t in itf.texts(ceq[0], ceq[0].args[1])} if itf.reachable(ceq[0]) else None
        ck.add("comparison: op = negate_comparison(op) if neg else op", got_c[True] == {f"negate_comparison({c}[1])"} and got_c[False] == {f"{c}[1]"}, cmp_, ceq[0], f"operator under neg: {got_c[True]}, otherwise: {got_c[False]}", "")
    agg = ck.func(f"{G}._to_sympy_bodyaggregate")
    ita = ck.interp(agg)
    ag, ng = agg.params()[1], agg.params()[2]
    eqs = resolved_calls(ck.prg, agg, f"ngo.{G}._to_equality")
    ck.need(len(eqs) == 2, "left and right guard are translated")
    for call, side in zip(eqs, ("left", "right")):
        got = {}
        for flag in (True, False):
            itf = ck.interp(agg, Pins.of(facts={ng: flag}))
            got[flag] = {t.replace(" ", "") for t in itf.texts(call, call.args[1])} if itf.reachable(call) else None
        ok_s = got[False] == {f"{ag}.{side}_guard.comparison"} and got[True] in (None, {f"negate_comparison({ag}.{side}_guard.comparison)"}) and not (side == "left" and got[True] is None)
        ck.add(f"aggregate {side} guard: operator negated iff neg", ok_s, agg, call, f"operator under neg: {got[True]}, otherwise: {got[False]}", "")
    ck.guard("a negated aggregate with two guards is not translated", agg, eqs[0], f"not ({ng} and {ag}.right_guard)", "not (l <= agg <= u) is a disjunction, which a set of polynomial equalities cannot express")
    dm = resolved_calls(ck.prg, agg, "sympy.Dummy")
    ck.need(len(dm) == 1, "one placeholder per aggregate")
    nn = kwarg(dm[0], "nonnegative")
    itp = ck.interp(agg, Pins.of(vals={f"{ag}.function": "AggregateFunction.SumPlus", f"{ag}.ast_type": "ASTType.BodyAggregate"}))
    vals_p = {unparse(itp.expand(nn, s)) for s in itp.states(dm[0])} if nn is not None else set()
    itn = ck.interp(agg, Pins.of(vals={f"{ag}.function": "AggregateFunction.Sum", f"{ag}.ast_type": "ASTType.BodyAggregate"}))
    vals_n = {unparse(itn.expand(nn, s)) for s in itn.states(dm[0])} if nn is not None else set()
    ck.add("#sum+ placeholder is non-negative, #sum placeholder is not", vals_p == {"True"} and vals_n == {"None"}, agg, dm[0], f"nonnegative: #sum+ -> {sorted(vals_p)}, #sum -> {sorted(vals_n)}", "#sum can be negative: assuming non-negativity removes satisfiable bounds")
    te = ck.func(f"{G}._to_equality")
    itt = ck.interp(te, Pins.of(vals={te.params()[2]: "ComparisonOperator.Equal"}))
    got = {unparse(r.value.args[1] if isinstance(r.value, ast.Call) and unparse(r.value.func) == "cast" else r.value) for r, s in itt.returns}  # type: ignore[union-attr,arg-type]
    ck.add("equality becomes rhs - lhs = 0", got == {f"{te.params()[3]} - {te.params()[1]}"}, te, te.node, f"{sorted(got)}", "")
    reg = [n for n in find_nodes(te.node, lambda n: isinstance(n, ast.Assign) and unparse(n.targets[0]).startswith("self.help_neq_vars["))]
    ck.add("an inequality gets a slack variable that remembers its operator", len(reg) == 1 and unparse(reg[0].value) == te.params()[2], te, te.node, f"`{fmt(reg[0]) if reg else None}`", "")  # type: ignore[attr-defined]


def r_acceptance(ck: Checker) -> None:
    func = ck.func("math_simplification:MathSimplification.execute")
    it = ck.interp(func)
    final = [c for c in attr_calls(func, "append") if unparse(c.func.value) == "ret" and "update(body=" in unparse(c.args[0]).replace(" ", "")]  # type: ignore[attr-defined]
    ck.need(len(final) == 1, "the simplified statement is appended at one site")
    site = final[0]
    costif = [n for n in find_nodes(func.node, lambda n: isinstance(n, ast.If)) if "self.cost(" in unparse(n.test)]
    ck.need(len(costif) == 1, "cost comparison after the safety test")
    ck.guard("accepted only if the new body leaves no variable unbound", func, costif[0], "not collect_binding_information_body(newbody)[1]", "C04: an unsafe rule is rejected by gringo")
    ck.guard("only rules and objectives are simplified", func, site, "stm.ast_type in (ASTType.Rule, ASTType.Minimize)", "")
    cost = [n for n in find_nodes(func.node, lambda n: isinstance(n, ast.Assign) and unparse(n.targets[0]) == "newbody" and unparse(n.value) == "oldstm.body")]
    ok = len(cost) == 1 and it.holds(cost[0], "optimize and self.cost(newbody) >= self.cost(oldstm.body)")
    ck.add("a body that is not strictly cheaper is discarded", ok, func, cost[0] if cost else func.node, f"`newbody = oldstm.body` under `cost(newbody) >= cost(old)`: {ok}", "")
    upd = [c for c in attr_calls(func, "update") if unparse(c.func.value) == "needed"]  # type: ignore[attr-defined]
    ck.need(len(upd) == 1, "variables that were global and would become local are added to the needed set")
    txts_n = {t.replace(" ", "") for t in it.texts(upd[0], upd[0].args[0])} or {unparse(upd[0].args[0]).replace(" ", "")}  # read through named intermediate sets
    txt = sorted(txts_n)[0]
    ck.add("needed += (globals of the old body - globals of the remaining body) & variables still present", txts_n <= {"(global_vars_inside_body(stm.body)-global_vars_inside_body(newbody))&allvars", "global_vars_inside_body(stm.body)-global_vars_inside_body(newbody)&allvars"}, func, upd[0], f"`{txt}`",
           "a variable bound only by a simplified aggregate/comparison and used inside a conditional literal must stay defined; with the difference reversed the set is empty and the variable silently becomes local")
    # what an objective requires: the variables of its weight, its priority and every tuple term
    from .util import inline_result_names
    nb_names = inline_result_names(func, "need_bound")  # a collecting helper copied in as `with .. as need_bound: ..; return variables`
    got_nb = {same_key(t) for nm_ in nb_names for s_, t in contributions(func, nm_)}
    want_nb = {same_key("collect_ast(stm.weight, 'Variable')"), same_key("collect_ast(stm.priority, 'Variable')"), same_key("[_e for t in stm.terms for _e in collect_ast(t, 'Variable')]")}
    ck.add("an objective needs the variables of weight, priority and all tuple terms", want_nb <= got_nb, func, func.node, f"need_bound is fed {sorted(t for nm_ in nb_names for s_, t in contributions(func, nm_))}",
           "a variable that occurs only in the priority and is defined by a simplified equation (`P = N+1`) loses its definition: `[W@P,J]` becomes unsafe")
    nd = single_def(func, "needed")
    ck.add("needed = everything bound, unbound or required by head / objective", nd is not None and unparse(nd).replace(" ", "") == "set.union(bound_body,unbound_body,need_bound,no_bound_needed)", func, func.node, f"needed = `{unparse(nd) if nd is not None else None}`", "")
    ub = single_def(func, "unbound")
    ck.add("unbound = required but not bound by the remaining body", ub is not None and unparse(ub).replace(" ", "") == "set.union(need_bound,unbound_body)-bound_body", func, func.node, f"unbound = `{unparse(ub) if ub is not None else None}`", "")
    # sign buckets (C06)
    lits = [c for c in resolved_calls(ck.prg, func, "clingo.ast.Literal") if enclosing_loop(func, c) is not None and "cond.atom" in unparse(c)]
    ck.need(len(lits) >= 3 and {unparse(c.args[1]) for c in lits} == {"Sign.NoSign", "Sign.DoubleNegation", "Sign.Negation"}, "simplified conditions are re-attached under NoSign, DoubleNegation or Negation")
    for c in lits:
        sign = unparse(c.args[1])
        atom = unparse(c.args[2])
        if sign == "Sign.NoSign":
            ok = atom == "cond.atom"
            why = it.holds(c, "stm.ast_type != ASTType.Rule or stm.head == Literal(LOC, Sign.NoSign, BooleanConstant(False)) or not conditions or conditions.issubset(agg_conditions[Sign.NoSign])")
            ck.add("positive re-attachment: objective, constraint, no conditions, or conditions came from positive aggregates", ok and why, func, c, f"`{fmt(c)}` guard: {why}", "C06: the dependency graph (sign under which an aggregate's conditions are used) is preserved")
        elif sign == "Sign.DoubleNegation":
            ck.guard("double negation only for conditions from doubly negated aggregates", func, c, "conditions.issubset(agg_conditions[Sign.DoubleNegation])", "")
            ck.add("doubly negated: atom unchanged", atom == "cond.atom", func, c, f"`{atom}`", "")
        else:
            ck.guard("negation only for conditions from negated aggregates", func, c, "conditions.issubset(agg_conditions[Sign.Negation])", "")
            ck.add("negated bucket: guards are negated back", atom == "negate_agg(cond.atom)", func, c, f"`{atom}`", "the relation was translated with the negated operator; under `not` it must be negated again")
    na = ck.func("utils.ast:negate_agg")
    itn = ck.interp(na)
    agg_p = na.params()[0]
    for side in ("left_guard", "right_guard"):
        ups_g = [c for c in attr_calls(na, "update") if kwarg(c, side) is not None]
        okg = len(ups_g) == 1
        txt_g = ""
        if okg:
            txt_g = unparse(kwarg(ups_g[0], side)).replace(" ", "")  # type: ignore[arg-type]
            okg = bool(re.fullmatch(rf"(\w+)\.{side}\.update\(comparison=negate_comparison\(\1\.{side}\.comparison\)\)", txt_g)) and itn.holds(ups_g[0], f"{agg_p}.{side}")
        ck.add(f"negate_agg: the {side.replace('_', ' ')} is replaced by its own negated operator", okg, na, ups_g[0] if ups_g else na.node, f"`{short(txt_g, 110)}`",
               "an aggregate re-attached under `not` was translated with negated guards: negating the left operator with the right guard's (or not at all) changes which sums satisfy it")
    reg = [c for c in attr_calls(func, "update") if unparse(c.func.value).startswith("agg_conditions[")]  # type: ignore[attr-defined]
    ok = len(reg) == 1 and unparse(reg[0].func.value) == "agg_conditions[blit.sign]" and unparse(reg[0].args[0]) == "conditions_of_body_agg(blit.atom)"  # type: ignore[attr-defined]
    ck.add("conditions are filed under the sign of their literal", ok, func, reg[0] if reg else func.node, f"`{fmt(reg[0]) if reg else None}`", "")
    cba = ck.func("utils.ast:conditions_of_body_agg")
    contrib = contributions(cba, "ret")
    agg_p = cba.params()[0]
    okc = len(contrib) == 1 and (same(contrib[0][1], f"[c for e in {agg_p}.elements if e.condition for c in e.condition]") or same(contrib[0][1], f"[c for e in {agg_p}.elements for c in e.condition]"))
    if not okc and len(contrib) == 1:
        lpc = enclosing_loop(cba, contrib[0][0])
        okc = lpc is not None and unparse(lpc.iter) == f"{agg_p}.elements" and contrib[0][1] == f"{unparse(lpc.target)}.condition"
    ck.add("the conditions of an aggregate are its condition LITERALS (sign included)", okc, cba, contrib[0][0] if contrib else cba.node, f"collects `{[c for _, c in contrib]}`",
           "the sign of the rebuilt aggregate is chosen by subset tests on these literals: with bare atoms `not b(I)` and `b(I)` are the same condition, and a `not not` aggregate is re-attached positively (an answer set is lost as unfounded)")


def r_simplify(ck: Checker) -> None:
    func = ck.func(f"{G}.simplify_equalities")
    it = ck.interp(func)
    sol = [c for c in attr_calls(func, "append") if unparse(c.func.value) == "ret" and "relation2ast(solve_for" in unparse(c.args[0])]  # type: ignore[attr-defined]
    ck.need(len(sol) == 1, "solved variables are emitted at one site")
    ck.guard("a variable is replaced only by a UNIQUE solution", func, sol[0], "len(lexpr) == 1", "`Y = X*X, Y = 4` has the two roots X = 2 and X = -2: taking the first loses answers")
    rel = [c for c in attr_calls(func, "append") if unparse(c.func.value) == "relations" and "help_neq_vars" in unparse(c.args[0])]  # type: ignore[attr-defined]
    ck.need(len(rel) == 1, "inequalities are emitted at one site")
    ck.guard("an inequality is solved for its slack variable uniquely", func, rel[0], "len(lexpr) == 1", "")
    ck.guard("... and contains exactly one slack variable", func, rel[0], "len(neq_vars) == 1", "")
    txt = unparse(rel[0].args[0]).replace(" ", "")
    ck.add("the slack's operator is turned around (0 op' expr)", txt == "(S(0),rhs2lhs_comparison(self.help_neq_vars[v]),lexpr[0])", func, rel[0], f"`{txt}`", "lhs - rhs - aux = 0 with aux op 0")
    fin = [r for r in returns_of(func) if r.value is not None and unparse(r.value) == "ret"]
    ck.need(len(fin) == 1, "final return")
    ck.guard("every variable that must be bound was solved for", func, fin[0], "needed_bound_symbols.issubset(solved_for)", "otherwise the new body is unsafe")
    gb = resolved_calls(ck.prg, func, "sympy.groebner")
    ck.need(len(gb) == 1, "one Groebner basis computation")
    order = [t for _, t in contributions(func, "varlist")]
    ok = len(order) == 4 and same(order[0], "[x for x in self._fo_vars if x not in needed_vars_symbols]") and "help_neq_vars" in order[1] and "_sym2agg" in order[2] and order[3] == "ordered(needed_vars_symbols)"
    ck.add("elimination order: unneeded variables first, needed variables last (sorted)", ok, func, gb[0], f"varlist built from {order}", "lex Groebner bases eliminate the leading variables: needed ones must come last; ordered() makes it reproducible")


def r_merge(ck: Checker) -> None:
    """merged aggregates keep multiset semantics; products only scale weights"""
    func = ck.func(f"{G}.new_sum")
    it = ck.interp(func)
    ups = [c for c in attr_calls(func, "update") if kwarg(c, "terms") is not None]
    def _tagged(text: str) -> str:
        """a tag helper that was substituted into the tree is read back as a call of `agg_ident`"""
        return re.sub(r"Function\(LOC,AGG_STR,\[SymbolicTerm\(LOC,clingo\.Number\((.*?)\)\)\],False\)", r"agg_ident(\1)", text)

    tags = [_tagged(unparse(kwarg(c, "terms")).replace(" ", "")) for c in ups]  # type: ignore[arg-type]
    m0 = re.fullmatch(r"\[\*(\w+)\.terms,(\w+)\(0\)\]", tags[0]) if len(tags) == 2 else None
    m1 = re.fullmatch(r"\[\*(\w+)\.terms,(\w+)\((\w+)\)\]", tags[1]) if len(tags) == 2 else None
    tagger = m0.group(2) if m0 else "agg_ident"
    # the loop over the further aggregates: `for i in range(1, len(aggs))` (element aggs[i]) or `for i, a in enumerate(aggs[1:], 1)`
    lp_t = enclosing_loop(func, ups[1]) if len(ups) == 2 else None
    idx_var, elem_txt = None, None
    while lp_t is not None:
        itx = unparse(lp_t.iter).replace(" ", "")
        mr = re.fullmatch(r"range\(1,len\((\w+)\)\)", itx)
        me = re.fullmatch(r"enumerate\((\w+)\[1:\],(?:start=)?1\)", itx)
        if mr and isinstance(lp_t.target, ast.Name):
            idx_var, elem_txt = lp_t.target.id, f"{mr.group(1)}[{lp_t.target.id}]"
            break
        if me and isinstance(lp_t.target, ast.Tuple) and len(lp_t.target.elts) == 2 and all(isinstance(e, ast.Name) for e in lp_t.target.elts):
            idx_var, elem_txt = lp_t.target.elts[0].id, lp_t.target.elts[1].id  # type: ignore[attr-defined]
            break
        lp_t = enclosing_loop(func, lp_t)
    ok = m0 is not None and m1 is not None and m1.group(2) == tagger and lp_t is not None and m1.group(3) == idx_var
    tdef = ck.prg.funcs.get(ck.prg.resolve_callee(func, ast.Name(tagger, ast.Load())) or "")
    if ok and tdef is not None and not isinstance(tdef.node, ast.Lambda):
        rt = [r for r in find_nodes(tdef.node, lambda n: isinstance(n, ast.Return))]
        ok = len(rt) == 1 and unparse(rt[0].value).replace(" ", "") == f"Function(LOC,AGG_STR,[SymbolicTerm(LOC,clingo.Number({tdef.params()[0]}))],False)"  # type: ignore[attr-defined]
    ck.add("elements of merged aggregates are tagged with their aggregate's index", ok, func, func.node, f"terms {tags}", "two aggregates may contain equal tuples: without a distinguishing tag the merged set would count them once")
    rest = resolved_calls(ck.prg, func, "clingo.ast.BodyAggregateElement")
    lp_r = enclosing_loop(func, rest[0]) if rest else None
    tgt = [unparse(e) for e in lp_r.target.elts] if lp_r is not None and isinstance(lp_r.target, ast.Tuple) and len(lp_r.target.elts) == 2 else ["?", "?"]
    ok = len(rest) == 1 and lp_r is not None and unparse(lp_r.iter) == "enumerate(rest)" and _tagged(unparse(rest[0].args[0]).replace(" ", "")) == f"[{tgt[1]},{tagger}(len(aggs)+{tgt[0]})]"
    ck.add("plain summands get tags beyond the aggregates' indices", ok, func, rest[0] if rest else func.node, f"`{fmt(rest[0]) if rest else None}`", "")
    fin = [c for c in attr_calls(func, "update") if kwarg(c, "function") is not None]
    ck.add("a merged aggregate is a #sum", len(fin) == 1 and unparse(kwarg(fin[0], "function")) == "AggregateFunction.Sum", func, func.node, f"`{fmt(fin[0]) if fin else None}`", "")  # type: ignore[arg-type]
    for r in find_nodes(func.node, lambda n: isinstance(n, ast.Raise)):
        if not it.reachable(r):
            ck.add("min/max aggregates are never added", False, func, r, f"the refusal `{short(unparse(r), 70)}` can never fire: its test contradicts what is known there (it looks at an aggregate that was already checked)",
                   "a #max operand that is not refused is merged into the #sum: its elements are added up instead of maximised")
            continue
        ck.guard("min/max aggregates are never added", func, r, "collector.function in (AggregateFunction.Min, AggregateFunction.Max)" if enclosing_loop(func, r) is None else f"{elem_txt or 'aggs[index]'}.function in (AggregateFunction.Min, AggregateFunction.Max)", "")
    for c in ups:
        recv = c.func.value  # type: ignore[attr-defined]
        orgs = {st.origin.get(unparse(recv), "") for st in it.states(c)}
        ck.need(len(orgs) == 1 and next(iter(orgs)).endswith(".elements[*]"), "merged elements are taken from the aggregates' element lists")
        src = next(iter(orgs))[: -len(".elements[*]")]
        okm = it.reachable(c) and it.holds(c, f"{src}.function not in (AggregateFunction.Min, AggregateFunction.Max)")
        ck.add(f"elements of {src} are merged only if it is not a #min/#max aggregate", okm, func, c, f"`{fmt(c)}` dominated by `{src}.function not in (Min, Max)`: {okm}",
               "the merged aggregate is a #sum: elements of a #max operand would be added up instead of maximised")
    comb = ck.func(f"{G}.combine")
    itc = ck.interp(comb)
    rets = [r for r in returns_of(comb) if isinstance(r.value, ast.Tuple) and len(r.value.elts) == 5]
    ck.need(len(rets) == 1, "combine returns the five-tuple at one site")
    # the relations list is edited inside the accepting branch, which makes the engine forget what it knew about values read
    # from it before; rel1 / rel2 / agg_common themselves are not rebound there, so the test is evaluated at the branch entry
    path = sorted(on_path_before(comb, rets[0]), key=lambda s: (s.lineno, s.col_offset)) + [rets[0]]

    def established(cond: str, names: set[str]) -> bool:
        """cond holds at some statement on the way to the return, and none of `names` is rebound from there on"""
        for i, stmt in enumerate(path):
            if itc.reachable(stmt) and itc.holds(stmt, cond):
                later = {n.id for s in path[i:] for n in ast.walk(s) if isinstance(n, ast.Name) and isinstance(n.ctx, ast.Store)}
                if not (names & later):
                    return True
        return False

    for rel in ("rel1", "rel2"):
        cond = f"len((set({rel}.free_symbols) - agg_common).intersection(self._sym2agg.keys())) == 0"
        okc = established(cond, {rel, "agg_common"})
        ck.add(f"two guards are merged only if {rel} has no aggregate besides the common ones", okc, comb, rets[0], f"`{fmt(rets[0])}` dominated by `{cond}`: {okc}",
               "the merged relation uses one middle term for both guards: with a further aggregate in one of them `Y >= 1` becomes `W + Y >= 1`")
    okc = established("common", {"common"})
    ck.add("... and only if they share a term", okc, comb, rets[0], f"dominated by `common`: {okc}", "")
    mul = ck.func(f"{G}.new_mul")
    itm = ck.interp(mul)
    scaled = [n for n in find_nodes(mul.node, lambda n: isinstance(n, ast.Assign) and isinstance(n.targets[0], ast.Subscript)) if unparse(n.targets[0]) == "newterms[0]"]
    ck.add("a factor scales the weight (first term) of every element only", len(scaled) == 1 and unparse(scaled[0].value).replace(" ", "") == "BinaryOperation(LOC,BinaryOperator.Multiplication,newterms[0],factor)", mul, mul.node, f"`{fmt(scaled[0]) if scaled else None}`", "")  # type: ignore[attr-defined]
    rs = [r for r in find_nodes(mul.node, lambda n: isinstance(n, ast.Raise))]
    ck.add("products of two aggregates and of min/max aggregates are refused", len(rs) == 2, mul, mul.node, f"{len(rs)} refusals", "")
    lc = ck.func(f"{G}.least_common")
    itl = ck.interp(lc)
    r1, r2 = lc.params()[1:3]
    n_lc = 0
    for r_, st_ in itl.returns:
        if r_.value is None or is_const(r_.value, None):
            continue
        n_lc += 1
        txt = unparse(itl.expand(r_.value, st_)).replace(" ", "")
        m_ = re.fullmatch(r"\(int\(lcm\((\w+)\[(\w+)\],(\w+)\[\2\]\)/\1\[\2\]\),int\(lcm\(\1\[\2\],\3\[\2\]\)/\3\[\2\]\)\)", txt)
        ck.add("scaling factors are lcm/coefficient for either relation", m_ is not None and m_.group(1) == r1 and m_.group(3) == r2, lc, r_, f"returns `{short(txt, 120)}`",
               "two guards on `2*X` and `3*X` are brought to `6*X` by the factors 3 and 2; coefficient/lcm is 0 for both and the merged guard collapses to `0 op 0 op 0`")
    ck.need(n_lc >= 2, "least_common returns factor pairs")
    d2 = ck.func(f"{G}.double_relation2ast")
    lhs_, opl_, mid_, opr_, rhs_ = d2.params()[1:6]
    itd2 = ck.interp(d2, Pins.of(facts={f"self.is_const({mid_})": True}))
    halves = [c for c in resolved_calls(ck.prg, d2, f"ngo.{G}.relation2ast") if itd2.reachable(c)]
    ck.need(len(halves) == 2, "double_relation2ast drops a constant half at two sites")
    for c in halves:
        a = [unparse(x) for x in c.args]
        want = f"compare(int({lhs_}), {opl_}, int({mid_}))" if a == [mid_, opr_, rhs_] else (f"compare(int({mid_}), {opr_}, int({rhs_}))" if a == [lhs_, opl_, mid_] else "?")
        okd = want != "?" and itd2.holds(c, want)
        ck.add("a constant half of `l op m op r` is dropped only if it holds", okd, d2, c, f"`{fmt(c)}` dominated by `{want}`: {okd}",
               "`2 < 7` and `2 > 3` merged into `3 < 2 < 7`: the half `3 < 2` is false, so the literal is #false; returning only the other half makes the body literal `#true`")
    for sc in scaled:
        okq = itm.holds(sc, "collector.function not in (AggregateFunction.Min, AggregateFunction.Max)")
        ck.add("weights of a #min/#max aggregate are never scaled", okq, mul, sc, f"`{fmt(sc)}` dominated by `collector.function not in (Min, Max)`: {okq}",
               "`c * #max{W}` is `#max{c*W}` only for c > 0: a negative constant swaps minimum and maximum (-2 * #max{1;3} = -6, #max{-2;-6} = -2), and the sign of a factor is not known statically")
        ok1 = itm.holds(sc, "not len(aggs) > 1")
        ck.add("weights are scaled only when the product has a single aggregate", ok1, mul, sc, f"dominated by `not len(aggs) > 1`: {ok1}", "a product of two aggregates is no aggregate")


# ------------------------------------------------------------------------------------------------ C06
def r_who_constructs(ck: Checker) -> None:
    banned = {"Aggregate", "HeadAggregate", "HeadAggregateElement", "Disjunction", "TheoryAtom"}
    found = []
    for func in ck.prg.funcs.values():
        for call in find_nodes(func.node, lambda n: isinstance(n, ast.Call) and isinstance(n.func, ast.Name) and n.func.id in banned):
            res = ck.prg.resolve_callee(func, call.func) or ""  # type: ignore[attr-defined]
            if res.startswith("clingo.ast."):
                found.append((func, call))
    for func, call in found:
        ck.add(f"constructs {unparse(call.func)}", False, func, call, f"`{short(unparse(call))}`", "a generated choice / disjunction makes auxiliary atoms non-deterministic: the number of answer sets changes")  # type: ignore[attr-defined]
    ck.add("no choice, disjunction or head aggregate is ever constructed", not found, "ngo:<all>", None, f"{len(found)} constructor calls of {sorted(banned)}", "auxiliary atoms must be determined by the source atoms")
    n = 0
    for func in ck.prg.funcs.values():
        for call in resolved_calls(ck.prg, func, "clingo.ast.Rule"):
            n += 1
            it = ck.interp(func)
            for st in it.states(call)[:1]:
                head = unparse(it.expand(inline_displays(func, kwarg(call, "head", 1)), st)).replace(" ", "")  # type: ignore[arg-type]
                ok = head.startswith("Literal(LOC,Sign.NoSign,SymbolicAtom(Function(") or head.startswith("self._create_projected_lit(") and ",Sign." not in head.split("),[")[0][-20:] or head.endswith(".head")
                ck.add(f"rule head in {func.name}", ok, func, call, f"head `{short(head, 110)}`", "generated rules are plain rules with a positive atom (or the original head)")
    ck.need(n >= 12, "Rule constructor calls")
    pl = ck.func("dependency:DomainPredicates._create_projected_lit")
    d = pl.node.args.defaults  # type: ignore[attr-defined]
    ck.add("_create_projected_lit is positive by default", len(d) == 1 and unparse(d[0]) == "Sign.NoSign", pl, pl.node, f"default sign {unparse(d[0]) if d else None}", "")


def r_heads_kept(ck: Checker) -> None:
    mods = ("ngo.cleanup", "ngo.literal_duplication", "ngo.symmetry", "ngo.minmax_aggregates", "ngo.sum_aggregates", "ngo.math_simplification", "ngo.projection", "ngo.dependency")
    n = 0
    for func in ck.prg.funcs.values():
        if func.module.name not in mods:
            continue
        for call in attr_calls(func, "update"):
            if any(kw.arg == "head" for kw in call.keywords):
                ck.add(f"update(head=...) in {func.short}", False, func, call, f"`{short(unparse(call))}`", "the seven aux-only traits must keep original heads; only bodies / conditions are rewritten")
            n += 1
    ck.add("the aux-only traits never replace a head", True, "ngo:<seven passes>", None, f"{n} update(...) calls examined in {len(mods)} modules", "", nontrivial=False)


# ------------------------------------------------------------------------------------------------ C02
def r_unify_table(ck: Checker) -> None:
    func = ck.func("utils.ast:_potentially_unifying")
    lhs, rhs = func.params()
    kinds = ["SymbolicTerm", "Variable", "UnaryOperation", "BinaryOperation", "Interval", "Function", "Pool"]
    nfunc = {"SymbolicTerm", "UnaryOperation", "BinaryOperation", "Interval"}
    for a in kinds:
        for b in kinds:
            pins = Pins.of(vals={f"{lhs}.ast_type": f"ASTType.{a}", f"{rhs}.ast_type": f"ASTType.{b}"}, facts={f"{lhs} == {rhs}": False})
            it = ck.interp(func, pins)
            vals = set()
            for ret, st in it.returns:
                v = ret.value
                txt = unparse(v) if v is not None else "None"
                if is_const(v, True):
                    vals.add("True")
                elif is_const(v, False):
                    vals.add("False")
                else:
                    vals.add("structural")
            may_false = "False" in vals or "structural" in vals
            if "Variable" in (a, b):
                allowed = False
            elif {a, b} == {"Function"} or (a == "Function" and b in nfunc) or (b == "Function" and a in nfunc):
                allowed = True
            elif a == b == "SymbolicTerm" or a == b == "UnaryOperation":
                allowed = True
            else:
                allowed = False
            ck.add(f"({a}, {b})", allowed or not may_false, func, func.node, f"may answer 'cannot unify': {may_false} ({sorted(vals)}); sound only if no ground instances can coincide: {allowed}",
                   "answering 'cannot unify' for terms that can become equal (X+1 and 3, a variable and anything) lets a rewrite assume tuples are distinct: costs are then counted twice or once too few")
    # two unary operations with different operators (-X and |Y|) can have equal values
    it = ck.interp(func, Pins.of(vals={f"{lhs}.ast_type": "ASTType.UnaryOperation", f"{rhs}.ast_type": "ASTType.UnaryOperation"}, facts={f"{lhs} == {rhs}": False, f"{lhs}.operator_type == {rhs}.operator_type": False}))
    truths = it.return_truths()
    ck.add("(UnaryOperation, UnaryOperation) with different operators", truths == {True}, func, func.node, f"possible answers {sorted(map(str, truths))}; only 'may unify' is sound",
           "`-X` and `|Y|` are both 3 for X=-3, Y=3: the tuples `-X,P` and `|Y|,P` of two aggregate elements can coincide")
    # symbolic constants can be redefined by #const / -c
    it = ck.interp(func, Pins.of(vals={f"{lhs}.ast_type": "ASTType.SymbolicTerm", f"{rhs}.ast_type": "ASTType.SymbolicTerm"}, facts={f"{lhs} == {rhs}": False}))
    guarded = any("symbol.type" in k for ret, st in it.returns for k in list(st.vals) + list(st.facts))
    ck.add("two different symbolic terms are 'different' only if neither is a symbolic constant", guarded, func, func.node, f"decision looks at the symbol type: {guarded}",
           "`#const c=5.` (or -c c=5) makes the tuples (L,c) and (L,5) coincide", rule="C02.TABLE.const")
    # two function terms: same name, same arity, and the arguments compared POSITION BY POSITION
    itf = ck.interp(func, Pins.of(vals={f"{lhs}.ast_type": "ASTType.Function", f"{rhs}.ast_type": "ASTType.Function"}))
    # (the normal form writes `return A and all(f(x) for x in xs)` as `if not A: return False` + the search loop)
    zl = [lp_ for lp_ in find_nodes(func.node, lambda q: isinstance(q, ast.For)) if same(unparse(lp_.iter), f"zip({lhs}.arguments, {rhs}.arguments)") and itf.reachable(lp_)]  # type: ignore[attr-defined]
    shapes = {unparse(lp_.iter) for lp_ in zl}  # type: ignore[attr-defined]
    ok_f = len(zl) == 1
    if ok_f:
        tgt_ = zl[0].target  # type: ignore[attr-defined]
        pair = f"{unparse(tgt_)}[0], {unparse(tgt_)}[1]" if isinstance(tgt_, ast.Name) else ", ".join(unparse(e) for e in tgt_.elts)
        inner_f = [r for r in returns_of(func) if enclosing_loop(func, r) is zl[0] and itf.reachable(r)]
        ok_f = bool(inner_f) and all(is_const(r.value, False) and (itf.holds(r, f"not _potentially_unifying({pair})") or (isinstance(tgt_, ast.Name) and itf.holds(r, f"not _potentially_unifying(*{tgt_.id})"))) for r in inner_f)
        # before the loop: name and arity
        ok_f = ok_f and itf.holds(zl[0], f"{lhs}.name == {rhs}.name") and itf.holds(zl[0], f"len({lhs}.arguments) == len({rhs}.arguments)")
        from .util import block_of
        blk_ = block_of(func, zl[0]) or []
        nxt_ = [s_ for k_, s_ in enumerate(blk_) if k_ > 0 and blk_[k_ - 1] is zl[0]]
        ok_f = ok_f and bool(nxt_) and isinstance(nxt_[0], ast.Return) and is_const(nxt_[0].value, True)
    ck.add("(Function, Function): equal name and arity and pairwise unifying arguments, position by position", ok_f, func, func.node, f"loop over `{sorted(shapes)}` with 'cannot unify' exactly when a pair cannot, name and arity tested before: {ok_f}",
           "comparing every argument of one term with every argument of the other (a product instead of a zip) calls `cost(soft,1)` and `cost(soft,N)` different although N may be 1: two objective tuples that can coincide are treated as distinct and counted twice")
    # the entry point: 'cannot unify' only when no pair of unpooled alternatives may unify (nothing is decided before)
    top = ck.func("utils.ast:potentially_unifying")
    itt = ck.interp(top)
    tl, tr = top.params()[:2]
    cond_t = f"not any(map(lambda x: _potentially_unifying(x[0], x[1]), product({tl}.unpool(), {tr}.unpool())))"
    n_neg = 0
    for r_t in returns_of(top):
        if is_const(r_t.value, True) or not itt.reachable(r_t):
            continue
        n_neg += 1
        ok_t = is_const(r_t.value, False) and itt.holds(r_t, cond_t)
        if not ok_t and isinstance(r_t.value, ast.expr) and enclosing_loop(top, r_t) is None and same(unparse(r_t.value), cond_t[4:]):
            ok_t = True  # `return any(...)`
        if not ok_t and is_const(r_t.value, False):
            # the search loop `return any(...)` abbreviates: the only way past the loop is that no pair matched
            from .util import block_of as _block_of
            blk_t = _block_of(top, r_t) or []
            prev_t = [s_ for k_, s_ in enumerate(blk_t) if k_ + 1 < len(blk_t) and blk_t[k_ + 1] is r_t]
            if prev_t and isinstance(prev_t[0], ast.For) and same(unparse(prev_t[0].iter), f"product({tl}.unpool(), {tr}.unpool())") and len(prev_t[0].body) == 1 and isinstance(prev_t[0].body[0], ast.If) and not prev_t[0].orelse:
                tg = prev_t[0].target
                pair_t = f"{unparse(tg)}[0], {unparse(tg)}[1]" if isinstance(tg, ast.Name) else ", ".join(unparse(e) for e in tg.elts)  # type: ignore[attr-defined]
                if_t = prev_t[0].body[0]
                ok_t = unparse(if_t.test).replace(" ", "") in (f"_potentially_unifying({pair_t})".replace(" ", ""), f"_potentially_unifying(*{unparse(tg)})") and len(if_t.body) == 1 and isinstance(if_t.body[0], ast.Return) and is_const(if_t.body[0].value, True) and not if_t.orelse
        ck.add("potentially_unifying answers 'cannot unify' only if no pair of unpooled alternatives may unify", ok_t, top, r_t, f"`{fmt(r_t)}` dominated by `{short(cond_t, 90)}`: {ok_t}",
               "a shortcut taken before the term-by-term table (e.g. `lhs == rhs` for a constant against an arithmetic term) calls `G+1` and `2` different although G may be 1: tuples that can coincide are treated as distinct")
    ck.need(n_neg >= 1 or any(not is_const(x.value, True) for x in returns_of(top)), "potentially_unifying can answer 'cannot unify'")
    seq = ck.func("utils.ast:potentially_unifying_sequence")
    its = ck.interp(seq)
    # (the normal form writes `return all(f(x) for x in xs)` as the search loop it abbreviates)
    p0, p1 = seq.params()[0], seq.params()[1]
    r = [x for x in returns_of(seq) if is_const(x.value, False)]
    mismatch = [x for x in r if its.holds(x, f"len({p0}) != len({p1})")]
    ck.add("sequences of different length cannot unify", len(mismatch) == 1 and enclosing_loop(seq, mismatch[0]) is None, seq, seq.node, f"`return False` under a length mismatch before anything else: {len(mismatch)}", "")
    pos = [x for x in r if x not in mismatch]
    okp = bool(pos)
    for x in pos:
        lp = enclosing_loop(seq, x)
        okp = okp and lp is not None and same(unparse(lp.iter), f"zip({p0}, {p1})") and isinstance(lp.target, ast.Name) and its.holds(x, f"not potentially_unifying(*{unparse(lp.target)})")
    rr = [x for x in returns_of(seq) if not is_const(x.value, False)]
    ok = okp and len(rr) == 1 and is_const(rr[0].value, True) and enclosing_loop(seq, rr[0]) is None
    ck.add("sequences unify iff all positions may unify", ok, seq, seq.node, f"'cannot unify' inside the loop over zip({p0}, {p1}) exactly when a position cannot: {okp}; other returns `{[fmt(x) for x in rr]}`", "")


def r_minimize_terms(ck: Checker) -> None:
    func = ck.func("normalize:exline_minimize_terms")
    it = ck.interp(func)
    calls = resolved_calls(ck.prg, func, "ngo.normalize:exline_term")
    args = [unparse(c.args[0]) for c in calls]
    stm = func.params()[0]
    ok = len(calls) == 3 and args[0] == f"{stm}.weight" and args[1].endswith(".priority") and enclosing_loop(func, calls[2]) is not None
    ck.add("weight, priority and every tuple term are ex-lined", ok, func, func.node, f"exline_term applied to {args}", "arithmetic in an objective must move to the body as a whole, otherwise the term keeps a stale value")
    kws = set()
    for c in attr_calls(func, "update"):
        kws |= {kw.arg for kw in c.keywords}
    ck.add("the rebuilt objective gets weight, priority, terms and the new body equalities", kws >= {"weight", "priority", "terms", "body"}, func, func.node, f"update keywords {sorted(k for k in kws if k)}", "")
    # every equality that exline_term hands back ends up in the body of the statement that is returned
    from .util import block_of
    for c in calls:
        stmt_ = enclosing_stmt(func, c)
        tgt = stmt_.targets[0] if isinstance(stmt_, ast.Assign) else None  # type: ignore[attr-defined]
        ck.need(isinstance(tgt, ast.Tuple) and len(tgt.elts) == 2 and isinstance(tgt.elts[1], ast.Name), "exline_term's result is unpacked into (term, equalities)")
        conds = tgt.elts[1].id  # type: ignore[union-attr]
        lp = enclosing_loop(func, c)
        carrier = conds
        ok_c = True
        if lp is not None:
            feeds = [x for x in attr_calls(func, "extend") if enclosing_loop(func, x) is lp and len(x.args) == 1 and unparse(x.args[0]) == conds and isinstance(x.func.value, ast.Name)]  # type: ignore[attr-defined]
            ok_c = len(feeds) == 1 and every_iteration_reaches(ck, func, lp, feeds[0], None)[0]
            carrier = feeds[0].func.value.id if feeds else conds  # type: ignore[attr-defined]
            after = [s for s in (block_of(func, lp) or []) if s.lineno > lp.lineno]
        else:
            blk = block_of(func, stmt_) or []
            after = [s for s in blk if s.lineno > stmt_.lineno][:1]
        ups = [u for s in after for u in ast.walk(s) if isinstance(u, ast.Call) and isinstance(u.func, ast.Attribute) and u.func.attr == "update" and kwarg(u, "body") is not None]
        ok_b = bool(ups) and any(carrier in {n.id for n in ast.walk(kwarg(u, "body")) if isinstance(n, ast.Name)} for u in ups[:1])  # type: ignore[arg-type]
        ck.add(f"the equalities for `{short(unparse(c.args[0]), 30)}` are added to the objective's body", ok_c and ok_b, func, c, f"`{conds}` -> `{carrier}` in `{short(unparse(ups[0]), 80) if ups else None}`: {ok_c and ok_b}",
               "an ex-lined term without its `AUX = term` equality leaves AUX unbound: the weak constraint is unsafe (or, for a tuple term, all tuples collapse)")


# ------------------------------------------------------------------------------------------------ C01
PASS_PROPS = {
    "CleanupTranslator": "C08", "UnusedTranslator": "C09", "LiteralDuplicationTranslator": "C10", "SymmetryTranslator": "C11", "MinMaxAggregator": "C12",
    "SumAggregator": "C13", "MathSimplification": "C14", "InlineTranslator": "C15", "ProjectionTranslator": "C16",
}


# passes that build a DomainPredicates object from the program handed to their constructor
DOMAIN_USERS = ("InlineTranslator", "LiteralDuplicationTranslator", "MinMaxAggregator", "SumAggregator", "SymmetryTranslator")


def same_key(text: str) -> str:
    """normal form of an expression text (comprehension variables positional)"""
    from ..nform import canon_expr
    from .util import _comp_alpha

    return _comp_alpha(canon_expr(text))


def _api_pass(cname: str):  # type: ignore[no-untyped-def]
    def run(ck: Checker) -> None:
        func = ck.func("api:optimize")
        p_prg, p_in, p_out = func.params()[:3]
        found = False
        for call in calls_in(func, lambda c: True):
            res = ck.prg.resolve_callee(func, call.func) or ""
            if res not in ck.prg.classes or res.split(":")[1] != cname:
                continue
            found = True
            init = ck.prg.funcs.get(f"{res}.__init__")
            ck.need(init is not None, f"{cname} has a constructor")
            params = init.params()[1:]  # type: ignore[union-attr]
            bound = dict(zip(params, [unparse(a) for a in call.args]))
            bound.update({kw.arg: unparse(kw.value) for kw in call.keywords if kw.arg})
            if "input_predicates" in params:
                ck.add(f"{cname}(input_predicates=...)", bound.get("input_predicates") == p_in, func, call, f"constructor parameter input_predicates is bound to `{bound.get('input_predicates')}`",
                       "swapped or dropped declarations make the pass reason closed-world about instance data, or seed its name generator with the wrong vocabulary")
            if "output_predicates" in params:
                ck.add(f"{cname}(output_predicates=...)", bound.get("output_predicates") == p_out, func, call, f"constructor parameter output_predicates is bound to `{bound.get('output_predicates')}`", "outputs must be protected from removal")
            if "prg" in params:
                ok_prg = bound.get("prg") == "input_"
                if not ok_prg and any(isinstance(a_, ast.With) and getattr(a_, "ngosa_inline", None) for a_ in ancestors(func, call)):
                    # inside a helper that was copied in, the pipeline value travels under the helper's parameter name: the
                    # program analysed is the program the same translator is then run on, and the result replaces it
                    holder = enclosing_stmt(func, call)
                    tname = holder.targets[0].id if isinstance(holder, ast.Assign) and len(holder.targets) == 1 and isinstance(holder.targets[0], ast.Name) and holder.value is call else None
                    runs = [c for c in attr_calls(func, "execute") if tname is not None and isinstance(c.func.value, ast.Name) and c.func.value.id == tname]  # type: ignore[attr-defined]
                    if len(runs) == 1 and len(runs[0].args) == 1 and unparse(runs[0].args[0]) == bound.get("prg"):
                        rstm = enclosing_stmt(func, runs[0])
                        ok_prg = isinstance(rstm, ast.Assign) and len(rstm.targets) == 1 and unparse(rstm.targets[0]) == bound.get("prg")
                ck.add(f"{cname}(prg=...)", ok_prg, func, call, f"analysed program is `{bound.get('prg')}`", "a pass must analyse the program it rewrites (the current pipeline value): analyses of the raw or of an earlier program name predicates and shapes that the rewritten program no longer has (assertions fail, domain rules refer to predicates nobody defines)")
            ck.add(f"{cname} is constructed anew in every round", enclosing_loop(func, call) is not None, func, call, f"constructor call inside the `while` loop: {enclosing_loop(func, call) is not None}",
                   "translators accumulate state (known implications, usage, names) that is only valid for the program of that round: reusing one across rounds applies stale facts to a changed program")
        ck.add(f"{cname} is part of the pipeline", found, func, func.node, f"constructor call found: {found}", "", nontrivial=False)

    return run


def r_api_interface(ck: Checker) -> None:
    func = ck.func("api:optimize")
    p_prg = func.params()[0]
    need_in = {"CleanupTranslator", "UnusedTranslator", "LiteralDuplicationTranslator", "SymmetryTranslator", "MinMaxAggregator", "SumAggregator", "InlineTranslator", "ProjectionTranslator"}
    need_out = {"UnusedTranslator", "InlineTranslator"}
    seen_in, seen_out = set(), set()
    for cname in PASS_PROPS:
        qual = [q for q in ck.prg.classes if q.split(":")[1] == cname]
        ck.need(len(qual) == 1, f"class {cname} exists")
        init = ck.prg.funcs.get(f"{qual[0]}.__init__")
        params = init.params() if init is not None else []
        if "input_predicates" in params:
            seen_in.add(cname)
        if "output_predicates" in params:
            seen_out.add(cname)
    ck.add("every pass that reasons about the interface has an input_predicates parameter", seen_in == need_in, func, func.node, f"classes with an input_predicates parameter: {sorted(seen_in)}", "")
    ck.add("passes that remove things have an output_predicates parameter", seen_out == need_out, func, func.node, f"classes with an output_predicates parameter: {sorted(seen_out)}", "")
    first = [n for n in find_nodes(func.node, lambda n: isinstance(n, (ast.Assign, ast.AnnAssign))) if unparse(getattr(n, "target", None) or n.targets[0]) == "input_"]  # type: ignore[attr-defined]
    ck.need(len(first) >= 2, "pipeline variable assignments")
    ck.add("the pipeline starts from preprocess(prg)", unparse(first[0].value) == f"preprocess({p_prg})", func, first[0], f"`{fmt(first[0])}`", "every pass assumes the normal form")  # type: ignore[attr-defined]


RULES = [
    Rule("C14.TABLE.terms", P14, r_term_table, extra={"C03": ("the divisor is not the constant 0",)}),
    Rule("C14.signs", P14, r_sign_handling),
    Rule("C14.acceptance", P14 + ("C06", "C04"), r_acceptance),
    Rule("C14.simplify", P14, r_simplify),
    Rule("C14.merge", P14 + ("C02",), r_merge),
    Rule("C06.who-constructs", ("C06", "C01"), r_who_constructs),
    Rule("C06.heads-kept", ("C06", "C01"), r_heads_kept),
    Rule("C02.TABLE.unify", ("C02", "C13", "C12", "C15", "C01"), r_unify_table),
    Rule("C02.minimize-terms", ("C02", "C05", "C01", "C04"), r_minimize_terms),
    Rule("C01.api-interface", ("C01",), r_api_interface),
] + [Rule(f"C01.api.{cname}", ("C01", prop) + (("C07",) if cname == "UnusedTranslator" else ()) + (("C06",) if cname not in ("UnusedTranslator", "InlineTranslator") else ()), _api_pass(cname),
         extra={"C03": ("(prg=...)",), **({"C20": ("(prg=...)",)} if cname in DOMAIN_USERS else {})}) for cname, prop in PASS_PROPS.items()]
