"""C15 — inline: unfolding an aggregate-defining rule into its one user keeps values (DESIGN §4 C15, templates A and G)."""

from __future__ import annotations

import ast
import re

from ..core import Checker, Rule, attr_calls, callee_is, calls_in, kwarg, resolved_calls, short
from ..grammar import schema
from ..interp import Pins, find_nodes, unparse
from .util import ancestors, effect_table, enclosing_loop, enclosing_stmt, enum_members, every_iteration_reaches, fmt, is_const, parent, returns_of, same, self_attr_for_param, single_def

P = ("C15", "C01")
PG = ("C15", "C02", "C01")
CLS = "inline:InlineTranslator"


def r_is_single(ck: Checker) -> None:
    """template A for is_single"""
    func = ck.func(f"{CLS}.is_single")
    it = ck.interp(func)
    stm, rdp = func.params()[1], func.params()[2]
    rets = [r for r in returns_of(func) if r.value is not None and not is_const(r.value, None)]
    ck.need(len(rets) >= 1, "is_single has a successful return")
    a_in = self_attr_for_param(ck, CLS, "input_predicates")
    a_out = self_attr_for_param(ck, CLS, "output_predicates")
    hp = f"Predicate({stm}.head.atom.symbol.name, len({stm}.head.atom.symbol.arguments))"
    args = f"{stm}.head.atom.symbol.arguments"
    conds = [
        ("statement is a rule", f"{stm}.ast_type == ASTType.Rule", ""),
        ("A3 head is a predicate atom", f"is_predicate({stm}.head)", ""),
        ("A3 head is positive", f"{stm}.head.sign == Sign.NoSign", ""),
        ("A4 head arguments are variables", f"not any(map(lambda arg: arg.ast_type != ASTType.Variable, {args}))", "a constant head argument is an implicit test"),
        ("A4 head variables are pairwise distinct", f"len(set(collect_ast({stm}.head.atom.symbol, 'Variable'))) == len({args})", "h(X,X) forces its two arguments to be equal at every use"),
        ("A1 not an input", f"{hp} not in self.{a_in}", "the instance may add atoms of an input predicate"),
        ("A1 not an output", f"{hp} not in self.{a_out}", "output predicates must stay derivable"),
        ("A1 not static", f"not self.domain_predicates.is_static({hp})", ""),
        ("A2 single defining rule", f"len({rdp}.get_rules_that_derive({hp})) == 1", ""),
        ("exactly one using statement", f"len({rdp}.get_statements_that_use({hp})) == 1", "with two uses (also two in ONE statement) deleting the definition leaves an underived atom behind"),
        ("the user is another statement", f"{rdp}.get_statements_that_use({hp})[0] != {stm}", "a recursive definition cannot be unfolded"),
        ("no anonymous use", f"not self.has_anonymous_vars({hp}, {rdp}.get_statements_that_use({hp})[0].body)", "`h(_,S)` projects: unfolding would multiply tuples"),
        ("exactly one body aggregate", f"len(collect_ast({stm}, 'BodyAggregate')) == 1", ""),
        ("aggregate has exactly one `=` bound", f"len(AggAnalytics(collect_ast({stm}, 'BodyAggregate')[0]).equal_variable_bound) == 1", ""),
        ("... and no other bound", f"not AggAnalytics(collect_ast({stm}, 'BodyAggregate')[0]).bounds", "a second bound is a test that would be lost"),
    ]
    # every way of answering "single" (an added fast path included) has to satisfy all side conditions
    for ret in rets:
        for sig, cond, why in conds:
            ok = it.holds(ret, cond)
            ck.add(sig, ok, func, ret, f"successful return dominated by `{short(cond, 120)}`: {ok}", why or "side condition of unfolding a single definition")
        v = unparse(ret.value)  # type: ignore[arg-type]
        org = {st.origin.get(v, "") for st in it.states(ret)}
        ok = org == {f"enumerate({args})[*][0]"} and it.holds(ret, f"v == Variable(LOC, AggAnalytics(collect_ast({stm}, 'BodyAggregate')[0]).equal_variable_bound[0])")
        ck.add("returned position holds the aggregate's result variable", ok, func, ret, f"index from {sorted(org)}, guarded by equality with the `=` bound variable: {ok}", "G2: the value that is unfolded must be the aggregate value")


def r_anonymous_use(ck: Checker) -> None:
    """has_anonymous_vars: `True` for an atom of THE predicate with an `_` argument, `False` only after every body literal"""
    func = ck.func(f"{CLS}.has_anonymous_vars")
    it = ck.interp(func)
    pred, body = func.params()[-2:]
    loops = [lp for lp in find_nodes(func.node, lambda n: isinstance(n, ast.For)) if unparse(lp.iter) == body]  # type: ignore[attr-defined]
    ck.need(len(loops) == 1 and isinstance(loops[0].target, ast.Name), "has_anonymous_vars scans the body")  # type: ignore[attr-defined]
    lit = loops[0].target.id  # type: ignore[attr-defined]
    falses = [r for r in returns_of(func) if not is_const(r.value, True)]
    ck.add("no anonymous use is reported only after the whole body was scanned", bool(falses) and all(enclosing_loop(func, r) is None and is_const(r.value, False) for r in falses), func, falses[0] if falses else func.node,
           f"negative answers: {[fmt(r) for r in falses]}", "an early `return False` at the first literal of another predicate hides `h(_,S)` further back: unfolding then multiplies tuples")
    itp = ck.interp(func, Pins.of(facts={f"is_predicate({lit})": True, f"Predicate({lit}.atom.symbol.name, len({lit}.atom.symbol.arguments)) == {pred}": True, f"any(map(lambda x: x == Variable(LOC, '_'), {lit}.atom.symbol.arguments))": True}))
    back = itp.loop_back.get(id(loops[0]), [])
    ck.add("an atom of the predicate with an `_` argument is reported", not back and itp.reachable(loops[0]), func, loops[0], f"under 'atom of {pred} with an anonymous argument' an iteration can complete without answering True: {bool(back)}", "")


def r_rule_dependency(ck: Checker) -> None:
    """RuleDependency: uses are recorded once per occurrence, for every statement kind that has a body"""
    func = ck.func("dependency:RuleDependency.__init__")
    it = ck.interp(func)
    apps = [c for c in attr_calls(func, "append") if unparse(c.func.value).startswith("self.pred2stm[")]  # type: ignore[attr-defined]
    ck.need(len(apps) >= 1, "uses are registered (self.pred2stm[pred].append(stm))")
    main = [a for a in apps if (lp := enclosing_loop(func, a)) is not None and "body_predicates(" in unparse(lp.iter)]
    ck.need(len(main) == 1, "uses in rules and objectives are registered at one site")
    app = main[0]
    loop = enclosing_loop(func, app)
    ck.need(loop is not None, "registration loop")
    stm = unparse(app.args[0])
    it_txt = unparse(loop.iter).replace(" ", "")  # type: ignore[union-attr]
    ok = it_txt == f"chain(body_predicates({stm},SIGNS),minimize_predicates({stm},SIGNS))"
    ck.add("uses are counted with multiplicity", ok, func, app, f"registration loop iterates `{it_txt}`",
           "inline.is_single relies on len(get_statements_that_use(p)) != 1 to see a predicate used twice in one statement; de-duplicating the uses makes it look single")
    okk, n = every_iteration_reaches(ck, func, loop, app, None)  # type: ignore[arg-type]
    ck.add("every occurrence is registered", okk and n > 0, func, app, f"unconditional append: {okk}", "")
    getter = ck.func("dependency:RuleDependency.get_statements_that_use")
    itg = ck.interp(getter)
    grets = [(r_, st_) for r_, st_ in itg.returns if r_.value is not None]
    gtxt = {itg.text(r_.value, st_) for r_, st_ in grets}
    for gname, table in (("get_bodies", "head2bodies"), ("get_rules_that_derive", "head2rules")):
        g2 = ck.func(f"dependency:RuleDependency.{gname}")
        itg2 = ck.interp(g2)
        r2 = [(r_, st_) for r_, st_ in itg2.returns if r_.value is not None]
        t2 = {itg2.text(r_.value, st_) for r_, st_ in r2}
        k2 = g2.params()[1]
        ck.add(f"every defining rule is handed out: {gname} returns the whole entry", bool(t2) and all(t in (f"self.{table}[{k2}]", f"list(self.{table}[{k2}])", f"self.{table}[{k2}][:]") for t in t2), g2, r2[0][0] if r2 else g2.node,
               f"{gname} returns {sorted(t2)}", "`len(get_bodies(p)) == 1` means 'derived by this rule only' (minmax result predicates, copy rules of unused, inline): a fact `best(guest,4).` has an empty body - filtering such entries out lets a predicate with a second derivation pass")
    ck.add("the registered uses are handed out as they are (one entry per occurrence)", bool(gtxt) and all(t in (f"self.pred2stm[{getter.params()[1]}]", f"list(self.pred2stm[{getter.params()[1]}])", f"self.pred2stm[{getter.params()[1]}][:]") for t in gtxt), getter, grets[0][0] if grets else getter.node, f"get_statements_that_use returns {sorted(gtxt)}",
           "inline.is_single reads len(get_statements_that_use(p)) == 1 as 'used exactly once in the whole program': a list without duplicates makes a predicate that occurs twice in ONE statement look single; one occurrence is unfolded, the definition deleted, the other occurrence is underivable")
    h = [c for c in attr_calls(func, "append") if unparse(c.func.value).startswith("self.head2rules[")]  # type: ignore[attr-defined]
    ck.need(len(h) == 1, "defining rules registered at one site")
    hb = [c for c in attr_calls(func, "append") if unparse(c.func.value).startswith("self.head2bodies[")]  # type: ignore[attr-defined]
    ck.need(len(hb) == 1, "defining bodies registered at one site")
    prg_loop = [lp for lp in find_nodes(func.node, lambda n: isinstance(n, ast.For)) if enclosing_loop(func, lp) is None and any(h[0] is x for x in ast.walk(lp))]
    ck.need(len(prg_loop) == 1 and isinstance(prg_loop[0].target, ast.Name), "definitions are registered in the loop over the program")
    head_loop = enclosing_loop(func, h[0])
    stm_ = prg_loop[0].target.id  # type: ignore[union-attr]
    okr, nr = every_iteration_reaches(ck, func, prg_loop[0], head_loop, Pins.of(vals={f"{stm_}.ast_type": "ASTType.Rule"})) if head_loop is not None and head_loop is not prg_loop[0] else (False, 0)
    ck.add("every defining rule is looked at, whatever its body (facts included)", okr and nr > 0, func, h[0], f"for every Rule statement the loop over its derivable heads is reached: {okr}",
           "consumers count the definitions: a fact or body-less choice that is not registered makes a predicate with one further rule look singly defined", rule="C15.definitions")
    for site, what in ((h[0], "rule"), (hb[0], "body")):
        lp = enclosing_loop(func, site)
        ok_all, n_it = every_iteration_reaches(ck, func, lp, site, None) if lp is not None else (False, 0)
        ck.add(f"every defining {what} is registered (facts included)", ok_all and n_it > 0, func, site, f"`{fmt(site)}` reached in every iteration over the derivable heads: {ok_all}",
               "consumers count the definitions (`len(get_bodies(p)) == 1`, `len(get_rules_that_derive(p)) != 1`): a fact or a second rule that is not registered makes a predicate look singly defined",
               rule="C15.definitions")
    ck.guard("definitions are rules", func, h[0], f"{unparse(h[0].args[0])}.ast_type == ASTType.Rule", "")
    org = {st.origin.get(n_, "") for st in it.states(h[0]) for n_ in [unparse(h[0].func.value.slice)]}  # type: ignore[attr-defined]
    ck.add("definitions are keyed by head-derivable predicates", all("headderivable_predicates(" in o for o in org) and bool(org), func, h[0], f"key iterates {sorted(org)}", "")
    # which statement kinds contribute uses: body_predicates / minimize_predicates dispatch
    sch = schema()
    bp, mp = ck.func("utils.ast:body_predicates"), ck.func("utils.ast:minimize_predicates")
    need = sorted(k for k in sch.nonterminals["statement"] if sch.field(k, "body") is not None and k != "ShowTerm")
    outer = [lp for lp in find_nodes(func.node, lambda n: isinstance(n, ast.For)) if enclosing_loop(func, lp) is None and any(a is x for a in apps for x in ast.walk(lp))]
    ck.need(len(outer) == 1, "one loop over the statements of the program")
    for kind in need:
        hit = False
        for f in (bp, mp):
            p0 = f.params()[0]
            itk = ck.interp(f, Pins.of(vals={f"{p0}.ast_type": f"ASTType.{kind}"}))
            ys = [n for n in find_nodes(f.node, lambda n: isinstance(n, ast.YieldFrom)) if itk.reachable(n)]
            hit = hit or bool(ys)
        where = "body_predicates/minimize_predicates yield"
        if not hit:
            # registered by RuleDependency itself: an append reachable for this kind inside a loop over the statement's body
            itk = ck.interp(func, Pins.of(vals={f"{stm}.ast_type": f"ASTType.{kind}"}))
            for a in apps:
                if a is app or not itk.reachable(a):
                    continue
                lps = [x for x in ancestors(func, a) if isinstance(x, ast.For) and x is not outer[0]]
                if lps and unparse(lps[-1].iter) == f"{stm}.body" and unparse(a.args[0]) == stm:
                    hit = True
                    where = "RuleDependency registers the literals of the body"
        ck.add(f"uses in the body of {kind} statements are counted", hit, func, outer[0], f"{where} for {kind}: {hit}",
               "A6: a use in a directive body (#external, #edge, #heuristic, #project) is not rewritten by inline, so the definition must not be deleted", rule="C15.A6.uses")
    single = ck.func(f"{CLS}.is_single")
    its = ck.interp(single)
    users = [n for n in find_nodes(single.node, lambda n: isinstance(n, (ast.Assign, ast.AnnAssign))) if "get_statements_that_use(" in unparse(n.value or ast.Constant(None))]  # type: ignore[attr-defined]
    ck.need(len(users) == 1, "is_single looks the users up once")
    u = unparse(users[0].targets[0] if isinstance(users[0], ast.Assign) else users[0].target)  # type: ignore[attr-defined]
    good = [r for r in returns_of(single) if r.value is not None and not is_const(r.value, None) and its.reachable(r)]
    ck.need(len(good) >= 1, "is_single has a positive return")
    for r in good:
        ck.guard("the single user is a rule or an objective", single, r, f"{u}[0].ast_type in (ASTType.Rule, ASTType.Minimize)", "nothing can be unfolded into a directive: a helper used only there must stay")


def r_good_table(ck: Checker) -> None:
    """TABLE inline_body_aggregate: inner function -> admissible outer functions, and the resulting function"""
    func = ck.func(f"{CLS}.inline_body_aggregate")
    it = ck.interp(func)
    dicts = [n for n in find_nodes(func.node, lambda n: isinstance(n, ast.Dict)) if all("AggregateFunction." in unparse(k) for k in n.keys)]  # type: ignore[attr-defined]
    ck.need(len(dicts) == 1, "`good` is a dict-literal table over AggregateFunction")
    table = {unparse(k).split(".")[-1]: {unparse(e).split(".")[-1] for e in v.elts} for k, v in zip(dicts[0].keys, dicts[0].values)}  # type: ignore[attr-defined]
    ref = {"Min": {"Min"}, "Max": {"Max"}, "Count": {"Count", "Sum", "SumPlus"}, "Sum": {"Sum", "SumPlus"}, "SumPlus": {"Sum", "SumPlus"}}
    for inner in ("Min", "Max", "Count", "Sum", "SumPlus"):
        got = table.get(inner, set())
        ck.add(f"inner #{inner.lower()} may be unfolded into", got <= ref[inner], func, dicts[0], f"{sorted(got)}; admissible {sorted(ref[inner])}",
               "a sum of sums is a sum, a max of maxima a max; mixing e.g. #sum into #max changes the value")
    ups = [c for c in attr_calls(func, "update") if kwarg(c, "elements") is not None and unparse(c.func.value) == func.params()[2]]  # type: ignore[attr-defined]
    ck.need(len(ups) == 1, "the unfolded aggregate is built at one site")
    site = ups[0]
    atom = func.params()[2]
    base = it.texts(site, ast.Name("agg", ast.Load()))
    ck.need(len(base) == 1, "inner aggregate has one definition")
    agg = next(iter(base))
    ck.guard("unfold only admissible combinations", func, site, f"{atom}.function in good[{agg}.function]", "")
    for inner in ("Min", "Max", "Count", "Sum", "SumPlus"):
        for outer in sorted(ref[inner]):
            pins = Pins.of(vals={f"{agg}.function": f"AggregateFunction.{inner}", f"{atom}.function": f"AggregateFunction.{outer}"})
            itp = ck.interp(func, pins)
            fkw = kwarg(site, "function")
            got = {unparse(itp.expand(fkw, s)) if fkw is not None else f"{atom}.function" for s in itp.states(site)}
            want = "AggregateFunction.Sum" if inner == "Sum" else f"{atom}.function"
            ok = got == {want} or (inner != "Sum" and got == {f"AggregateFunction.{outer}"})
            ck.add(f"result function for #{inner.lower()} inside #{outer.lower()}", ok, func, site, f"function := {sorted(got)}; required {want}",
                   "a #sum helper may carry negative weights: unfolded into #sum+ they would be dropped, so the result must become #sum")
    # guards of the unfolding
    # the counts come from InlineTranslator._info (checked in r_info) or, when that helper was folded into its caller, from the same expressions in place
    if ck.prg.has_func(f"{CLS}._info"):
        counts = "self._info(rule)[1] == 0 and self._info(rule)[0] == 1"
        info = ck.func(f"{CLS}._info")
        iti = ck.interp(info)
        rp = info.params()[0]
        want_info = (f"sum(len(collect_ast(b, 'BodyAggregate')) + len(collect_ast(b, 'Aggregate')) for b in {rp}.body)",
                     f"any(len(collect_ast(b, 'ConditionalLiteral')) > 0 for b in {rp}.body)")
        ck.need(bool(iti.returns), "_info returns its counts")
        for ret, st in iti.returns:
            val = iti.inline_locals(iti.expand(ret.value, st)) if ret.value is not None else None
            parts = [unparse(e) for e in val.elts] if isinstance(val, ast.Tuple) else []
            ok = len(parts) >= 2 and same(parts[0], want_info[0]) and same(parts[1], want_info[1])
            ck.add("the helper's counts are: aggregates (body and plain) over the whole body, then whether any conditional literal occurs", ok, info, ret,
                   f"returns `{short(unparse(val), 150) if val is not None else None}`",
                   "the guards of the unfolding read position 0 as the number of aggregates and position 1 as the presence of conditional literals; a count that misses a kind lets a helper with two aggregates or a conditional literal be unfolded")
    else:
        counts = ("any(len(collect_ast(blit, 'ConditionalLiteral')) > 0 for blit in rule.body) == 0 and "
                  "sum(len(collect_ast(blit, 'BodyAggregate')) + len(collect_ast(blit, 'Aggregate')) for blit in rule.body) == 1")
    conds = [
        ("helper has no conditional literal and exactly one aggregate", counts.replace("rule", func.params()[1]), ""),
        ("G3 result variable occurs exactly twice in the helper", None, ""),
        ("G4 no sibling tuple may unify", None, ""),
        ("the helper atom is used positively", "replace_cond.ast_type == ASTType.Literal and replace_cond.sign == Sign.NoSign", "a negated use is not an element of the sum"),
        ("G2 the weight of the element is the helper's result argument", "replace_elem.terms and replace_elem.terms[0] == replace_cond.atom.symbol.arguments[hv_pos]", "only then does the element contribute the helper's aggregate value"),
    ]
    for sig, cond, why in conds:
        if cond is not None:
            ok = it.holds(site, cond)
            ck.add(sig, ok, func, site, f"dominated by `{short(cond, 110)}`: {ok}", why)
    rule_p = func.params()[1]
    c3 = f"sum(map(lambda x: x == hv, collect_ast({rule_p}, 'Variable'))) == 2"
    ok = it.holds(site, c3)
    ck.add("G3 result variable occurs exactly twice in the helper", ok, func, site, f"dominated by `{c3}`: {ok}", "a third occurrence is a test on the value that unfolding drops")
    c4 = "not any(map(lambda x: potentially_unifying_sequence(x.terms, replace_elem.terms), rest_elems))"
    ok = it.holds(site, c4)
    ck.add("G4 no sibling tuple may unify", ok, func, site, f"dominated by `{c4}`: {ok}", "set semantics of aggregate tuples")
    rest = single_def(func, "rest_elems")
    ck.add("siblings = all other elements", rest is not None and same(unparse(rest), f"[elem for elem in {atom}.elements if elem != replace_elem]"), func, site, f"rest_elems = `{unparse(rest) if rest is not None else None}`", "")
    els = kwarg(site, "elements")
    ck.add("new elements = untouched siblings + unfolded elements", els is not None and unparse(els).replace(" ", "") == "rest_elems+new_elements", func, site, f"`{unparse(els) if els is not None else None}`", "")


def _pad_amount(ck: Checker, func, pad: ast.Call) -> None:  # type: ignore[no-untyped-def]
    """`T.extend([unique] * (max_arity - len(T) + 1))`: the number of pads is computed from the length of the very tuple
    that is padded, so that it ends up one longer than every sibling tuple"""
    recv = unparse(pad.func.value)  # type: ignore[attr-defined]
    arg = pad.args[0]
    amount = None
    if isinstance(arg, ast.BinOp) and isinstance(arg.op, ast.Mult):
        amount = arg.right if isinstance(arg.left, (ast.List, ast.Tuple)) else arg.left
    txt = unparse(amount).replace(" ", "") if amount is not None else None
    ok = txt in (f"max_arity-len({recv})+1", f"max_arity+1-len({recv})", f"1+max_arity-len({recv})")
    ck.add(f"{func.name}: the pad makes the padded tuple itself longer than every sibling tuple", ok, func, pad, f"`{recv}` is extended by `{txt}` pads",
           "padding computed from another list's length (the element's own tuple, which still holds the weight) leaves the new tuple exactly as long as a sibling tuple: the two can coincide and a weight is counted once",
           rule="C15.G6.padding")


def r_padding(ck: Checker) -> None:
    """G6: padded tuples stay distinguishable: padding is computed from TUPLE lengths"""
    func = ck.func(f"{CLS}.compute_new_body_elements")
    it = ck.interp(func)
    acc = [n for n in find_nodes(func.node, lambda n: isinstance(n, ast.Assign)) if unparse(n.targets[0]) == "max_arity" and isinstance(n.value, ast.Call)]  # type: ignore[attr-defined]
    ck.need(len(acc) == 1, "max_arity accumulates a maximum")
    txt = unparse(acc[0].value).replace(" ", "")  # type: ignore[attr-defined]
    ok = bool(re.fullmatch(r"max\(max_arity,len\((\w+)\.terms\)\)", txt))
    ck.add("padding length derives from the sibling tuples' lengths", ok, func, acc[0], f"`{txt}`",
           "the pad must make the new tuples at least as long as every sibling tuple; taking len(condition) instead lets a padded tuple collide with a sibling tuple of the same length",
           rule="C15.G6.padding")
    rb = single_def(func, "rbody")
    want_rb = f"[blit for blit in {func.params()[1]}.body if not (blit.ast_type == ASTType.Literal and blit.atom.ast_type == ASTType.BodyAggregate)]"
    ck.add("the helper's whole body except its aggregate literal goes into every unfolded element", rb is not None and same(unparse(rb), want_rb), func, func.node, f"rbody = `{short(unparse(rb), 140) if rb is not None else None}`",
           "comparisons and assignments of the helper (`A <= L`) restrict when it derives anything: dropping them makes the unfolded elements count tuples the helper never produced", rule="C15.helper-body")
    pads = [c for c in attr_calls(func, "extend") if "unique" in unparse(c)]
    ck.need(len(pads) == 1, "tuples are padded with the constant `unique`")
    _pad_amount(ck, func, pads[0])
    mn = ck.func(f"{CLS}.inline_minimize")
    pm = [n for n in find_nodes(mn.node, lambda n: isinstance(n, ast.Assign)) if unparse(n.targets[0]) == "max_arity" and isinstance(n.value, ast.Call)]  # type: ignore[attr-defined]
    ck.need(len(pm) == 1, "inline_minimize computes a padding length")
    txt = unparse(pm[0].value).replace(" ", "")  # type: ignore[attr-defined]
    lp = enclosing_loop(mn, pm[0])
    ok = bool(re.fullmatch(r"max\(max_arity,len\((\w+)\)\)", txt)) and lp is not None and unparse(lp.iter) == "self.minimize_tuples"
    ck.add("objective padding derives from the objective tuples' lengths", ok, mn, pm[0], f"`{txt}` over `{unparse(lp.iter) if lp is not None else None}`", "")
    pads_m = [c for c in attr_calls(mn, "extend") if "unique" in unparse(c)]
    ck.need(len(pads_m) == 1, "objective tuples are padded with the constant `unique`")
    _pad_amount(ck, mn, pads_m[0])


def r_inline_minimize(ck: Checker) -> None:
    func = ck.func(f"{CLS}.inline_minimize")
    it = ck.interp(func)
    stm = func.params()[1]
    apps = [c for c in attr_calls(func, "append") if unparse(c.func.value) == "new_minimizes"]  # type: ignore[attr-defined]
    ck.need(len(apps) == 1, "one weak constraint per element is appended at one site")
    site = apps[0]
    agg = f"collect_ast({stm}, 'BodyAggregate')[0]"
    conds = [
        ("statement is an objective", f"{stm}.ast_type == ASTType.Minimize", ""),
        ("exactly one aggregate", f"collect_ast({stm}, 'BodyAggregate') and not len(collect_ast({stm}, 'BodyAggregate')) > 1", "local variables of two aggregates would clash when they become global"),
        ("aggregate is additive", f"{agg}.function in (AggregateFunction.Count, AggregateFunction.Sum, AggregateFunction.SumPlus)", "only a sum distributes over one weak constraint per element"),
        ("one `=` bound, no other bound", f"len(AggAnalytics({agg}).equal_variable_bound) == 1 and not AggAnalytics({agg}).bounds", ""),
        ("G1/G2 the aggregate value is the weight", f"Variable(LOC, AggAnalytics({agg}).equal_variable_bound[0]) == {stm}.weight", ""),
    ]
    for sig, cond, why in conds:
        ok = it.holds(site, cond)
        ck.add(sig, ok, func, site, f"dominated by `{short(cond, 110)}`: {ok}", why)
    c3 = f"sum(map(lambda x: x == hv, collect_ast({stm}, 'Variable'))) == 2"
    ok = it.holds(site, c3)
    ck.add("G3 the value occurs exactly twice (bound and weight)", ok, func, site, f"dominated by `{c3}`: {ok}", "")
    c4 = "not any(map(lambda x: potentially_unifying_sequence(x, replace_terms), [t for t in self.minimize_tuples if t != replace_terms]))"
    ok = it.holds(site, c4)
    ck.add("G4 no other objective tuple may unify", ok, func, site, f"dominated by `{short(c4, 120)}`: {ok}", "weak-constraint tuples are a set per priority")
    rt = single_def(func, "replace_terms")
    ck.add("compared tuple = [weight, priority] + terms", rt is not None and unparse(rt).replace(" ", "") == f"[{stm}.weight,{stm}.priority]+list({stm}.terms)", func, site, f"replace_terms = `{unparse(rt) if rt is not None else None}`", "")
    okk, n = every_iteration_reaches(ck, func, enclosing_loop(func, site), site, None)  # type: ignore[arg-type]
    ck.add("every element becomes a weak constraint", okk and n > 0, func, site, f"unconditional in the loop over the elements: {okk}", "")
    am = ck.func(f"{CLS}.analyze_minimize")
    ita = ck.interp(am)
    ap = attr_calls(am, "append")
    ck.need(len(ap) == 1, "objective tuples are collected at one site")
    s0 = unparse(enclosing_loop(am, ap[0]).target)  # type: ignore[union-attr]
    ck.guard("every Minimize tuple is collected", am, ap[0], f"{s0}.ast_type == ASTType.Minimize", "")
    ok2, n2 = every_iteration_reaches(ck, am, enclosing_loop(am, ap[0]), ap[0], Pins.of(vals={f"{s0}.ast_type": "ASTType.Minimize"}))  # type: ignore[arg-type]
    ck.add("no objective is skipped", ok2 and n2 > 0, am, ap[0], f"{ok2}", "")


def r_negative_use(ck: Checker) -> None:
    """A7: a negated use is unfolded only for a one-literal body that introduces no new variables"""
    func = ck.func(f"{CLS}.get_body_lit")
    it = ck.interp(func)
    stm, orig = func.params()[1], func.params()[2]
    rets = [r for r in returns_of(func) if r.value is not None and not is_const(r.value, None)]
    ck.need(len(rets) == 2, "get_body_lit returns the literal for a negative and for a positive use")
    for ret in rets:
        b = unparse(ret.value)  # type: ignore[arg-type]
        ck.guard("literal is an atom of the helper predicate", func, ret, f"Predicate({stm}.head.atom.symbol.name, len({stm}.head.atom.symbol.arguments)) == Predicate({b}.atom.symbol.name, len({b}.atom.symbol.arguments))", "")
        ck.guard("not a doubly negated use", func, ret, f"{b}.sign != Sign.DoubleNegation", "")
        if it.possible(ret, f"{b}.sign == Sign.Negation") and not it.possible(ret, f"{b}.sign == Sign.NoSign"):
            ck.guard("A7 negated use: helper body has a single literal", func, ret, f"not len({stm}.body) > 1", "`not h` for `h :- a, b` is `not a or not b`, not a literal")
            ck.guard("A7 negated use: no new variables", func, ret, f"global_vars_inside_head({stm}.head) == global_vars_inside_body({stm}.body)", "a body-only variable under negation is universally quantified")
            ck.guard("A7 negated use: the body literal is positive", func, ret, f"{stm}.body[0].sign == Sign.NoSign", "")


def r_transform_args(ck: Checker) -> None:
    # whatever inline_literal hands back went through transform_args: the helper's own variables are renamed away from
    # those of the using statement also when the head arguments are passed under their own names
    il = ck.func(f"{CLS}.inline_literal")
    itl = ck.interp(il)
    for r_, st_ in itl.returns:
        if r_.value is None:
            continue
        txt = itl.text(r_.value, st_)
        ck.add("every literal unfolded by inline_literal went through transform_args", "transform_args(" in txt, il, r_, f"`{short(unparse(r_), 60)}` = `{short(txt, 110)}`",
               "`total(A,S)` used with exactly the head's variable names: a fast path that returns the helper body as it is lets the local I of its aggregate be captured by a global I of the using rule")
    func = ck.func(f"{CLS}.transform_args")
    tr = ck.prg.funcs.get(func.qualname + ".<locals>.trans")
    ck.need(tr is not None, "transform_args renames through a local function")
    it = ck.interp(tr)  # type: ignore[arg-type]
    mk = resolved_calls(ck.prg, tr, "ngo.utils.globals:UniqueVariables.make_unique")  # type: ignore[arg-type]
    ck.need(len(mk) == 1, "unknown variables get a fresh name")
    v = tr.params()[0]  # type: ignore[union-attr]
    ck.guard("A5 only variables that are not head arguments are renamed fresh", tr, mk[0], f"{v} not in orig2passed", "")  # type: ignore[arg-type]
    d = single_def(func, "orig2passed")
    ck.add("head arguments are replaced by the passed arguments position-wise", d is not None and unparse(d).replace(" ", "") == f"dict(zip({func.params()[0]},{func.params()[1]}))", func, func.node, f"orig2passed = `{unparse(d) if d is not None else None}`", "")
    # EVERY node handed in goes through the renaming (variables of the helper that are not head arguments must be renamed
    # away from the variables of the using statement, also when the head arguments happen to be passed under their own names)
    rets_t = [r for r in returns_of(func) if r.value is not None]
    ck.need(len(rets_t) >= 1, "transform_args returns the transformed list")
    asts_p = func.params()[2]
    for r in rets_t:
        d_r = single_def(func, unparse(r.value)) if isinstance(r.value, ast.Name) else r.value
        okr = d_r is not None and same(unparse(d_r), f"[transform_ast(x, 'Variable', trans) for x in {asts_p}]")
        ck.add("every answer of transform_args is the list with ALL nodes renamed", okr, func, r, f"`{short(unparse(r), 60)}` = `{short(unparse(d_r), 90) if d_r is not None else None}`",
               "returning the nodes as they are when the use site passes exactly the head variables leaves the helper's other variables un-renamed: a local of the helper is captured by a global variable of the user")
    # one renaming per unfolded element: everything that comes from the helper rule and shares its variables (tuple,
    # condition, rest of the helper body) goes through ONE transform_args call, which keeps one rename map
    cb = ck.func(f"{CLS}.compute_new_body_elements")
    calls = resolved_calls(ck.prg, cb, f"ngo.{CLS}.transform_args")
    in_loop = [c for c in calls if enclosing_loop(cb, c) is not None]
    lp = enclosing_loop(cb, in_loop[0]) if in_loop else None
    ck.need(len(in_loop) >= 1 and lp is not None and isinstance(lp.target, ast.Name), "compute_new_body_elements renames per aggregate element")
    e = lp.target.id  # type: ignore[union-attr]

    def parts(x: ast.expr) -> list[str]:
        if isinstance(x, ast.BinOp) and isinstance(x.op, ast.Add):
            return parts(x.left) + parts(x.right)
        if isinstance(x, ast.Call) and isinstance(x.func, ast.Name) and x.func.id == "list" and len(x.args) == 1:
            return [unparse(x.args[0])]
        if isinstance(x, (ast.List, ast.Tuple)) and all(isinstance(y, ast.Starred) for y in x.elts):
            return [unparse(y.value) for y in x.elts]  # type: ignore[attr-defined]
        return [unparse(x)]

    itb = ck.interp(cb)
    call0 = in_loop[0]
    got = [parts(itb.expand(call0.args[2], st)) for st in itb.states(call0)] if len(call0.args) >= 3 else []
    rb = single_def(cb, "rbody")
    want = {f"{e}.terms", f"{e}.condition"}
    ok = len(calls) == 1 and bool(got) and all(want <= set(g) and len(g) == 3 for g in got) and rb is not None
    ck.add("tuple, condition and the rest of the helper's body are renamed together in one call per element", ok, cb, call0, f"{len(calls)} transform_args call(s); renamed lists {got[:1]}",
           "each transform_args call keeps its own map from helper variables to fresh names: a variable shared between the helper's body and the aggregate element gets two names if they are renamed apart, and the join is lost")


def r_fresh_dependency(ck: Checker) -> None:
    """the dependency index that decides 'single definition, single use' describes the program that is being scanned
    (every unfolding changes who uses what: the index of the previous round is about statements that no longer exist)"""
    n = 0
    for func in ck.prg.funcs.values():
        if not func.qualname.startswith(f"ngo.{CLS}.") or isinstance(func.node, ast.Lambda):
            continue
        calls = resolved_calls(ck.prg, func, f"ngo.{CLS}.is_single")
        if not calls:
            continue
        it = ck.interp(func)
        for c in calls:
            n += 1
            loop = enclosing_loop(func, c)
            scanned = unparse(loop.iter) if loop is not None else None
            got = it.texts(c, c.args[1]) if len(c.args) >= 2 else set()
            ok = scanned is not None and scanned in func.params() and got == {f"RuleDependency({scanned})"}
            ck.add(f"{func.name}: is_single consults the dependencies of the program it scans", ok, func, c, f"scans `{scanned}`, dependencies are {sorted(got)}",
                   "after the first unfolding the old index still returns the pre-rewrite user statement: no statement of the current program equals it, the helper's rule is removed and the rewritten user refers to an atom nobody defines")
    ck.need(n >= 2, f"is_single call sites found ({n})")


RULES = [
    Rule("C15.fresh-dependency", P, r_fresh_dependency),
    Rule("C15.A.is-single", P, r_is_single),
    Rule("C15.A.anonymous-use", P, r_anonymous_use),
    Rule("C15.uses", P, r_rule_dependency, extra={**{p_: ("every defining",) for p_ in ("C12", "C13", "C09", "C06", "C02", "C07")}, "C07": ("the single user is a rule or an objective", "every defining")}),
    Rule("C15.TABLE.good", PG, r_good_table),
    Rule("C15.G6.padding", PG + ("C15",), r_padding),
    Rule("C15.G.inline-minimize", PG, r_inline_minimize),
    Rule("C15.A7.negative-use", P, r_negative_use),
    Rule("C15.A5.transform-args", P + ("C07",), r_transform_args),
]
