"""C17 — optimize is pure: reproducible, history independent, leaves its argument alone (DESIGN §4 C17)."""

from __future__ import annotations

import ast
import re
from typing import Optional

from ..core import Checker, Rule, moved_lookup, attr_calls, callee_is, calls_in, kwarg, resolved_calls, short
from ..grammar import schema
from ..interp import MUTATORS, Pins, find_nodes, unparse
from ..model import AnalysisError, Func
from .util import ancestors, enclosing_loop, enclosing_stmt, every_iteration_reaches, fmt, is_const, parent, parents, returns_of, single_def

P = ("C17",)

# ------------------------------------------------------------------------------------------------ ORDER
SANITIZERS = {"sorted", "set", "frozenset", "len", "any", "all", "sum", "min", "max", "bool", "Counter", "ordered", "isinstance"}
STORING = {"append", "add", "insert", "setdefault", "__setitem__"}
TRANSPARENT = {"map", "filter", "chain", "enumerate", "zip", "iter", "reversed", "list", "tuple", "from_iterable", "next"}
STABLE_ELEMS = ("builtins.int", "builtins.bool", "clingo.ast.Sign", "clingo.ast.ComparisonOperator", "clingo.ast.ASTType")
COMMUTATIVE_METHODS = {"add", "update", "discard", "remove", "intersection_update", "difference_update", "setdefault", "info", "debug", "warning", "add_edge", "add_edges_from", "add_node"}
ORDER_SENSITIVE_CALLS = {"make_unique", "new_auxpredicate", "new_predicate", "append", "extend", "insert", "pop"}

# sites that are order-sensitive by shape but harmless: (function, iterable text) -> reason (DESIGN §4 C17)
TRIAGE = {
    ("sum_aggregates:SumAggregator._calc_at_most", "global_preds"): "every predicate contributes at most one AnnotatedPredicate (len(preds) == 1 per defining rule); consumers (_get_trigger) look an entry up by predicate, so the first match is the only match",
    ("minmax_aggregates:MinMaxAggregator._simple_translation", "lvars"): "make_unique is called once per distinct variable; two variables only compete for a fresh name if ten numbered homonyms of one are taken (stated assumption)",
    ("unused:UnusedTranslator.Mapper.__init__", "vars_"): "make_unique is called once per distinct variable; two variables only compete for a fresh name if ten numbered homonyms of one are taken (stated assumption)",
    ("math_simplification:Goebner.combine", "common"): "the loop subtracts terms from both relations; sympy's Add is canonical, so the result does not depend on the order of subtraction",
    ("inline:InlineTranslator.is_connected_to_agregates", "globals_.intersection(set(collect_ast(atom, 'Variable')))"): "the variables only become nodes of a helper graph whose connected components are inspected existentially (`return True` if some component qualifies)",
    ("literal_duplication:LiteralCollector._filter_occurences", "vars_"): "the pairs only become edges of a helper graph; only the NUMBER and SIZE of its connected components is used",
    ("utils.globals:auto_detect_input", "all_preds"): "the order of the returned list is irrelevant: input predicates are only used through membership tests and set() (rule C17.FLOW.predicate-lists)",
    ("math_simplification:Goebner.simplify_equalities", "unbound"): "only builds the text of an exception message that is logged",
}


def _is_unordered(typ: Optional[str]) -> bool:
    if not typ:
        return False
    m = re.match(r"(builtins\.set|builtins\.frozenset|typing\.AbstractSet|typing\.Set|typing\.FrozenSet)\[(.*)\]$", typ)
    if not m:
        return False
    elem = m.group(2)
    return not any(elem.startswith(s) for s in STABLE_ELEMS)


_ITER_LOCAL: dict[int, set[str]] = {}


def _commutative_body(func: Func, loop: ast.AST, body: list[ast.stmt], target_names: set[str]) -> Optional[str]:
    """None if every statement of the loop body is insensitive to the iteration order, else the offending statement"""
    end = getattr(loop, "end_lineno", 0)
    later_reads = {n.id for n in ast.walk(func.node) if isinstance(n, ast.Name) and isinstance(n.ctx, ast.Load) and getattr(n, "lineno", 0) > end}
    fresh_here = {t.id for s in body if isinstance(s, (ast.Assign, ast.AnnAssign)) for t in (s.targets if isinstance(s, ast.Assign) else [s.target]) if isinstance(t, ast.Name)}
    for stmt in body:
        if isinstance(stmt, (ast.Pass, ast.Continue, ast.Break, ast.Raise, ast.Assert)):
            continue
        if isinstance(stmt, ast.Return):
            if stmt.value is None or isinstance(stmt.value, ast.Constant):
                continue
            return unparse(stmt)
        if isinstance(stmt, ast.Expr) and isinstance(stmt.value, ast.Call):
            call = stmt.value
            if isinstance(call.func, ast.Attribute):
                if call.func.attr in COMMUTATIVE_METHODS:
                    if any(isinstance(n, ast.Call) and isinstance(n.func, ast.Attribute) and n.func.attr in ("make_unique", "new_auxpredicate", "new_predicate") for a in call.args for n in ast.walk(a)):
                        return unparse(stmt)
                    continue
                if call.func.attr == "append" and isinstance(call.func.value, ast.Subscript) and {n.id for n in ast.walk(call.func.value.slice) if isinstance(n, ast.Name)} & target_names:
                    continue  # d[element].append(...)
                if call.func.attr in ("append", "extend") and isinstance(call.func.value, ast.Name):
                    acc = call.func.value.id
                    if acc in fresh_here or acc in target_names or acc in _ITER_LOCAL.get(id(loop), set()):
                        continue  # an accumulator that is created anew inside the iteration: its order is the order of an inner, ordered loop
                    uses = [n for n in ast.walk(func.node) if isinstance(n, ast.Name) and n.id == acc and isinstance(n.ctx, ast.Load) and n is not call.func.value]
                    par = parents(func)
                    if uses and all(isinstance(par.get(id(u)), ast.Compare) and isinstance(par[id(u)].ops[0], (ast.In, ast.NotIn)) and par[id(u)].comparators[0] is u for u in uses):  # type: ignore[attr-defined]
                        continue  # the list is only used in membership tests: its order is irrelevant
            return unparse(stmt)
        if isinstance(stmt, (ast.Assign, ast.AnnAssign, ast.AugAssign)):
            targets = stmt.targets if isinstance(stmt, ast.Assign) else [stmt.target]
            value = stmt.value
            if value is not None and any(isinstance(n, ast.Call) and isinstance(n.func, ast.Attribute) and n.func.attr in ("make_unique", "new_auxpredicate", "new_predicate") for n in ast.walk(value)):
                return unparse(stmt)
            for t in targets:
                if isinstance(t, ast.Name):
                    if t.id in later_reads and not isinstance(value, ast.Constant):
                        return unparse(stmt)
                elif isinstance(t, ast.Subscript):
                    if not ({n.id for n in ast.walk(t.slice) if isinstance(n, ast.Name)} & target_names):
                        return unparse(stmt)
                else:
                    return unparse(stmt)
            continue
        if isinstance(stmt, ast.If):
            for part in (stmt.body, stmt.orelse):
                bad = _commutative_body(func, loop, part, target_names)
                if bad:
                    return bad
            continue
        if isinstance(stmt, ast.With) and getattr(stmt, "ngosa_inline", None):
            bad = _commutative_body(func, loop, [s for s in stmt.body if not isinstance(s, ast.Return)], target_names)
            if bad:
                return bad
            continue
        if isinstance(stmt, (ast.For, ast.While)):
            inner_targets = target_names | ({n.id for n in ast.walk(stmt.target) if isinstance(n, ast.Name)} if isinstance(stmt, ast.For) else set())
            _ITER_LOCAL.setdefault(id(loop), set()).update(fresh_here)
            bad = _commutative_body(func, loop, stmt.body + stmt.orelse, inner_targets)
            if bad:
                return bad
            continue
        return unparse(stmt)
    return None


def r_order(ck: Checker) -> None:
    """no iteration over a hash-ordered container may reach an order-sensitive sink"""
    from ..mypy_bridge import build

    ti = build(ck.prg.src)
    n_sites = 0
    for func in ck.prg.funcs.values():
        mod = func.module
        par = parents(func)
        for node in find_nodes(func.node, lambda n: isinstance(n, ast.expr)):
            if not _is_unordered(ti.type_at(mod.name, node)):
                continue
            up = par.get(id(node))
            # climb through order-preserving wrappers
            cur: ast.AST = node
            context = None
            verdict = None
            while up is not None:
                if isinstance(up, ast.Call):
                    fname = up.func.id if isinstance(up.func, ast.Name) else (up.func.attr if isinstance(up.func, ast.Attribute) else "")
                    if cur is up.func or (isinstance(up.func, ast.Attribute) and cur is up.func.value):
                        if isinstance(up.func, ast.Attribute) and cur is up.func.value and up.func.attr == "pop" and not up.args:
                            context, verdict = "pop()", None
                        break  # receiver of a method: set algebra / membership helpers
                    if fname in SANITIZERS or fname in ("union", "intersection", "difference", "issubset", "issuperset", "isdisjoint", "update", "intersection_update", "difference_update", "symmetric_difference"):
                        context, verdict = f"{fname}(...)", "sanitized"
                        break
                    if fname == "cast":
                        context = None  # type-only wrapper: the value is still the set; look at what happens to the cast
                        cur, up = up, par.get(id(up))
                        continue
                    if fname in TRANSPARENT or fname == "partial":
                        cur, up = up, par.get(id(up))
                        context = f"{fname}(...)"
                        continue
                    if fname in ("join", "extend"):
                        context = f".{fname}(...)"
                        break
                    if fname in STORING:
                        if cur is node:
                            context = None  # the set object itself is stored, not iterated
                        else:
                            context = f"{context} stored by .{fname}()"  # an element picked in iteration order is stored
                        break
                    callee = ck.prg.resolve_callee(func, up.func) if not (isinstance(up.func, ast.Name) and up.func.id in _assigned_names(func) and not ck.prg.resolve_callee(func, up.func)) else None
                    tgt = ck.prg.funcs.get(callee or "") or ck.prg.funcs.get(f"{callee}.__init__")
                    ann = None
                    if tgt is not None and not isinstance(tgt.node, ast.Lambda):
                        params = tgt.node.args.posonlyargs + tgt.node.args.args  # type: ignore[attr-defined]
                        if params and params[0].arg in ("self", "cls") and (isinstance(up.func, ast.Attribute) or callee in ck.prg.classes):
                            params = params[1:]
                        idx = up.args.index(cur) if cur in up.args else None
                        kwn = [kw.arg for kw in up.keywords if kw.value is cur]
                        if idx is not None and idx < len(params):
                            ann = params[idx].annotation
                        elif kwn:
                            ann = next((p.annotation for p in params + tgt.node.args.kwonlyargs if p.arg == kwn[0]), None)  # type: ignore[attr-defined]
                    anntxt = unparse(ann) if ann is not None else ""
                    if re.match(r"(Optional\[)?(set|Set|frozenset|FrozenSet|AbstractSet|Collection|Container|SignSetType)\b", anntxt):
                        context = None  # the callee receives it as a set: its own iterations are analysed there
                        break
                    context = f"argument of {fname or 'call'}" + (f" (parameter : {anntxt})" if anntxt else "")
                    break
                if isinstance(up, ast.Starred):
                    cur, up = up, par.get(id(up))
                    context = "*unpacking"
                    continue
                if isinstance(up, ast.comprehension) and cur is up.iter:
                    comp = par.get(id(up))
                    if isinstance(comp, ast.SetComp):
                        context, verdict = "set comprehension", "sanitized"
                        break
                    context = "comprehension"
                    cur, up = comp, par.get(id(comp))  # type: ignore[assignment]
                    continue
                if isinstance(up, ast.For) and cur is up.iter:
                    context = "for"
                    break
                if isinstance(up, ast.Subscript) and cur is up.value and context in ("list(...)", "tuple(...)", "sorted(...)"):
                    context = context + "[i]"
                    break
                if context is not None and isinstance(up, (ast.Assign, ast.AnnAssign, ast.Return, ast.keyword, ast.Expr, ast.Subscript, ast.Compare, ast.BinOp, ast.Attribute, ast.List, ast.Tuple, ast.JoinedStr, ast.FormattedValue, ast.IfExp, ast.Dict, ast.DictComp, ast.ListComp, ast.GeneratorExp)):
                    break
                if context is None:
                    break
                cur, up = up, par.get(id(up))
            if context is None:
                continue
            n_sites += 1
            text = unparse(node)
            key = (func.short, text)
            sig = f"{text} in {context}"
            if verdict == "sanitized":
                ck.add(sig, True, func, node, f"iteration over hash-ordered `{short(text, 60)}` is consumed by {context}", "", nontrivial=False, rule="C17.ORDER")
                continue
            # singleton
            it = ck.interp(func)
            stmt = enclosing_stmt(func, node)
            single = it.reachable(stmt) and (it.holds(stmt, f"len({text}) == 1") or it.holds(stmt, f"not len({text}) != 1"))
            if single:
                ck.add(sig, True, func, node, f"`{short(text, 60)}` has exactly one element here (dominating len(...) == 1)", "", rule="C17.ORDER")
                continue
            # membership-only consumers of a list built from the iteration
            up2 = par.get(id(cur))
            if isinstance(up, (ast.Assign, ast.AnnAssign)) or isinstance(up2, (ast.Assign, ast.AnnAssign)):
                asg = up if isinstance(up, (ast.Assign, ast.AnnAssign)) else up2
                tgt = asg.targets[0] if isinstance(asg, ast.Assign) else asg.target  # type: ignore[union-attr]
                if isinstance(tgt, ast.Name):
                    uses = [n for n in ast.walk(func.node) if isinstance(n, ast.Name) and n.id == tgt.id and isinstance(n.ctx, ast.Load)]
                    only_in = uses and all(isinstance(par.get(id(u)), ast.Compare) and isinstance(par[id(u)].ops[0], (ast.In, ast.NotIn)) and par[id(u)].comparators[0] is u for u in uses)  # type: ignore[attr-defined]
                    if only_in:
                        ck.add(sig, True, func, node, f"the sequence built from `{short(text, 50)}` (`{tgt.id}`) is only used in membership tests", "", rule="C17.ORDER")
                        continue
            if isinstance(up, ast.For) and context == "for":
                targets = {n.id for n in ast.walk(up.target) if isinstance(n, ast.Name)}
                bad = _commutative_body(func, up, up.body + up.orelse, targets)
                if bad is None:
                    ck.add(sig, True, func, node, f"loop over hash-ordered `{short(text, 60)}`: every statement of the body is order-insensitive (set/dict updates keyed by the element, list.remove, constant returns)", "", rule="C17.ORDER")
                    continue
                detail = f"loop over hash-ordered `{short(text, 60)}` executes order-sensitive `{short(bad, 70)}`"
            else:
                detail = f"hash-ordered `{short(text, 60)}` is turned into a sequence by {context} and flows on"
            tri = moved_lookup(TRIAGE, key[0], key[1], {f.short for f in ck.prg.funcs.values()})
            if tri is not None:
                ck.add(sig, True, func, node, detail + f" - triaged: {tri}", "", rule="C17.ORDER")
                continue
            ck.add(sig, False, func, node, detail,
                   "hash(AST) is address based and hash(str) seed based: the iteration order of this container differs between processes, so anything emitted in that order (argument lists, rule order, generated names) makes the output irreproducible",
                   rule="C17.ORDER")
    ck.notes["C17.order.sites"] = n_sites
    if n_sites < 15:
        raise AnalysisError(f"C17.ORDER: only {n_sites} hash-ordered iteration sites found (floor 15): type information incomplete")


# ------------------------------------------------------------------------------------------------ OWN
SEQ_FIELDS = {"body", "elements", "condition", "terms", "arguments", "guards", "parameters", "operators", "atoms"}
REBUILT_ROLES = {"body", "elements", "condition"}


def _ast_seq_receiver(it, st, expr: ast.expr) -> Optional[str]:  # type: ignore[no-untyped-def]
    """if expr denotes a live AST child sequence (attribute chain ending in a sequence field, not copied), its text"""
    node = it.expand(expr, st)
    if isinstance(node, ast.Attribute) and node.attr in SEQ_FIELDS:
        base = node.value
        while isinstance(base, (ast.Attribute, ast.Subscript)):
            base = base.value
        if isinstance(base, ast.Name) and base.id not in ("self",):
            return unparse(node)
        if isinstance(base, ast.Call):
            return unparse(node)
    return None


def _is_rule_or_objective(ck: Checker, func: Func, node: ast.AST, owner: str, depth: int) -> tuple[bool, str]:
    """`owner.ast_type in (Rule, Minimize)` holds at node, or - owner being a parameter - at every call site"""
    from .c03 import _bind, _call_sites

    it = ck.interp(func)
    cond = f"{owner}.ast_type in (ASTType.Rule, ASTType.Minimize)"
    if it.holds(node, cond) and it.reachable(node):
        return True, f"holds in {func.name}"
    if depth >= 3 or owner not in func.params():
        return False, ""
    sites = _call_sites(ck, func)
    if not sites:
        return False, ""
    for caller, call in sites:
        mapping = _bind(func, call)
        if mapping is None or owner not in mapping:
            return False, ""
        arg = mapping[owner]
        itc = ck.interp(caller)
        ok = False
        for txt in itc.texts(call, arg) | {unparse(arg)}:
            try:
                ok = ok or (itc.holds(call, f"{txt}.ast_type in (ASTType.Rule, ASTType.Minimize)") and itc.reachable(call))
            except SyntaxError:
                pass
        if not ok and isinstance(arg, ast.Name):
            ok, _ = _is_rule_or_objective(ck, caller, call, arg.id, depth + 1)
        if not ok:
            return False, ""
    return True, f"holds at all {len(sites)} call site(s) of {func.name}"


def _before_rebuild(ck: Checker) -> set[str]:
    """qualnames of the functions that run on the caller's own statements: everything normalize() calls up to and including
    expand_comparisons (the step that gives rules and objectives their new vectors), with all their callees"""
    norm = ck.func("normalize:normalize")
    ec_calls = resolved_calls(ck.prg, norm, "ngo.normalize:expand_comparisons")
    ck.need(len(ec_calls) == 1, "normalize() rebuilds the statements with expand_comparisons at one site")
    limit = ec_calls[0].lineno
    zone: set[str] = set()
    work = []
    for call in find_nodes(norm.node, lambda n: isinstance(n, ast.Call)):
        res = ck.prg.resolve_callee(norm, call.func)  # type: ignore[attr-defined]
        if res in ck.prg.funcs and call.lineno <= limit:  # type: ignore[attr-defined]
            work.append(res)
    while work:
        q = work.pop()
        if q in zone:
            continue
        zone.add(q)
        fn = ck.prg.funcs[q]
        for q2 in ck.prg.funcs:
            if q2.startswith(q + ".<locals>.") and q2 not in zone:
                work.append(q2)
        for call in find_nodes(fn.node, lambda n: isinstance(n, ast.Call)):
            res = ck.prg.resolve_callee(fn, call.func)  # type: ignore[attr-defined]
            if res in ck.prg.funcs and res not in zone:
                work.append(res)
            elif res in ck.prg.classes and f"{res}.__init__" in ck.prg.funcs:
                work.append(f"{res}.__init__")
    return zone


def r_own(ck: Checker) -> None:
    """in-place edits of AST child vectors: only vectors that preprocess() has rebuilt (never the caller's)"""
    sites = 0
    zone = _before_rebuild(ck)
    ck.need(len(zone) >= 8, "functions that run before the statements are rebuilt")
    ck.notes["C17.own.before-rebuild"] = len(zone)
    for func in ck.prg.funcs.values():
        if isinstance(func.node, ast.Lambda):
            continue
        cands: list[tuple[ast.AST, ast.expr, str]] = []
        for node in find_nodes(func.node, lambda n: isinstance(n, (ast.Call, ast.Assign, ast.AugAssign, ast.Delete))):
            if isinstance(node, ast.Call) and isinstance(node.func, ast.Attribute) and node.func.attr in (MUTATORS - {"update", "add", "discard", "setdefault", "popitem", "intersection_update", "difference_update"}):
                cands.append((node, node.func.value, f".{node.func.attr}()"))
            elif isinstance(node, ast.Assign):
                for t in node.targets:
                    if isinstance(t, ast.Subscript):
                        cands.append((node, t.value, "[i] = ..."))
                    elif isinstance(t, ast.Attribute) and t.attr in SEQ_FIELDS | {"atom", "literal", "symbol", "head", "sign", "name", "left_guard", "right_guard", "function", "weight", "priority", "term"} and not (isinstance(t.value, ast.Name) and t.value.id == "self"):
                        cands.append((node, t, "attribute store"))
            elif isinstance(node, ast.AugAssign) and isinstance(node.target, (ast.Subscript, ast.Attribute)):
                cands.append((node, node.target.value if isinstance(node.target, ast.Subscript) else node.target, "augmented store"))
            elif isinstance(node, ast.AugAssign) and isinstance(node.target, ast.Name) and isinstance(node.op, (ast.Add, ast.Mult)):
                # `v = node.condition; v += more` extends the list v names, in place
                cands.append((node, ast.copy_location(ast.Name(node.target.id, ast.Load()), node.target), "`+=` on a name"))
            elif isinstance(node, ast.Delete):
                for t in node.targets:
                    if isinstance(t, ast.Subscript):
                        cands.append((node, t.value, "del [i]"))
        if not cands:
            continue
        it = ck.interp(func)
        for node, recv, how in cands:
            texts = set()
            for st in it.states(node):
                if how == "attribute store":
                    tx = unparse(it.expand(recv.value, st))  # type: ignore[attr-defined]
                    roots = {n.id for n in ast.walk(ast.parse(tx, mode="eval")) if isinstance(n, ast.Name)}
                    if "self" in roots or tx in ("args", "namespace"):
                        continue
                    texts.add(f"{tx}.{recv.attr}")  # type: ignore[attr-defined]
                    continue
                t = _ast_seq_receiver(it, st, recv)
                if t:
                    texts.add(t)
            if not texts:
                continue
            sites += 1
            for t in sorted(texts):
                role = t.rsplit(".", 1)[-1]
                if func.qualname in zone:
                    ck.add(f"{how} on <node>.{role} before the statements are rebuilt", False, func, node, f"`{fmt(node)}` edits the live child vector `{short(t, 70)}` in place; {func.name} runs in normalize() before/while expand_comparisons rebuilds the statements",
                           "up to that point `stm` is still the AST object the caller passed to optimize: `stm.body` is a live view of it, the caller's statement is rewritten", rule="C17.OWN.edit")
                    continue
                ok = role in REBUILT_ROLES and how != "attribute store"
                ck.add(f"{how} on <node>.{role}", ok, func, node, f"`{fmt(node)}` edits the live child vector `{short(t, 70)}` in place",
                       "AST.update()/constructors share child nodes: an in-place edit of a vector that preprocess() did not rebuild writes into the statements the caller passed to optimize (or into statements shared between rounds)",
                       rule="C17.OWN.edit")
                if role == "body" and ok:
                    owner = t.rsplit(".", 1)[0]
                    held, how_held = _is_rule_or_objective(ck, func, node, owner, 0)
                    ck.add("the body edited in place belongs to a rule or an objective", held, func, node, f"`{owner}.ast_type in (Rule, Minimize)` " + (how_held if held else "is not established here nor at the call sites"),
                           "preprocess() rebuilds the body vector of rules and objectives only: the body of an #external / #edge / #heuristic / #project statement is still the caller's (unpool() copies shallowly)", rule="C17.OWN.edit")
    # a sequence that came in as a parameter and is edited in place: no call site may pass a child vector of an AST node
    # that preprocess() did not rebuild (arguments, terms, guards, ...)
    from .c03 import _bind, _call_sites

    psites = 0
    for func in ck.prg.funcs.values():
        if isinstance(func.node, ast.Lambda):
            continue
        params = [x for x in func.params() if x not in ("self", "cls")]
        if not params:
            continue
        rebound = {n.id for n in ast.walk(func.node) if isinstance(n, ast.Name) and isinstance(n.ctx, ast.Store)}
        for node in find_nodes(func.node, lambda n: isinstance(n, (ast.Call, ast.Assign, ast.AugAssign, ast.Delete))):
            recv = None
            if isinstance(node, ast.Call) and isinstance(node.func, ast.Attribute) and node.func.attr in (MUTATORS - {"update", "add", "discard", "setdefault", "popitem", "intersection_update", "difference_update"}):
                recv = node.func.value
            elif isinstance(node, (ast.Assign, ast.AugAssign)):
                tg = node.targets[0] if isinstance(node, ast.Assign) else node.target
                recv = tg.value if isinstance(tg, ast.Subscript) else None
            elif isinstance(node, ast.Delete) and isinstance(node.targets[0], ast.Subscript):
                recv = node.targets[0].value
            if not (isinstance(recv, ast.Name) and recv.id in params and recv.id not in rebound):
                continue
            callers = _call_sites(ck, func)
            last = func.name.rsplit(".", 1)[-1]
            if not callers and func.params()[:1] == ["self"] and sum(1 for f2 in ck.prg.funcs.values() if f2.name.rsplit(".", 1)[-1] == last and f2.params()[:1] == ["self"]) == 1:
                # a method reached through a container (`mapping[p].convert(..)`): the name is unique in the package
                callers = [(f2, c) for f2 in ck.prg.funcs.values() if not isinstance(f2.node, ast.Lambda)
                           for c in find_nodes(f2.node, lambda n: isinstance(n, ast.Call) and isinstance(n.func, ast.Attribute) and n.func.attr == last and ck.prg.resolve_callee(f2, n.func) is None)]  # type: ignore[misc]
            if not callers:
                continue
            psites += 1
            bad = []
            for caller, call in callers:
                mapping = _bind(func, call)
                if mapping is None or recv.id not in mapping:
                    continue
                itc = ck.interp(caller)
                for txt in itc.texts(call, mapping[recv.id]) | {unparse(mapping[recv.id])}:
                    m = re.fullmatch(r"(.+)\.(\w+)", txt)
                    if m and m.group(2) in SEQ_FIELDS - REBUILT_ROLES and not m.group(1).startswith("self"):
                        bad.append(f"{caller.name}: `{short(txt, 50)}`")
            ck.add(f"parameter `{recv.id}` of {func.name} is edited in place: no caller passes a live AST child vector", not bad, func, node, f"`{fmt(node)}`; AST vectors passed: {sorted(set(bad))}",
                   "writing into `atom.symbol.arguments` of a statement edits the statement the caller of optimize passed in (and statements shared between rounds)", rule="C17.OWN.edit")
    ck.notes["C17.own.param-sites"] = psites
    early = [o for o in ck.obs if o.rule == "C17.OWN.edit" and "before the statements are rebuilt" in o.sig and not o.ok]
    ck.add("no function that runs before the statements are rebuilt edits an AST vector in place", not early, "normalize:normalize", None, f"{len(zone)} functions run on the caller's own statements (normalize() up to expand_comparisons and their callees); in-place edits among them: {len(early)}", "", rule="C17.OWN.edit")
    ck.notes["C17.own.sites"] = sites
    ck.need(sites >= 5, f"in-place AST edit sites found ({sites}) - the matcher is expected to see at least the known ones")
    # preprocess rebuilds exactly those vectors, unconditionally
    ec = ck.func("normalize:expand_comparisons")
    it = ck.interp(ec)
    stm = ec.params()[0]
    pins = Pins.of(vals={f"{stm}.ast_type": ["ASTType.Rule", "ASTType.Minimize"]})
    itp = ck.interp(ec, pins)
    rets = {unparse(itp.expand(r.value, s)).replace(" ", "") for r, s in itp.returns}  # type: ignore[arg-type]
    fresh_body = True
    for r, s in itp.returns:
        v = itp.expand(r.value, s) if r.value is not None else None
        fresh_body = fresh_body and isinstance(v, ast.Call) and isinstance(v.func, ast.Attribute) and v.func.attr == "update" and unparse(v.func.value) == stm and not v.args \
            and any(kw.arg == "body" and unparse(kw.value).replace(" ", "") == f"normalize_operators({stm}.body)" for kw in v.keywords)
    ck.add("preprocess gives every rule/objective a new body vector", fresh_body and bool(rets), ec, ec.node, f"for Rule/Minimize returns {sorted(rets)}",
           "passes edit statement bodies in place (unused, minmax, sum); returning the statement itself for 'nothing to do' would make those edits hit the caller's statement")
    no = ck.func("normalize:normalize_operators")
    ito = ck.interp(no)
    lit = None
    loops = [n for n in find_nodes(no.node, lambda n: isinstance(n, ast.For)) if enclosing_loop(no, n) is None]
    ck.need(len(loops) == 1, "normalize_operators loops over the literals")
    lit = unparse(loops[0].target)  # type: ignore[attr-defined]
    pins = Pins.of(vals={f"{lit}.ast_type": "ASTType.Literal", f"{lit}.atom.ast_type": "ASTType.BodyAggregate"})
    itb = ck.interp(no, pins)
    apps = [c for c in attr_calls(no, "append") if itb.reachable(c) and unparse(c.func.value) != "new_elements"]  # type: ignore[attr-defined]
    got = set()
    for c in apps:
        for s in itb.states(c):
            got.add(unparse(itb.expand(c.args[0], s)).replace(" ", ""))
    want = f"{lit}.update(atom={lit}.atom.update(elements=new_elements))"
    ck.add("preprocess gives every body aggregate a new element vector", got == {want}, no, loops[0], f"for a body aggregate appends {sorted(got)}; required {want} on every path",
           "cleanup and sum_chains edit aggregate elements/conditions in place; rebuilding only 'if something changed' leaves the caller's aggregate shared")
    ne = [c for c in attr_calls(no, "append") if unparse(c.func.value) == "new_elements"]  # type: ignore[attr-defined]
    ok = len(ne) == 1 and re.fullmatch(r"(\w+)\.update\(condition=_normalize_operators_condition\(\1\.condition\)\)", unparse(ne[0].args[0]).replace(" ", "")) is not None
    okk, n = every_iteration_reaches(ck, no, enclosing_loop(no, ne[0]), ne[0], None) if ne else (False, 0)  # type: ignore[arg-type]
    ck.add("... and every element a new condition vector", ok and okk and n > 0, no, ne[0] if ne else no.node, f"`{fmt(ne[0]) if ne else None}` for every element: {okk}", "")
    pins = Pins.of(vals={f"{lit}.ast_type": "ASTType.ConditionalLiteral"})
    itc = ck.interp(no, pins)
    got = {unparse(itc.expand(c.args[0], s)).replace(" ", "") for c in attr_calls(no, "append") for s in itc.states(c)}
    ck.add("... and every conditional literal a new condition vector", got == {f"{lit}.update(condition=_normalize_operators_condition({lit}.condition))"}, no, loops[0], f"appends {sorted(got)}", "")
    noc = ck.func("normalize:_normalize_operators_condition")
    rr = returns_of(noc)
    d = single_def(noc, unparse(rr[0].value)) if rr and isinstance(rr[0].value, ast.Name) else None
    ck.add("the condition vector is a fresh list", d is not None and unparse(d) == "[]", noc, noc.node, f"returns `{fmt(rr[0]) if rr else None}` initialised with `{unparse(d) if d is not None else None}`", "")
    api = ck.func("api:optimize")
    ita = ck.interp(api)
    pre = resolved_calls(ck.prg, api, "ngo.normalize:preprocess")
    ck.add("every pass works on preprocess(prg), never on prg itself", len(pre) == 1 and unparse(pre[0].args[0]) == api.params()[0] and not [n for n in find_nodes(api.node, lambda n: isinstance(n, ast.Name) and n.id == api.params()[0] and isinstance(n.ctx, ast.Load)) if n is not pre[0].args[0]],
           api, pre[0] if pre else api.node, f"`{fmt(pre[0]) if pre else None}` is the only use of the argument", "")
    dc = resolved_calls(ck.prg, api, "copy.deepcopy")
    ok = len(dc) == 1 and enclosing_loop(api, dc[0]) is not None
    ck.add("the fixpoint test compares with a deep copy taken before the round", ok, api, dc[0] if dc else api.node, f"`{fmt(dc[0]) if dc else None}` inside the loop: {ok}", "in-place edits would otherwise also change `old`")


# ------------------------------------------------------------------------------------------------ STATE
IMMUTABLE_CTORS = {"Variable", "Location", "Position", "frozenset", "NamedTuple", "TypeVar", "getLogger", "tuple", "version", "Symbol", "Function", "SymbolicTerm"}


def r_state(ck: Checker) -> None:
    """no process-wide writable state: globals, class attributes, caches, mutable defaults"""
    n = 0
    for mod in ck.prg.modules.values():
        for node in ast.walk(mod.tree):
            if isinstance(node, (ast.Global, ast.Nonlocal)):
                func = ck.prg.enclosing_func(mod, node)
                if isinstance(node, ast.Global):
                    ck.add(f"global {','.join(node.names)}", False, func or mod.name, node, f"`{unparse(node)}`", "module-level state written by a function survives between optimize calls: the result depends on the call history", rule="C17.STATE.global")
                else:
                    # nonlocal is fine when the variable lives in a function invocation (not at module level)
                    ok = func is not None and func.parent is not None
                    ck.add(f"nonlocal {','.join(node.names)}", ok, func or mod.name, node, "state of one enclosing call", "", nontrivial=False, rule="C17.STATE.global")
        # module level bindings
        for stmt in mod.tree.body:
            targets: list[ast.expr] = []
            value = None
            if isinstance(stmt, ast.Assign):
                targets, value = stmt.targets, stmt.value
            elif isinstance(stmt, ast.AnnAssign) and stmt.value is not None:
                targets, value = [stmt.target], stmt.value
            for t in targets:
                if not isinstance(t, ast.Name) or value is None or t.id.startswith("__"):
                    continue
                n += 1
                mutable = isinstance(value, (ast.List, ast.Dict, ast.Set, ast.ListComp, ast.DictComp, ast.SetComp)) or (
                    isinstance(value, ast.Call) and (unparse(value.func).split(".")[-1] in ("list", "dict", "set", "defaultdict", "OrderedDict", "Counter", "count", "deque"))
                )
                if not mutable:
                    ck.add(f"module constant {mod.name}.{t.id}", True, mod.name, stmt, f"`{short(unparse(stmt))}` is immutable", "", nontrivial=False, rule="C17.STATE.module")
                    continue
                # a mutable module constant must never be the receiver of a mutation anywhere
                writes = []
                for m2 in ck.prg.modules.values():
                    if t.id not in m2.consts and t.id not in m2.imports:
                        continue
                    for sub in ast.walk(m2.tree):
                        if isinstance(sub, ast.Call) and isinstance(sub.func, ast.Attribute) and sub.func.attr in MUTATORS and isinstance(sub.func.value, ast.Name) and sub.func.value.id == t.id:
                            f2 = ck.prg.enclosing_func(m2, sub)
                            if f2 is None or t.id not in _assigned_names(f2):
                                writes.append(f"{m2.relpath}:{sub.lineno}")
                        if isinstance(sub, (ast.Assign, ast.AugAssign)):
                            tg = sub.targets[0] if isinstance(sub, ast.Assign) else sub.target
                            if isinstance(tg, ast.Subscript) and isinstance(tg.value, ast.Name) and tg.value.id == t.id:
                                writes.append(f"{m2.relpath}:{sub.lineno}")
                ck.add(f"module constant {mod.name}.{t.id} is never mutated", not writes, mod.name, stmt, f"mutable `{short(unparse(stmt), 60)}`; direct mutations: {writes}", "a mutated module-level container is call history", rule="C17.STATE.module")
    for klass in ck.prg.classes.values():
        for stmt in klass.node.body:
            if isinstance(stmt, (ast.Assign, ast.AnnAssign)) and stmt.value is not None and isinstance(stmt.value, (ast.List, ast.Dict, ast.Set)):
                name = unparse(stmt.targets[0] if isinstance(stmt, ast.Assign) else stmt.target)
                writes = [f"{m.relpath}:{s.lineno}" for m in ck.prg.modules.values() for s in ast.walk(m.tree)
                          if isinstance(s, (ast.Assign, ast.AugAssign)) and isinstance((s.targets[0] if isinstance(s, ast.Assign) else s.target), ast.Subscript)
                          and unparse((s.targets[0] if isinstance(s, ast.Assign) else s.target).value).endswith("." + name)]  # type: ignore[union-attr]
                ck.add(f"class attribute {klass.qualname.split(':')[1]}.{name} is read-only", not writes, klass.module.name, stmt, f"mutable class attribute; writes: {writes}", "class attributes are shared by all instances of all optimize calls", rule="C17.STATE.class")
    for func in ck.prg.funcs.values():
        node = func.node
        if isinstance(node, ast.Lambda):
            continue
        for d in node.args.defaults + [x for x in node.args.kw_defaults if x is not None]:  # type: ignore[attr-defined]
            if isinstance(d, (ast.List, ast.Dict, ast.Set)) or (isinstance(d, ast.Call) and unparse(d.func) in ("list", "dict", "set")):
                ck.add(f"mutable default in {func.short}", False, func, d, f"default `{unparse(d)}`", "a mutable default argument is shared between calls", rule="C17.STATE.default")
        for dec in node.decorator_list:  # type: ignore[attr-defined]
            text = unparse(dec)
            if re.search(r"\b(cache|lru_cache|cached_property|singledispatch)\b", text):
                klass = ck.prg.class_of_func(func)
                ok = False
                detail = f"@{text} on {func.short}"
                if klass is not None and func.params() and func.params()[0] == "self":
                    has_eq = any(isinstance(s, ast.FunctionDef) and s.name in ("__eq__", "__hash__") for s in klass.node.body)
                    is_dc = any("dataclass" in unparse(d2) for d2 in klass.node.decorator_list)
                    body_pure = all(isinstance(s, (ast.Return, ast.Expr)) for s in node.body)  # type: ignore[attr-defined]
                    ctor_sites = [c for f2 in ck.prg.funcs.values() for c in calls_in(f2, lambda c: (ck.prg.resolve_callee(f2, c.func) or "") == klass.qualname)]
                    per_call = all(not (ck.prg.enclosing_func(f2.module, c) is None) for f2 in ck.prg.funcs.values() for c in [])
                    ok = not has_eq and not is_dc and bool(ctor_sites)
                    detail += f": keyed by `self` (identity hash, class defines no __eq__/__hash__: {not has_eq and not is_dc}); instances are created per pass ({len(ctor_sites)} constructor sites)"
                ck.add(f"memoisation on {func.short}", ok, func, dec, detail,
                       "a process-wide memo keyed by values (not by the per-call instance) makes generated names depend on earlier optimize calls", rule="C17.STATE.cache")
    ck.need(n >= 10, "module-level bindings scanned")


def _assigned_names(func: Func) -> set[str]:
    from ..interp import _local_names

    return _local_names(func)


# ------------------------------------------------------------------------------------------------ FLOW predicate lists
def r_predicate_lists(ck: Checker) -> None:
    """input/output predicate lists are used through membership and set() only (their order cannot reach the output)"""
    uses = 0
    for func in ck.prg.funcs.values():
        par = parents(func)
        for node in find_nodes(func.node, lambda n: (isinstance(n, ast.Name) and n.id in ("input_predicates", "output_predicates") and isinstance(n.ctx, ast.Load)) or (isinstance(n, ast.Attribute) and n.attr in ("input_predicates", "output_predicates") and isinstance(n.ctx, ast.Load))):
            up = par.get(id(node))
            if isinstance(up, ast.Attribute):
                continue
            uses += 1
            ok = False
            how = type(up).__name__
            if isinstance(up, ast.Compare) and isinstance(up.ops[0], (ast.In, ast.NotIn)) and up.comparators[0] is node:
                ok, how = True, "membership test"
            elif isinstance(up, ast.Call) and isinstance(up.func, ast.Name) and up.func.id in ("set", "frozenset", "len", "sorted") and node in up.args:
                ok, how = True, f"{up.func.id}(...)"
            elif isinstance(up, ast.Call) and node in up.args:
                callee = ck.prg.resolve_callee(func, up.func) or unparse(up.func)
                tgt = ck.prg.funcs.get(callee) or ck.prg.funcs.get(f"{callee}.__init__")
                ok = tgt is not None or callee.endswith("chain") or callee.endswith(":optimize")
                how = f"passed on to {callee.split(':')[-1]}"
                if callee.endswith("chain"):
                    loop = par.get(id(up))
                    ok = isinstance(loop, ast.For) and _commutative_body(func, loop, loop.body, {n.id for n in ast.walk(loop.target) if isinstance(n, ast.Name)}) is None
                    how = "chain(...) into a loop with order-insensitive body"
            elif isinstance(up, ast.keyword):
                ok, how = True, "passed on as keyword"
            elif isinstance(up, (ast.Assign, ast.AnnAssign)) and isinstance((up.targets[0] if isinstance(up, ast.Assign) else up.target), ast.Attribute):
                ok, how = True, "stored in the translator"
            elif isinstance(up, ast.AugAssign) and isinstance(up.op, ast.Sub):
                ok, how = True, "set difference"
            elif func.short == "__main__:main":
                ok, how = True, "option value / test in main()"
            ck.add(f"use of {unparse(node)} as {how}", ok, func, node, f"`{short(unparse(up) if up is not None else '')}`", "iterating the declared predicate lists in order would let the (hash dependent) order of auto_detect_input reach the output", rule="C17.FLOW.predicate-lists")
    ck.need(uses >= 15, f"uses of the predicate lists found ({uses})")


RULES = [
    Rule("C17.ORDER", P, r_order),
    Rule("C17.OWN", P, r_own),
    Rule("C17.STATE", P, r_state),
    Rule("C17.FLOW.predicate-lists", P, r_predicate_lists),
]
