"""C09 — unused removes or shrinks only what no output, constraint or objective can see (DESIGN §4 C09)."""

from __future__ import annotations

import ast
import re

from ..core import Checker, Rule, attr_calls, callee_is, calls_in, kwarg, resolved_calls, short
from ..grammar import schema
from ..interp import Pins, find_nodes, unparse
from ..kinds import Kinds
from ..model import AnalysisError
from .util import enclosing_loop, enclosing_stmt, every_iteration_reaches, fmt, is_const, parent, returns_of, same, self_attr_for_param, single_def, ancestors

P = ("C09", "C01")
CLS = "unused:UnusedTranslator"


def r_usage_scan(ck: Checker) -> None:
    """KIND/EXHAUST: which statement and head kinds make their literals observers"""
    func = ck.func(f"{CLS}.analyze_usage")
    sch = schema()
    it0 = ck.interp(func)
    loops = [n for n in find_nodes(func.node, lambda n: isinstance(n, ast.For)) if enclosing_loop(func, n) is None]
    ck.need(len(loops) >= 1 and isinstance(loops[0].target, ast.Name), "analyze_usage loops over the program")  # type: ignore[attr-defined]
    stm = loops[0].target.id  # type: ignore[attr-defined]
    usage_calls = resolved_calls(ck.prg, func, f"ngo.{CLS}._add_usage", f"ngo.{CLS}._add_usage_stm")
    ck.need(len(usage_calls) >= 3, "analyze_usage records usage through _add_usage/_add_usage_stm")
    au = ck.func(f"{CLS}._add_usage")
    inner_calls = resolved_calls(ck.prg, au, f"ngo.{CLS}._add_usage_stm")
    ck.need(len(inner_calls) >= 1, "_add_usage scans its elements with _add_usage_stm")
    lp_u = enclosing_loop(au, inner_calls[0])
    oku, nu = every_iteration_reaches(ck, au, lp_u, inner_calls[0], None) if lp_u is not None and len(inner_calls) == 1 else (False, 0)
    ck.add("_add_usage scans EVERY element it is given, as a whole", oku and nu > 0 and lp_u is not None and unparse(lp_u.iter) == au.params()[1] and unparse(inner_calls[0].args[0]) == unparse(lp_u.target), au, inner_calls[0],
           f"`{fmt(inner_calls[0])}` for every element of `{unparse(lp_u.iter) if lp_u is not None else None}`: {oku}",
           "for `ok :- covered(X,Y) : edge(X,Y).` the literal part of the conditional literal reads both positions of covered/2: if only the condition is scanned they look unused, covered/2 shrinks to covered/0 and its rules are deleted")
    # (1) statement kinds whose body literals observe predicates
    with_body = sorted(k for k in sch.nonterminals["statement"] if sch.field(k, "body") is not None)
    required = [k for k in with_body if k != "ShowTerm"]  # conditions of #show terms are observable only through OUT
    for kind in required:
        it = ck.interp(func, Pins.of(vals={f"{stm}.ast_type": f"ASTType.{kind}"}))
        hit = [c for c in usage_calls if it.reachable(c) and any(t == f"{stm}.body" for t in it.texts(c, c.args[0]))]
        ck.add(f"body of {kind} is scanned", bool(hit), func, loops[0], f"with {stm}.ast_type == {kind}: _add_usage({stm}.body) reachable: {bool(hit)}",
               f"a predicate used only in the body of a #{kind.lower()} statement would lose arguments or its defining rules")
    # (2) head kinds whose element literals / conditions observe predicates
    head_kinds = sorted(sch.field("Rule", "head").kinds - {"Literal"})  # type: ignore[union-attr]
    for kind in head_kinds:
        it = ck.interp(func, Pins.of(vals={f"{stm}.ast_type": "ASTType.Rule", f"{stm}.head.ast_type": f"ASTType.{kind}"}))
        kd = Kinds(it)
        reached = [c for c in usage_calls if it.reachable(c) and not any(t == f"{stm}.body" for t in it.texts(c, c.args[0]))]
        # what must be observed for this head kind, by the grammar
        elem_kinds = sch.field(kind, "elements").kinds  # type: ignore[union-attr]
        cond_seen = False
        lit_seen = kind in ("TheoryAtom",)
        for call in reached:
            callee = ck.prg.resolve_callee(func, call.func) or ""
            for st in it.states(call):
                arg = it.expand(call.args[0], st)
                text = unparse(arg)
                m = kd.mult(call.args[0], st)
                if callee.endswith("._add_usage"):
                    # parameter is a Sequence[AST]: the argument must be a sequence-valued field
                    ok = m is not None and m[0] == "*" and m[1]
                    ck.add(f"{kind} head: _add_usage gets a sequence", ok, func, call,
                           f"`{short(text)}` has multiplicity {m[0] if m else '?'} over kinds {sorted(m[2]) if m else '?'}",
                           "iterating a single node raises TypeError ('AST' object is not iterable): optimize aborts on a valid program", rule="C09.KIND.usage-mult")
                    if ok and text.endswith(".condition"):
                        cond_seen = True
                else:
                    ok = m is None or m[0] in ("1",) or isinstance(arg, ast.Name)
                    ck.add(f"{kind} head: _add_usage_stm gets a node", ok, func, call, f"`{short(text)}` multiplicity {m[0] if m else '?'}", "", nontrivial=False)
                    if text.endswith(".literal"):
                        lit_seen = True
                break
        ck.add(f"{kind} head: element conditions are scanned", cond_seen, func, loops[0], f"a sequence-valued `.condition` of the head elements reaches _add_usage: {cond_seen}",
               "a predicate used only in the condition of a head element is observed by that rule")
        ck.add(f"{kind} head: element literals are scanned", lit_seen, func, loops[0], f"`.literal` of the head elements reaches _add_usage_stm: {lit_seen}",
               "atoms in choice/disjunction/head-aggregate elements are derived by that rule and keep their arguments")
    # (3) signatures
    for kind in ("ShowSignature", "ProjectSignature"):
        it = ck.interp(func, Pins.of(vals={f"{stm}.ast_type": f"ASTType.{kind}"}))
        upd = [c for c in attr_calls(func, "update") if it.reachable(c) and "used_positions" in unparse(c.func.value)]  # type: ignore[attr-defined]
        adds = [c for c in attr_calls(func, "add") if it.reachable(c) and unparse(c.func.value) == "self.used"]  # type: ignore[attr-defined]
        ok = False
        for c in upd:
            for st in it.states(c):
                key = unparse(it.expand(c.func.value, st))  # type: ignore[attr-defined]
                arg = unparse(it.expand(c.args[0], st)).replace(" ", "")
                ok = ok or (f"Predicate({stm}.name, {stm}.arity)" in key and arg in (f"range(0,{stm}.arity)", f"range({stm}.arity)"))
        ck.add(f"{kind}: all positions used", ok and bool(adds), func, loops[0], f"used_positions[Predicate({stm}.name, {stm}.arity)].update(range(0, {stm}.arity)) and used.add: {ok and bool(adds)}",
               "predicates named in #show/#project signatures keep all their arguments")


def r_position_usage(ck: Checker) -> None:
    """_add_usage_stm: every argument position of every function term counts as used unless the argument IS `_`"""
    func = ck.func(f"{CLS}._add_usage_stm")
    adds = [c for c in attr_calls(func, "add") if unparse(c.func.value).startswith("self.used_positions[")]  # type: ignore[attr-defined]
    ck.need(len(adds) == 1, "_add_usage_stm records used positions at one site")
    site = adds[0]
    lp = enclosing_loop(func, site)
    ck.need(lp is not None and isinstance(lp.target, ast.Tuple) and len(lp.target.elts) == 2, "positions are scanned with enumerate(<arguments>)")
    idx, arg = [unparse(e) for e in lp.target.elts]  # type: ignore[union-attr]
    # the only thing between the loop head and the recording is the test `arg != _` (no other statement that could leave
    # the iteration, no further condition)
    conds_ = []
    child_ = enclosing_stmt(func, site)
    plain = True
    for anc in ancestors(func, child_):
        if anc is lp:
            break
        if isinstance(anc, ast.If):
            in_body = any(s is child_ or any(x is child_ for x in ast.walk(s)) for s in anc.body)
            conds_.append(unparse(anc.test) if in_body else f"not ({unparse(anc.test)})")
            plain = plain and anc.body[0] is child_ if in_body else False
        elif not isinstance(anc, (ast.For, ast.expr)):
            plain = False
        child_ = anc if isinstance(anc, ast.stmt) else child_
    first_ = lp.body[0] is child_ or all(isinstance(s, (ast.Assign, ast.AnnAssign)) for s in lp.body[: [i for i, s in enumerate(lp.body) if s is child_][0]]) if any(s is child_ for s in lp.body) else False  # type: ignore[union-attr]
    okp = plain and first_ and len(conds_) == 1 and (same(conds_[0], f"{arg} != self._anon") or same(conds_[0], f"self._anon != {arg}"))
    if not okp:
        # the same decision in another spelling (`if arg == self._anon: continue`): whenever the argument is not `_` the
        # iteration records the position, whatever else is tested on the way
        oks, ns = every_iteration_reaches(ck, func, lp, site, Pins.of(facts={f"{arg} != self._anon": True, f"{arg} == self._anon": False}))  # type: ignore[arg-type]
        never = not ck.interp(func, Pins.of(facts={f"{arg} != self._anon": False, f"{arg} == self._anon": True})).reachable(site)
        okp = oks and ns > 0 and never
        conds_.append(f"every iteration with {arg} != self._anon records: {okp}")
    ck.add("a position whose argument is not the anonymous variable itself is recorded as used", okp and unparse(site.args[0]) == idx, func, site, f"the recording of `{unparse(site.args[0])}` is guarded by {conds_} only: {okp}",
           "`holds(open(_))` still matches only atoms whose argument is an `open(..)` term: treating a term that contains only `_` as unused drops the position and with it the pattern")
    outer = enclosing_loop(func, lp)
    ok_o = outer is not None and unparse(outer.iter).replace('"', "'") == f"collect_ast({func.params()[1]}, 'Function')"
    ck.add("all function terms of the node are scanned (nested ones too)", ok_o, func, lp, f"outer loop over `{unparse(outer.iter) if outer is not None else None}`", "")


def r_interface_used(ck: Checker) -> None:
    """GUARD F2: input and output predicates are used at every position"""
    func = ck.func(f"{CLS}.analyze_usage")
    a_in = self_attr_for_param(ck, CLS, "input_predicates")
    a_out = self_attr_for_param(ck, CLS, "output_predicates")
    it = ck.interp(func)
    found = False
    for loop in find_nodes(func.node, lambda n: isinstance(n, ast.For)):
        text = unparse(loop.iter)  # type: ignore[attr-defined]
        if f"self.{a_in}" in text or f"self.{a_out}" in text:
            found = True
            both = f"self.{a_in}" in text and f"self.{a_out}" in text and text.startswith("chain(")
            ck.add("inputs and outputs are both marked", both, func, loop, f"loop over `{text}`", "an output (or input) predicate that loses an argument is a changed interface")
            pred = unparse(loop.target)  # type: ignore[attr-defined]
            adds = [c for c in attr_calls(func, "add") if enclosing_loop(func, c) is loop and unparse(c.func.value) == "self.used" and unparse(c.args[0]) == pred]  # type: ignore[attr-defined]
            upd = [
                c for c in attr_calls(func, "update")
                if enclosing_loop(func, c) is loop and unparse(c.func.value) == f"self.used_positions[{pred}]"  # type: ignore[attr-defined]
                and unparse(c.args[0]).replace(" ", "") in (f"range(0,{pred}.arity)", f"range({pred}.arity)")
            ]
            ck.add("interface predicates count as used", len(adds) == 1 and it.reachable(adds[0]), func, loop, f"self.used.add({pred}): {len(adds)}", "remove_unused must never delete rules of an output predicate")
            ck.add("interface predicates keep every position", len(upd) == 1 and it.reachable(upd[0]), func, loop, f"self.used_positions[{pred}].update(range(0, {pred}.arity)): {len(upd)}",
                   "input and output predicates keep all their arguments")
            # unconditional inside the loop
            for c in adds + upd:
                ok, n = every_iteration_reaches(ck, func, loop, c, None)
                ck.add("marking is unconditional", ok and n > 0, func, c, f"every iteration executes `{fmt(c)}`: {ok}", "")
    ck.add("analyze_usage marks the declared interface", found, func, func.node, f"loop over self.{a_in}/self.{a_out}: {found}", "input and output predicates keep all their arguments")


def r_transform(ck: Checker) -> None:
    """F1/F3/F4: only unobserved positions are dropped, under a fresh name, at every occurrence"""
    func = ck.func(f"{CLS}.transform")
    it = ck.interp(func)
    apps = attr_calls(func, "append")
    ck.need(len(apps) == 1, "transform collects the kept arguments at one site")
    app = apps[0]
    loop = enclosing_loop(func, app)
    ck.need(loop is not None and isinstance(loop.target, ast.Name), "kept arguments are collected in a loop over positions")
    pos = loop.target.id  # type: ignore[union-attr]
    ok = False
    for st in it.states(app):
        org = st.origin.get(pos, "").replace(" ", "")
        m = re.fullmatch(r"\[(\w+)for\1inrange\((?:0,)?(.+)\.arity\)if\1inself\.used_positions\[\2\]\]\[\*\]", org)
        arg = unparse(it.expand(app.args[0], st))
        ok = m is not None and arg.endswith(f".arguments[{pos}]")
        if m is None:
            # the same selection written as a filter on the loop: for pos in range(P.arity): if pos in used_positions[P]: ...
            m2 = re.fullmatch(r"range\((?:0,)?(.+)\.arity\)\[\*\]", org)
            if m2 is not None and arg.endswith(f".arguments[{pos}]"):
                key = ast.parse(st.origin.get(pos, "")[:-3], mode="eval").body.args[-1].value  # type: ignore[attr-defined]
                ok = it.holds(app, f"{pos} in self.used_positions[{unparse(key)}]")
        detail = f"positions from `{st.origin.get(pos)}`, kept argument `{arg}`"
    ck.add("kept positions = observed positions, in order", ok, func, app, detail, "dropping an observed position changes the meaning of every rule that reads it")
    names = resolved_calls(ck.prg, func, f"ngo.{CLS}._new_name")
    ck.need(len(names) == 1, "the shrunken predicate is named by _new_name")
    call = names[0]
    texts = it.texts(call, call.args[0])
    ok = all(re.fullmatch(r"Predicate\((.+)\.name, len\(\1\.arguments\)\)", t) for t in texts) and bool(texts)
    ck.add("renaming is keyed by the original predicate", ok, func, call, f"_new_name({sorted(texts)}, ...)", "all occurrences of one predicate must get the same new name")
    nn = ck.func(f"{CLS}._new_name")
    fresh = resolved_calls(ck.prg, nn, "ngo.utils.globals:UniqueNames.new_predicate")
    ck.add("new predicate name is fresh", len(fresh) == 1, nn, nn.node, f"_new_name obtains the name from UniqueNames.new_predicate: {len(fresh)}", "the shrunken predicate must not collide with an existing one of the same arity")
    # ... on every path: whatever is remembered as the new name came out of new_predicate for the reduced signature
    stores = [a for a in find_nodes(nn.node, lambda x: isinstance(x, ast.Assign)) if isinstance(a.targets[0], ast.Subscript) and unparse(a.targets[0].value) == "self.new_names"]  # type: ignore[attr-defined]
    ck.need(len(stores) >= 1, "_new_name remembers the chosen name in self.new_names")
    np_ = nn.params()[2]
    itn = ck.interp(nn)
    for a in stores:
        vals_ = {t.replace(" ", "") for t in itn.texts(a, a.value)} or {unparse(a.value).replace(" ", "")}  # type: ignore[attr-defined]
        okv = vals_ == {f"self.unique_names.new_predicate({np_}.name,{np_}.arity).name"}
        ck.add("every remembered name was handed out by UniqueNames for the reduced (name, arity)", okv, nn, a, f"`{short(unparse(a), 100)}`",
               "a name kept without asking is not registered with the name generator: a second predicate reduced to the same signature gets the very same name (one invented predicate serves two purposes)")
    # applied to every SymbolicAtom of every statement
    pu = ck.func(f"{CLS}._project_unused_stm")
    calls = resolved_calls(ck.prg, pu, "ngo.utils.ast:transform_ast")
    ok = len(calls) == 1 and len(calls[0].args) == 3 and is_const(calls[0].args[1], "SymbolicAtom") and unparse(calls[0].args[2]) == "self.transform"  # type: ignore[arg-type]
    ck.add("projection is applied to every symbolic atom", ok, pu, pu.node, f"`{fmt(calls[0]) if calls else None}`", "F4: a predicate must be renamed at every occurrence or not at all")
    if calls and pu.name.endswith("._project_unused_stm"):
        itp = ck.interp(pu, None, mark_stmts={id(enclosing_stmt(pu, calls[0])): "projected"})
        rs = [(r_, st_) for r_, st_ in itp.returns if r_.value is not None]
        okr = bool(rs) and all("projected" in st_.marks and itp.text(r_.value, st_).startswith("transform_ast(") for r_, st_ in rs)
        ck.add("... whatever kind the statement has", okr, pu, calls[0], f"every return of _project_unused_stm hands back the projected statement: {okr}",
               "analyze_usage reads the bodies of #edge, #heuristic, #external, #project and #show statements too: a statement kind that is skipped here keeps the old atom `used(X,Y,_)` that no rule derives any more")
    outer = ck.func(f"{CLS}.project_unused")
    oc = resolved_calls(ck.prg, outer, f"ngo.{CLS}._project_unused_stm")
    if not oc and pu is outer:
        oc = calls  # the per-statement helper was folded into the loop: the projection itself is the site
    ck.need(len(oc) == 1, "project_unused projects statements at one site")
    lp = enclosing_loop(outer, oc[0])
    okk, n = every_iteration_reaches(ck, outer, lp, oc[0], None) if lp is not None else (False, 0)
    ck.add("... of EVERY statement, directives included", okk and n > 0 and lp is not None and unparse(lp.iter) == outer.params()[1], outer, oc[0], f"unconditional in the loop over the program: {okk}",
           "F4: a shrunken predicate that keeps its old arity inside an #edge / #external / #show term refers to atoms nobody derives any more")


def r_remove_unused(ck: Checker) -> None:
    """E1/E2: a rule is deleted only if its head is a plain positive atom of a predicate nobody observes"""
    func = ck.func(f"{CLS}.remove_unused")
    it = ck.interp(func)
    apps = attr_calls(func, "append")
    ck.need(len(apps) == 1, "remove_unused appends the kept statements at one site")
    app = apps[0]
    loop = enclosing_loop(func, app)
    ck.need(loop is not None and isinstance(loop.target, ast.Name), "loop over the program")
    stm = loop.target.id  # type: ignore[union-attr]
    ck.add("kept statement is the statement itself", unparse(app.args[0]) == stm, func, app, f"`{fmt(app)}`", "")
    conts = [n for n in find_nodes(loop, lambda n: isinstance(n, ast.Continue))]
    ck.need(len(conts) >= 1, "a deleted rule is skipped with `continue`")
    for cont in conts:
        for cond, why in (
            (f"{stm}.ast_type == ASTType.Rule", "only rules are deleted"),
            (f"{stm}.head.ast_type == ASTType.Literal", "choice/disjunction/aggregate heads derive several atoms and are kept"),
            (f"{stm}.head.sign == Sign.NoSign", "`not p :- body` is a constraint, not a definition"),
            (f"{stm}.head.atom.ast_type == ASTType.SymbolicAtom", "`#false :- body` is a constraint and must stay"),
            (f"{stm}.head.atom.symbol.ast_type == ASTType.Function", "only named predicates"),
            (f"Predicate({stm}.head.atom.symbol.name, len({stm}.head.atom.symbol.arguments)) not in self.used", "the predicate is observed by a body, condition, directive, output or input declaration"),
        ):
            ck.guard(f"rule deleted only if {cond.replace(stm + '.', '')}", func, cont, cond, why)
    key = f"Predicate({stm}.head.atom.symbol.name, len({stm}.head.atom.symbol.arguments)) in self.used"
    ok, n = every_iteration_reaches(ck, func, loop, app, Pins.of(facts={key: True}))  # type: ignore[arg-type]
    ck.add("rules of observed predicates are kept", ok and n > 0, func, app, f"under `{key}` every iteration appends: {ok}", "")
    ok, n = every_iteration_reaches(ck, func, loop, app, Pins.of(vals={f"{stm}.ast_type": "ASTType.Minimize"}))  # type: ignore[arg-type]
    ck.add("non-rule statements are kept", ok and n > 0, func, app, f"with {stm}.ast_type == Minimize every iteration appends: {ok}", "")


def r_single_copies(ck: Checker) -> None:
    """template A (UNFOLD) for remove_single_copies"""
    func = ck.func(f"{CLS}.remove_single_copies")
    it = ck.interp(func)
    a_in = self_attr_for_param(ck, CLS, "input_predicates")
    a_out = self_attr_for_param(ck, CLS, "output_predicates")
    sites = [n for n in find_nodes(func.node, lambda n: isinstance(n, ast.Assign)) if isinstance(n.targets[0], ast.Subscript) and isinstance(n.value, ast.Call)  # type: ignore[attr-defined]
             and (ck.prg.resolve_callee(func, n.value.func) or "").endswith("UnusedTranslator.Mapper")]  # type: ignore[attr-defined]
    ck.need(len(sites) == 1, "remove_single_copies registers copy rules at one site (mapping[head] = Mapper(...))")
    site = sites[0]
    head = unparse(site.targets[0].slice)  # type: ignore[attr-defined]
    sts = it.states(site)
    ck.need(bool(sts), "registration reachable")
    st = sts[0]
    mapper = site.value  # type: ignore[attr-defined]
    ck.need(len(mapper.args) == 4, "Mapper(uv, rule_id, head arguments, body symbol)")
    hargs = unparse(it.expand(mapper.args[2], st))
    bsym = unparse(it.expand(mapper.args[3], st))
    m = re.fullmatch(r"list\((.+)\.atom\.symbol\.arguments\)", hargs)
    ck.need(m is not None and bsym.endswith(".atom.symbol"), "Mapper gets the head literal's arguments and the body literal's symbol")
    hlit, blit = m.group(1), bsym.removesuffix(".atom.symbol")  # type: ignore[union-attr]
    rules_txt = hlit.removesuffix("[0].head")
    ck.need(hlit.endswith("[0].head") and blit == f"{rules_txt}[0].body[0]", "head and body literal belong to the single defining rule rules[0]")
    org_ok = any(s.origin.get(head, "").startswith("rd.get_headderivable_predicates()") or "get_headderivable_predicates()" in s.origin.get(head, "") for s in sts)
    conds = [
        ("A1 not an input", f"{head} not in self.{a_in}", "facts of the instance would not be redirected"),
        ("A1 not an output", f"{head} not in self.{a_out}", "an output predicate must stay derivable"),
        ("A2 single defining rule", f"len({rules_txt}) == 1", "with a second rule the predicate is a union, not a copy"),
        ("A3 head is a predicate atom", f"is_predicate({hlit})", ""),
        ("A3 head is positive", f"{hlit}.sign == Sign.NoSign", ""),
        ("A3 single body literal", f"len({rules_txt}[0].body) == 1", "extra body literals restrict the copy"),
        ("A3 body is a predicate atom", f"is_predicate({blit})", ""),
        ("A3 body literal is positive", f"{blit}.sign == Sign.NoSign", "`h :- not b.` is not a copy of b: replacing h by b flips its truth value"),
        ("A4 same arity", f"len({hlit}.atom.symbol.arguments) == len({blit}.atom.symbol.arguments)", ""),
        ("A4 not a self copy", f"{head} != Predicate({blit}.atom.symbol.name, len({blit}.atom.symbol.arguments))", "p(X) :- p(Y) style rules are recursion, not copies"),
    ]
    ck.add("candidates are head-derivable predicates", org_ok, func, site, f"`{head}` iterates rd.get_headderivable_predicates(): {org_ok}", "", nontrivial=False)
    for sig, cond, why in conds:
        ck.guard(sig, func, site, cond, why or "side condition of unfolding a single definition")
    # A4 head arguments are variables
    var_fact = [k for k, v in it.known(site) if v is True and re.match(r"all\(\((\w+)\.ast_type == ASTType\.Variable for \1 in ", k) and k.endswith(f"{hlit}.atom.symbol.arguments))")]
    ck.add("A4 head arguments are variables", bool(var_fact), func, site, f"dominating fact: {var_fact}", "a constant or function term in the head is an implicit condition that unfolding would drop")
    # A4 distinctness (sibling inline.is_single checks it)
    dist = [k for k, v in it.known(site) if v is True and re.search(r"len\(set\(.*\)\) == len\(", k) and hlit in k]
    dist += [k for k, v in it.known(site) if v is False and re.search(r"len\(set\(.*\)\) (!=|<) len\(", k) and hlit in k]
    ck.add("A4 head variables are pairwise distinct", bool(dist), func, site, f"dominating distinctness fact: {dist or 'none'} (sibling inline.is_single has `len(set(collect_ast(hatom.symbol, 'Variable'))) != len(arguments)`)",
           "a(X,X) :- b(X,X) is not a copy: a(Y,Z) also forces Y = Z; unfolding a use a(Y,Z) into b(Y,Y) loses that equality")
    # A6: the definition is deleted only if it was used for a replacement; every statement is rewritten
    tcalls = resolved_calls(ck.prg, func, "ngo.utils.ast:transform_ast")
    ok = False
    for c in tcalls:
        loop = enclosing_loop(func, c)
        if loop is not None and len(c.args) == 3 and is_const(c.args[1], "SymbolicAtom") and unparse(c.args[0]) == unparse(loop.target) and unparse(loop.iter) == func.params()[1]:
            okk, n = every_iteration_reaches(ck, func, loop, c, None)
            ok = okk and n > 0
    ck.add("A6 every statement is rewritten", ok, func, func.node, f"transform_ast(stm, 'SymbolicAtom', convert) for every statement of the program: {ok}", "a use that is not rewritten would refer to a deleted definition")


def r_anonymize(ck: Checker) -> None:
    """variables occurring once are anonymised - outside aggregates, in rules and objectives only"""
    func = ck.func(f"{CLS}._anonymize_variables.<locals>.anom_var")
    it = ck.interp(func)
    coll, var = func.params()[0], func.params()[1]
    for ret in returns_of(func):
        if ret.value is not None and unparse(ret.value) != var:
            ck.guard("anonymised only if the variable occurs exactly once", func, ret, f"{coll}[{var}] == 1", "a variable that occurs twice is a join; replacing it by `_` drops the join")
    outer = ck.func(f"{CLS}._anonymize_variables")
    ito = ck.interp(outer)
    calls = resolved_calls(ck.prg, outer, f"ngo.{CLS}.transform_body_ast_except_aggregate")
    ck.need(len(calls) == 1, "_anonymize_variables uses transform_body_ast_except_aggregate")
    stm = unparse(calls[0].args[0])
    ck.guard("only rules and objectives are anonymised", outer, calls[0], f"{stm}.ast_type in (ASTType.Rule, ASTType.Minimize)", "")
    cnt = [k for st in ito.states(calls[0]) for k in [unparse(ito.expand(calls[0].args[2], st))]]
    ok = all(re.search(r"Counter\(collect_ast\(" + re.escape(stm) + r", 'Variable'\)\)", k) for k in cnt) and bool(cnt)
    ck.add("occurrences are counted over the whole statement", ok, outer, calls[0], f"counter: {cnt}", "a variable shared between head and body occurs twice")
    tb = ck.func(f"{CLS}.transform_body_ast_except_aggregate")
    itb = ck.interp(tb)
    tcalls = resolved_calls(ck.prg, tb, "ngo.utils.ast:transform_ast")
    ck.need(len(tcalls) == 1, "one transform site")
    part = unparse(tcalls[0].args[0])
    ok = not itb.possible(tcalls[0], f"{part}.ast_type == ASTType.Literal and {part}.atom.ast_type in (ASTType.Aggregate, ASTType.BodyAggregate)")
    ck.add("aggregates are skipped", ok, tb, tcalls[0], f"transform not applied to aggregate literals: {ok}", "inside an aggregate a variable that occurs once still distinguishes tuples")


def r_mapper_init(ck: Checker) -> None:
    """Mapper.__init__: the renaming of the copy rule's head variables is complete before it is applied (a head variable may
    repeat: `eq(X,X) :- elem(X,W).`)"""
    func = ck.func(f"{CLS}.Mapper.__init__")
    stores = [a for a in find_nodes(func.node, lambda n: isinstance(n, ast.Assign)) if isinstance(a.targets[0], ast.Subscript) and isinstance(a.targets[0].value, ast.Name)]  # type: ignore[attr-defined]
    maps = {a.targets[0].value.id for a in stores}  # type: ignore[attr-defined]
    uses = [c for c in resolved_calls(ck.prg, func, "ngo.utils.ast:transform_ast") if len(c.args) == 3]
    ck.need(len(maps) >= 1 and len(uses) >= 1, "Mapper.__init__ builds a renaming and applies it with transform_ast")

    def top(node: ast.AST) -> ast.AST:
        cur = enclosing_stmt(func, node)
        while enclosing_loop(func, cur) is not None:
            cur = enclosing_loop(func, cur)  # type: ignore[assignment]
        return cur

    for u in uses:
        tu = top(u)
        mixed = [a for a in stores if top(a) is tu]
        later = [a for a in stores if getattr(top(a), "lineno", 0) > getattr(tu, "lineno", 0)]
        ck.add("the head-variable renaming is complete before it is applied to the head arguments", not mixed and not later, func, u, f"`{short(unparse(u), 60)}`: renaming entries written in the same loop: {len(mixed)}, after it: {len(later)}",
               "filled while it is applied, a repeated head variable is renamed twice: the head arguments become [X0, X1] while the body is renamed with the final entry only, and `eq(Q,_)` unfolds to `elem(_,_)` - the join on Q is lost")


def r_convert(ck: Checker) -> None:
    """Mapper.convert: after the head arguments of the copy rule were replaced by the arguments of the use site, only
    variables that do NOT occur at the use site are anonymised"""
    func = ck.func(f"{CLS}.Mapper.convert")
    it = ck.interp(func)
    args = func.params()[1]
    # the anonymising callback: the function bound with partial(...) in convert that can return the variable `_`
    # (a nested function or a module-level helper, whatever it is called)
    def _anon_returns(f):  # type: ignore[no-untyped-def]
        return [r for r, st in ck.interp(f).returns if r.value is not None and unparse(r.value).replace(" ", "") in ("Variable(LOC,'_')", 'Variable(LOC,"_")')]

    cands = []
    for c in calls_in(func, lambda c: unparse(c.func) == "partial" and bool(c.args)):
        q = ck.prg.resolve_callee(func, c.args[0])
        if q in ck.prg.funcs and _anon_returns(ck.prg.funcs[q]):
            cands.append((c, ck.prg.funcs[q]))
    if not cands and calls_in(func, lambda c: unparse(c.func) == "partial" and bool(c.args)):
        ck.add("variables of the copied literal that do not occur at the use site are anonymised", False, func, func.node, "none of the callbacks convert binds with partial(...) can return the variable `_`",
               "`a(X,Y) :- b(X,f(Y,Z,Z)).` used as `not a(P,Q)`: Z does not occur at the use site; copied as it is, `not b(P,f(Q,Z,Z))` has an unbound variable in a negative literal - the result is unsafe")
        return
    ck.need(len(cands) == 1, "convert binds one anonymising callback with partial(...)")
    rr = cands[0][1]
    itr = ck.interp(rr)
    inp, keep = rr.params()[:2]
    anon = _anon_returns(rr)
    ck.need(len(anon) == 1, "replace_rest anonymises at one site")
    ck.guard("a variable is anonymised only if it does not occur at the use site", rr, anon[0], f"{inp} not in {keep}", "")
    binds = [cands[0][0]]
    ck.need(len(binds) == 1 and kwarg(binds[0], keep) is not None, "replace_rest is applied with the use-site variables bound")
    keepname = unparse(kwarg(binds[0], keep))  # type: ignore[arg-type]
    from .util import inline_result_names
    keepnames = inline_result_names(func, keepname)  # a helper copied in as `with .. as old_vars: ...; return variables`
    ups = [c for c in attr_calls(func, "update") if unparse(c.func.value) in keepnames]  # type: ignore[attr-defined]
    init = single_def(func, keepname) if not ups else None
    arg_names = {args} | {n.targets[0].id for n in find_nodes(func.node, lambda n: isinstance(n, ast.Assign)) if len(n.targets) == 1 and isinstance(n.targets[0], ast.Name) and isinstance(n.value, ast.Name) and n.value.id == args}  # type: ignore[attr-defined]
    good = False
    detail = ""
    for c in ups:
        a = c.args[0]
        if isinstance(a, ast.Call) and callee_is(ck.prg, func, a, "ngo.utils.ast:collect_ast") and is_const(a.args[1], "Variable") and isinstance(a.args[0], ast.Name):
            org = {st.origin.get(a.args[0].id, "") for st in it.states(c)}
            lp = enclosing_loop(func, c)
            okk, n = every_iteration_reaches(ck, func, lp, c, None) if lp is not None else (False, 0)
            detail = f"`{fmt(c)}` for every element of {sorted(org)}"
            good = len(org) == 1 and next(iter(org)) in {f"{a_}[*]" for a_ in arg_names} and okk and n > 0
    if init is not None:
        detail = f"{keepname} = `{unparse(init)}`"
        good = same(unparse(init), f"set(collect_ast({args}, 'Variable'))")
    # every head variable of the copy rule is replaced in every argument: no early exit from the substitution loops
    subst = [c for c in calls_in(func, lambda c: unparse(c.func) == "partial" and bool(c.args)) if c is not binds[0]]
    if not subst:
        # no pairwise callback at all: e.g. one simultaneous substitution through dict(zip(heads, arguments))
        ck.add("every head variable is substituted in every argument of the copied atom", False, func, func.node, "no `partial(replace, old=<head variable>, new=<argument>)` applied pair by pair",
               "head variables of a copy rule may repeat (`link(X,X) :- arc(X,loop).`, known finding A-02): a dictionary built from the pairs keeps the LAST argument for a repeated variable, the pairwise substitution the first - `link(A,_)` becomes `arc(_,loop)` and the join on A is lost")
        return
    ck.need(len(subst) == 1, "convert substitutes head variables with one partial(...) callback")
    inner = enclosing_loop(func, subst[0])
    outer = enclosing_loop(func, inner) if inner is not None else None
    ck.need(inner is not None and outer is not None, "the substitution runs in a loop over the head variables inside a loop over the arguments")
    pairs = unparse(inner.iter).replace(" ", "")  # type: ignore[union-attr]
    ok_all = True
    for lp, site in ((inner, subst[0]), (outer, inner)):
        okk, n_it = every_iteration_reaches(ck, func, lp, site, None)  # type: ignore[arg-type]
        exits = [x for x in ast.walk(lp) if isinstance(x, (ast.Break, ast.Return))]  # type: ignore[arg-type]
        ok_all = ok_all and okk and n_it > 0 and not exits
    ck.add("every head variable is substituted in every argument of the copied atom", ok_all and pairs == f"zip(self.arguments,{args})", func, subst[0],
           f"substitution unconditional in both loops and no early exit: {ok_all}; pairs from `{pairs}`",
           "`link(r(X,Y),C)` holds two head variables in one argument: stopping after the first replacement leaves Y unsubstituted, it is then anonymised and the join is lost")
    ck.add("the use-site variables are ALL variables inside the use-site arguments (also nested in function terms)", good, func, binds[0], detail or "no collection of the use-site variables found",
           "`at(O,pos(R,C))` passes R inside a term: if only top-level arguments count, R is replaced by `_` and the join on R is lost")


RULES = [
    Rule("C09.EXHAUST.usage", P, r_usage_scan, extra={"C07": ("body of External", "body of Edge", "body of Heuristic", "body of ProjectAtom")}),
    Rule("C09.position-usage", P, r_position_usage),
    Rule("C09.F2.interface", P + ("C07",), r_interface_used),
    Rule("C09.F.transform", P, r_transform, extra={"C07": ("new predicate name is fresh", "every remembered name was handed out")}),
    Rule("C09.E.remove-unused", P, r_remove_unused),
    Rule("C09.A.single-copies", P, r_single_copies),
    Rule("C09.A.convert", P, r_convert, extra={"C04": ("anonymised",)}),
    Rule("C09.A.mapper-init", P, r_mapper_init),
    Rule("C09.anonymize", P, r_anonymize),
]
