"""C11 — symmetry: ordered/counted joins fire exactly when the != joins fired (DESIGN §4 C11)."""

from __future__ import annotations

import ast
import re

from ..core import Checker, Rule, attr_calls, callee_is, calls_in, kwarg, resolved_calls, short
from ..interp import Pins, find_nodes, unparse
from ..model import AnalysisError
from ..nform import canon_expr
from .util import inline_displays, effect_table, enclosing_loop, enclosing_stmt, enum_members, every_iteration_reaches, fmt, is_const, parent, returns_of, same, single_def

P = ("C11", "C01", "C06")
CLS = "symmetry:SymmetryTranslator"


def r_inequalities(ck: Checker) -> None:
    """TABLE: (sign, operator) -> which inequality bucket, with which orientation"""
    func = ck.func(f"{CLS}._inequalities")
    loops = [n for n in find_nodes(func.node, lambda n: isinstance(n, ast.For))]
    ck.need(len(loops) == 1 and isinstance(loops[0].target, ast.Name), "_inequalities loops over the literals")  # type: ignore[attr-defined]
    lit = loops[0].target.id  # type: ignore[attr-defined]
    sites = [c for c in attr_calls(func, "append") if isinstance(c.func.value, ast.Subscript)]  # type: ignore[attr-defined]
    ck.need(len(sites) >= 2, "_inequalities files comparisons into buckets ret[OP].append((lit, a, b))")
    left, right = f"{lit}.atom.term", f"{lit}.atom.guards[0].term"

    def describe(it, site, st) -> str:  # type: ignore[no-untyped-def]
        bucket = unparse(it.expand(site.func.value.slice, st))
        tup = site.args[0]
        if not (isinstance(tup, ast.Tuple) and len(tup.elts) == 3):
            return f"{bucket}:?"
        a, b = unparse(it.expand(tup.elts[1], st)), unparse(it.expand(tup.elts[2], st))
        lt = unparse(it.expand(tup.elts[0], st))
        orient = "l,r" if (a, b) == (left, right) else "r,l" if (a, b) == (right, left) else f"{a},{b}"
        return f"{bucket.split('.')[-1]}({orient})" + ("" if lt == lit else f"[lit={lt}]")

    pins = {f"{lit}.ast_type": "ASTType.Literal", f"{lit}.atom.ast_type": "ASTType.Comparison", f"{lit}.atom.term.ast_type": "ASTType.Variable", f"{lit}.atom.guards[0].term.ast_type": "ASTType.Variable"}
    table = effect_table(ck, func, {f"{lit}.sign": enum_members("Sign"), f"{lit}.atom.guards[0].comparison": enum_members("ComparisonOperator")}, sites, describe, pins)  # type: ignore[arg-type]
    # reference: which literal proves its two variables different / ordered
    ref: dict[tuple[str, str], set[frozenset[str]]] = {}
    for sign in enum_members("Sign"):
        for op in enum_members("ComparisonOperator"):
            ref[(sign, op)] = {frozenset()}
    ne = {frozenset({"NotEqual(l,r)"}), frozenset({"NotEqual(r,l)"})}
    ref[("Sign.NoSign", "ComparisonOperator.NotEqual")] = ne  # X != Y
    ref[("Sign.Negation", "ComparisonOperator.Equal")] = ne  # not X = Y
    ref[("Sign.NoSign", "ComparisonOperator.LessThan")] = {frozenset({"LessThan(l,r)"})}  # X < Y
    ref[("Sign.NoSign", "ComparisonOperator.GreaterThan")] = {frozenset({"LessThan(r,l)"})}  # X > Y  is  Y < X
    why = {
        ("Sign.Negation", "ComparisonOperator.GreaterThan"): "`not X > Y` is X <= Y: it allows X = Y and proves no inequality; treating it as `<` turns `:- slot(J1,M,T), slot(J2,M,T), not J1 > J2.` into `2 <= #count{...}`",
        ("Sign.Negation", "ComparisonOperator.LessThan"): "`not X < Y` is X >= Y: it allows X = Y and proves no inequality",
    }
    for (sign, op), effects in sorted(table.items()):
        ok = effects in ref[(sign, op)]
        allowed = " or ".join(sorted("{" + ",".join(sorted(e)) + "}" for e in ref[(sign, op)]))
        ck.add(f"({sign.split('.')[1]}, {op.split('.')[1]})", ok, func, loops[0], f"files into {{{','.join(sorted(effects))}}}; sound: {allowed}",
               why.get((sign, op), "only `!=`/`not =` prove two variables different and only a positive `<`/`>` orders them; any other row makes the group 'provably unequal' without proof"))
    # only variable-variable comparisons
    it = ck.interp(func)
    for site in sites:
        ck.guard("inequality between two variables", func, site, f"{left}.ast_type == ASTType.Variable and {right}.ast_type == ASTType.Variable",
                 "the group analysis compares argument terms with these operands; non-variable sides would match syntactically equal terms only")


def r_unequal(ck: Checker) -> None:
    """_unequal answers only for the (unordered) pair of the recorded inequality"""
    func = ck.func(f"{CLS}._unequal")
    lhs, rhs = func.params()[0], func.params()[1]
    it = ck.interp(func)
    rets = [r for r in returns_of(func) if r.value is not None and not is_const(r.value, None)]
    ck.need(len(rets) >= 1, "_unequal returns (op, lit) on success")
    for ret in rets:
        loop = enclosing_loop(func, ret)
        ck.need(loop is not None and isinstance(loop.target, ast.Tuple) and len(loop.target.elts) == 3, "loop over (lit, var1, var2) triples")
        v1, v2 = unparse(loop.target.elts[1]), unparse(loop.target.elts[2])  # type: ignore[union-attr]
        cond = f"({lhs} == {v1} and {rhs} == {v2}) or ({lhs} == {v2} and {rhs} == {v1})"
        ck.guard("proof is for exactly this pair of terms", func, ret, cond,
                 "X != Y proves nothing about the pair (X, X): accepting it lets groups with a repeated variable pass as pairwise different")
        val = ret.value
        ok = isinstance(val, ast.Tuple) and len(val.elts) == 2
        if ok:
            txt = {it.text(val.elts[1], st) for st in it.states(ret)}  # type: ignore[union-attr]
            org = all(any(st.origin.get(t, "").endswith("[*][0]") for st in it.states(ret)) for t in txt)
            ck.add("the returned literal is the one that proves it", org, func, ret, f"returns literal `{sorted(txt)}`", "the used inequality literal is later removed from the body")


def r_group(ck: Checker) -> None:
    """largest_symmetric_group: a group needs a proof for every pair at every differing position"""
    func = ck.func(f"{CLS}.largest_symmetric_group")
    it = ck.interp(func)
    accepts = [c for c in attr_calls(func, "append") if unparse(c.func.value) == "potential_equalities"]  # type: ignore[attr-defined]
    ck.need(len(accepts) == 1, "groups are accepted at one site (potential_equalities.append)")
    acc = accepts[0]
    outer = enclosing_loop(func, acc)
    ck.need(outer is not None, "acceptance happens in the loop over candidate groups")
    tests = [n for n in find_nodes(outer, lambda n: isinstance(n, ast.If)) if re.fullmatch(r"\w+ is None", unparse(n.test))]  # type: ignore[arg-type,attr-defined]
    ck.need(len(tests) == 1, "one test `res is None` on the result of _unequal")
    test = tests[0]
    unq = resolved_calls(ck.prg, func, f"ngo.{CLS}._unequal")
    ck.need(len(unq) == 1, "largest_symmetric_group asks _unequal per pair")
    it2 = ck.interp(func, None, mark_edges={(id(test), True): "noproof"}, clear_marks_at={id(outer): "noproof"})
    bad = [st for st in it2.states(acc) if "noproof" in st.marks]
    ck.add("a pair without proof rejects the group", not bad and it2.reachable(acc), func, acc, f"acceptance reachable after a failed _unequal in the same candidate: {bool(bad)}",
           "all copies must be pairwise different at a position, otherwise `<`/#count changes when two copies coincide")
    # all pairs, not just neighbours
    call = unq[0]
    org = set()
    for st in it.states(call):
        for a in call.args[:2]:
            if isinstance(a, ast.Name):
                org.add(st.origin.get(a.id, ""))
    ok = all(re.fullmatch(r"combinations\((\w+), 2\)\[\*\]\[[01]\]", o) for o in org) and bool(org)
    ck.add("every pair of copies is examined", ok, func, call, f"pairs come from {sorted(org)}", "for k >= 3 copies pairwise difference is not transitive")
    ck.guard("at least one inequality was used", func, acc, "0 < len(used_inequalities)", "a group of identical literals has nothing to improve")
    # positions that are equal for all copies are skipped, everything else needs a proof
    sides = re.findall(r"combinations\((\w+), 2\)", " ".join(org))
    if sides:
        s = sides[0]
        ploop = enclosing_loop(func, enclosing_loop(func, call))  # the loop over argument positions
        conts = [n for n in find_nodes(outer, lambda n: isinstance(n, ast.Continue)) if it.reachable(n) and enclosing_loop(func, n) is ploop]  # type: ignore[arg-type]
        skip = [c for c in conts if it.holds(c, f"len(set({s})) == 1")]
        ck.add("a position is skipped only if all copies agree on it", len(skip) >= 1 and len(skip) == len(conts), func, acc,
               f"`continue` over positions guarded by len(set({s})) == 1: {len(skip)}", "a position where copies differ without proof breaks the symmetry argument")
    # non-overlap
    ov = [k for k, v in it.known(acc) if v is False and k.startswith("any(map(partial(intersects")]
    ck.add("groups do not overlap", bool(ov), func, acc, f"dominating fact: {ov}", "a literal used in two groups would be removed twice / counted twice")
    # classification strict / non strict by operator
    stores = [c for c in attr_calls(func, "append") if isinstance(c.func.value, ast.Subscript) and ("potential_strict_inequalities" in unparse(c.func.value) or "potential_nstrict_inequalities" in unparse(c.func.value))]  # type: ignore[attr-defined]
    ck.need(len(stores) == 2, "used inequalities are split into != and < buckets")
    for c in stores:
        strict = "potential_strict" in unparse(c.func.value)  # type: ignore[attr-defined]
        st0 = it.states(c)[0]
        lp_u = enclosing_loop(func, c)
        opname = [lp_u.target.elts[0].id] if lp_u is not None and isinstance(lp_u.target, ast.Tuple) and len(lp_u.target.elts) == 3 and isinstance(lp_u.target.elts[0], ast.Name) and re.fullmatch(r"used_inequalities\w*\[\*\]\[0\]", st0.origin.get(lp_u.target.elts[0].id, "")) else []
        ck.need(len(opname) == 1, "loop over (op, lit, pos)")
        cond = f"{opname[0]} == ComparisonOperator.NotEqual" if strict else f"{opname[0]} != ComparisonOperator.NotEqual"
        ck.guard(f"{'!=' if strict else '<'} proofs go to the {'strict' if strict else 'ordered'} bucket", func, c, cond, "only a group proven by != alone may be re-ordered with <")
    # crosscheck gets body + rest
    cc = resolved_calls(ck.prg, func, f"ngo.{CLS}._crosscheck")
    ck.need(len(cc) == 1 and len(cc[0].args) >= 6, "_crosscheck is called once")
    lits_arg = unparse(cc[0].args[3]).replace(" ", "")
    body, rest = func.params()[1], func.params()[3]
    ck.add("visibility check sees the whole scope", lits_arg in (f"{body}+{rest}", f"{rest}+{body}"), func, cc[0], f"literals handed to _crosscheck: `{lits_arg}`",
           "variables at the unequal positions must not be visible anywhere else in the scope")


def _inside(func, node, text: str) -> bool:  # type: ignore[no-untyped-def]
    return True


def r_crosscheck(ck: Checker) -> None:
    """_crosscheck: unequal variables must not be visible outside the group"""
    func = ck.func(f"{CLS}._crosscheck")
    it = ck.interp(func)
    ys = [n for n in find_nodes(func.node, lambda n: isinstance(n, ast.Yield))]
    ck.need(len(ys) == 1, "_crosscheck yields bundles at one site")
    y = ys[0]
    params = func.params()
    gv = params[5]
    cond = f"len((global_vars_inside_body(lits) | {gv}) & used_variables) == 0"
    alt = f"not (global_vars_inside_body(lits) | {gv}) & used_variables"
    ok = it.holds(y, cond) or it.holds(y, alt)
    ck.add("bundle only if unequal variables are invisible elsewhere", ok and it.reachable(y), func, y, f"yield dominated by `{cond}`: {ok}",
           "if a compared variable is used in the head, another literal, a tuple or the objective, X1 < X2 (or counting) loses the instances with X1 > X2")
    # used_variables = variables at the unequal positions of every literal of the chosen groups
    upd = [c for c in attr_calls(func, "update") if unparse(c.func.value) == "used_variables"]  # type: ignore[attr-defined]
    ck.need(len(upd) == 1, "used_variables collected at one site")
    arg = it.texts(upd[0], upd[0].args[0])
    ok = all(re.fullmatch(r"collect_ast\((\w+)\.atom\.symbol\.arguments\[(\w+)\], 'Variable'\)", t) for t in arg) and bool(arg)
    ck.add("all variables at an unequal position are collected", ok, func, upd[0], f"used_variables.update({sorted(arg)})", "")
    okk, n = every_iteration_reaches(ck, func, enclosing_loop(func, upd[0]), upd[0], None)  # type: ignore[arg-type]
    ck.add("for every literal of the group", okk and n > 0, func, upd[0], f"unconditional in its loop: {okk}", "")
    # lits: group literals and used inequalities are removed before the visibility test, nothing else
    rem = [c for c in attr_calls(func, "remove") if unparse(c.func.value) == "lits"]  # type: ignore[attr-defined]
    if len(rem) == 1:
        st0 = it.states(rem[0])[0]
        org = st0.origin.get(unparse(rem[0].args[0]), "")
        ck.add("only the group's own literals are hidden", bool(re.fullmatch(r"potential_equalities\[\w+\]\[\*\]", org)), func, rem[0], f"removed literals come from `{org}`",
               "hiding more literals would overlook a use of the compared variables")
    else:
        # the same as a filter: lits = [x for x in lits if x not in potential_equalities[i]]
        filt = [n for n in find_nodes(func.node, lambda n: isinstance(n, (ast.Assign, ast.AnnAssign))) if unparse(getattr(n, "target", None) or n.targets[0]) == "lits"  # type: ignore[attr-defined]
                and n.value is not None and re.fullmatch(r"\[(\w+) for \1 in lits if \1 not in potential_equalities\[\w+\]\]", unparse(n.value))]  # type: ignore[attr-defined]
        ck.need(len(filt) == 1, "group literals are removed from the visible literals")
        ck.add("only the group's own literals are hidden", True, func, filt[0], f"`{short(unparse(filt[0]), 90)}`", "hiding more literals would overlook a use of the compared variables")
    # ... and they are hidden for the candidate subset under test only: the list starts from the whole scope again for
    # every candidate (a rejected larger candidate must not leave its groups hidden for the smaller ones)
    subs = [lp for lp in find_nodes(func.node, lambda n: isinstance(n, ast.For)) if "largest_subset(" in unparse(lp.iter)]  # type: ignore[attr-defined]
    ck.need(len(subs) == 1, "_crosscheck tries the candidate subsets in a loop over largest_subset(...)")
    fresh_ = [n for n in find_nodes(subs[0], lambda n: isinstance(n, (ast.Assign, ast.AnnAssign))) if unparse(getattr(n, "target", None) or n.targets[0]) == "lits"  # type: ignore[attr-defined]
              and n.value is not None and unparse(n.value) == f"list({params[4]})"]  # type: ignore[attr-defined]
    ok_f = len(fresh_) == 1 and enclosing_loop(func, fresh_[0]) is subs[0]
    ck.add("the visible literals start from the whole scope for every candidate subset", ok_f, func, fresh_[0] if fresh_ else subs[0], f"`lits = list({params[4]})` at the top of the loop over the candidates: {ok_f}",
           "literals of a group hidden while a larger candidate was examined stay part of the rule when that candidate is rejected: a smaller candidate whose variable occurs in them must be rejected too")
    lits_init = [n for n in find_nodes(func.node, lambda n: isinstance(n, (ast.Assign, ast.AnnAssign))) if unparse(getattr(n, "target", None) or n.targets[0]) == "lits"]  # type: ignore[attr-defined]
    inits = {unparse(n.value) for n in lits_init}  # type: ignore[attr-defined]
    ok = f"list({params[4]})" in inits and all(i == f"list({params[4]})" or same(i, "[x for x in lits if x not in neq_lits]") for i in inits)
    ck.add("visible literals start from the whole scope", ok, func, func.node, f"lits assigned from {sorted(inits)}", "")


def r_bundle(ck: Checker) -> None:
    """SymmetryBundle: counting only for one symmetry with one unequal position; `<` only if no order literal was used"""
    B = f"{CLS}.SymmetryBundle"
    init = ck.func(f"{B}.__init__")
    calls = resolved_calls(ck.prg, init, f"ngo.{B}.init_complex")
    ck.need(len(calls) == 1, "__init__ dispatches to init_complex")
    par = parent(init, enclosing_stmt(init, calls[0]))
    ck.need(isinstance(par, ast.If) and calls[0] in list(ast.walk(ast.Module(body=par.body, type_ignores=[]))), "init_complex is chosen by a test")  # type: ignore[union-attr]
    if isinstance(par.test, ast.Name):  # type: ignore[union-attr]
        flag = par.test.id  # type: ignore[union-attr]
        assigns = [n for n in find_nodes(init.node, lambda n: isinstance(n, ast.Assign)) if unparse(n.targets[0]) == flag]  # type: ignore[attr-defined]
    else:
        # the decision is written into the test itself
        flag = "<test>"
        assigns = [ast.Assign(targets=[ast.Name(flag, ast.Store())], value=par.test, lineno=par.lineno, col_offset=par.col_offset)]  # type: ignore[union-attr,list-item]
    ck.need(len(assigns) >= 1, "flag is initialised and refined per symmetry")
    one_re = r"len\((?P<a>\w+)\.nstrict_neq\)\+len\((?P=a)\.strict_neq\)==1|len\((?P<b>\w+)\.strict_neq\)\+len\((?P=b)\.nstrict_neq\)==1"
    if len(assigns) == 1:
        # the same decision as one expression: len(symmetries) == 1 and all(<one unequal position> for sym in symmetries)
        v0 = assigns[0].value  # type: ignore[attr-defined]
        conj = [unparse(x).replace(" ", "") for x in (v0.values if isinstance(v0, ast.BoolOp) and isinstance(v0.op, ast.And) else [v0])]
        ck.add("counting needs a single symmetry", "len(symmetries)==1" in conj, init, assigns[0], f"flag is `{short(unparse(v0))}`", "several groups in one bundle share variables; one count aggregate cannot express them")
        every = [c for c in conj if re.fullmatch(r"all\(\(?(?:bool\()?(?:%s)\)?\)?for(\w+)insymmetries\)\)?" % one_re, c)]
        ck.add("counting needs exactly one unequal position", bool(every), init, assigns[0], f"`{short(unparse(v0))}`", "with two differing positions `k <= #count{X}` over one of them counts too few/many")
        assigns = assigns[:1]
    else:
        first = unparse(assigns[0].value).replace(" ", "")  # type: ignore[attr-defined]
        ck.add("counting needs a single symmetry", first == "len(symmetries)==1", init, assigns[0], f"flag initialised with `{first}`", "several groups in one bundle share variables; one count aggregate cannot express them")
    for a in assigns[1:]:
        v = a.value  # type: ignore[attr-defined]
        mono = isinstance(v, ast.BoolOp) and isinstance(v.op, ast.And) and unparse(v.values[0]) == flag
        txt = unparse(v).replace(" ", "")
        one = bool(re.search(r"len\((\w+)\.nstrict_neq\)\+len\(\1\.strict_neq\)==1", txt)) or bool(re.search(r"len\((\w+)\.strict_neq\)\+len\(\1\.nstrict_neq\)==1", txt))
        ck.add("flag can only be lowered", mono, init, a, f"`{short(unparse(a))}`", "a later symmetry must not re-enable counting")
        ck.add("counting needs exactly one unequal position", one, init, a, f"`{short(unparse(a))}`", "with two differing positions `k <= #count{X}` over one of them counts too few/many")
    # init_simple
    simple = ck.func(f"{B}.init_simple")
    tests = [n for n in find_nodes(simple.node, lambda n: isinstance(n, ast.If)) if unparse(n.test).endswith(".nstrict_neq")]  # type: ignore[attr-defined]
    effects = [c for c in attr_calls(simple, "add") if unparse(c.func.value) in ("self._remove_lits", "self._add_lits")]  # type: ignore[attr-defined]
    ck.need(len(effects) >= 2, "init_simple removes != literals and adds < literals")
    if len(tests) == 1:
        it = ck.interp(simple, None, mark_edges={(id(tests[0]), True): "ordered"})
        bad = [c for c in effects if any("ordered" in st.marks for st in it.states(c))]
        anchor = tests[0]
    else:
        # the same test as one expression: flag = not any(sym.nstrict_neq for sym in symmetries)
        it = ck.interp(simple)
        key = canon_expr(f"any(sym.nstrict_neq for sym in {simple.params()[1]})")
        ck.need(any(key in unparse(n) for n in find_nodes(simple.node, lambda n: isinstance(n, (ast.Assign, ast.AnnAssign, ast.If)))), "init_simple tests for order literals")
        bad = [c for c in effects if not it.holds(c, f"not {key}")]
        anchor = effects[0]
    ck.add("`!=` is turned into `<` only if no `<` was needed for the proof", not bad, simple, anchor, f"rewrite reachable although some symmetry used an order literal: {bool(bad)}",
           "with X < Y already required, forcing another order on the same copies can contradict it")
    # the new < literals relate exactly the variables of the removed != literals
    it0 = ck.interp(simple)
    rem = [c for c in effects if unparse(c.func.value) == "self._remove_lits"]  # type: ignore[attr-defined]
    coll = [c for c in attr_calls(simple, "add") if unparse(c.func.value) == "collect"]  # type: ignore[attr-defined]
    ck.need(len(rem) == 1 and len(coll) == 2, "removed literal and its two terms are collected")
    lit = unparse(rem[0].args[0])
    got = {unparse(c.args[0]) for c in coll}
    ck.add("ordered variables are those of the removed != literals", got == {f"{lit}.atom.term", f"{lit}.atom.guards[0].term"} and enclosing_loop(simple, coll[0]) is enclosing_loop(simple, rem[0]), simple, rem[0],
           f"removes `{lit}`, collects {sorted(got)}", "every removed != must be replaced by an order between the same variables")
    org = {st.origin.get(lit, "") for st in it0.states(rem[0])}
    ck.add("only strict (!=) proofs of one position are replaced", all(re.fullmatch(r".+\.strict_neq\[.+\]\[\*\]", o) and ".nstrict_neq" not in o for o in org) and bool(org), simple, rem[0], f"removed literals come from {sorted(org)}", "")
    adds = [c for c in effects if unparse(c.func.value) == "self._add_lits"]  # type: ignore[attr-defined]
    ck.need(len(adds) == 1, "one site adds the order literals")
    new = adds[0].args[0]
    loop_vars = {n.id for lp_ in [enclosing_loop(simple, adds[0])] if lp_ is not None for n in ast.walk(lp_.target) if isinstance(n, ast.Name)}
    txts = {t.replace(" ", "") for t in it0.texts(adds[0], inline_displays(simple, new))}
    txt = next(iter(txts)) if len(txts) == 1 else unparse(new).replace(" ", "")
    m = re.fullmatch(r"Literal\(LOC,Sign\.NoSign,Comparison\((\w+),\[Guard\(ComparisonOperator\.LessThan,(\w+)\)\]\)\)", txt)
    ok = m is not None
    if ok:
        org = {st.origin.get(m.group(1), "") for st in it0.states(adds[0])} | {st.origin.get(m.group(2), "") for st in it0.states(adds[0])}  # type: ignore[union-attr]
        ok = org == {"pairwise(sorted(collect))[*][0]", "pairwise(sorted(collect))[*][1]"}
    ck.add("new literals are `a < b` over consecutive sorted variables", ok, simple, adds[0], f"adds `{short(unparse(new))}`", "a chain a1 < a2 < ... < ak picks exactly one of the k! permutations")


def r_count(ck: Checker) -> None:
    """_create_count: k <= #count{unequal argument : literal}, projected atom keeps the equal arguments"""
    B = f"{CLS}.SymmetryBundle"
    func = ck.func(f"{B}._create_count")
    it = ck.interp(func)
    sym = func.params()[1]
    aggs = resolved_calls(ck.prg, func, "clingo.ast.BodyAggregate")
    ck.need(len(aggs) == 1 and len(aggs[0].args) == 5, "_create_count builds one BodyAggregate(location, left_guard, function, elements, right_guard)")
    agg = aggs[0]
    st = it.states(agg)[0]
    lg = unparse(it.expand(agg.args[1], st)).replace(" ", "")
    ck.add("bound is the group size, as `k <=`", lg == f"Guard(ComparisonOperator.LessEqual,SymbolicTerm(LOC,Number(len({sym}.literals))))", func, agg, f"left guard `{lg}`",
           "k pairwise different copies exist iff at least k different values exist")
    ck.add("aggregate is #count", unparse(agg.args[2]) == "AggregateFunction.Count", func, agg, f"function `{unparse(agg.args[2])}`", "")
    ck.add("no upper bound", is_const(agg.args[4], None), func, agg, f"right guard `{unparse(agg.args[4])}`", "")
    elems = unparse(it.expand(inline_displays(func, agg.args[3]), st)).replace(" ", "")
    ck.add("counted tuple = unequal arguments, condition = first literal of the group", elems == f"[BodyAggregateElement(nsame,[{sym}.literals[0]])]", func, agg, f"elements `{elems}`", "")
    apps = attr_calls(func, "append")
    for c in apps:
        recv = unparse(c.func.value)  # type: ignore[attr-defined]
        arg = unparse(c.args[0]).replace(" ", "")
        stc = it.states(c)[0]
        idx = [n for n, o in stc.origin.items() if re.search(r"\.atom\.symbol\.arguments\)+\[\*\]\[0\]$", o)]
        ck.need(len(idx) == 1, "enumerate over the arguments of the first literal")
        i = idx[0]
        if recv == "nsame":
            ck.guard("counted arguments are the unequal positions", func, c, f"{i} in uneq_positions", "")
        elif recv == "same" and arg == "Variable(LOC,'_')":
            ck.guard("unequal positions are projected away in the domain atom", func, c, f"{i} in uneq_positions", "")
        elif recv == "same":
            ck.guard("equal positions are kept in the domain atom", func, c, f"{i} not in uneq_positions", "the count must be per combination of the equal arguments")
    uneq = [n for n in find_nodes(func.node, lambda n: isinstance(n, (ast.Assign, ast.AnnAssign))) if unparse(getattr(n, "target", None) or n.targets[0]) == "uneq_positions"]  # type: ignore[attr-defined]
    ck.need(len(uneq) == 1, "uneq_positions defined once")
    txt = unparse(uneq[0].value).replace(" ", "")  # type: ignore[attr-defined]
    ck.add("unequal positions = keys of both inequality maps", f"{sym}.strict_neq.keys()" in txt and f"{sym}.nstrict_neq.keys()" in txt, func, uneq[0], f"`{txt}`", "")
    # domain only if it exists
    cd = resolved_calls(ck.prg, func, "ngo.dependency:DomainPredicates.create_domain")
    for c in cd:
        p = unparse(c.args[0])
        ck.guard("domain rules only for predicates that have a domain", func, c, f"self.domain_predicates.has_domain({p})", "create_domain raises RuntimeError otherwise")


def r_scope_args(ck: Checker) -> None:
    """callers hand the complete visible scope and the variables that are global to it"""
    for name, in_agg in (("_process_aggregates", True), ("_process_stm", False)):
        func = ck.func(f"{CLS}.{name}")
        it = ck.interp(func)
        calls = resolved_calls(ck.prg, func, f"ngo.{CLS}.largest_symmetric_group")
        ck.need(len(calls) == 1 and len(calls[0].args) == 4, f"{name} calls largest_symmetric_group(body, global_vars, rest, in_aggregate)")
        call = calls[0]
        stm = func.params()[1]
        body_t = it.texts(call, call.args[0])
        rest_t = {t.replace(" ", "") for t in it.texts(call, call.args[2])}
        if in_agg:
            ok_body = all(re.fullmatch(r"list\(\w+\.condition\)", t) for t in body_t)
            elem = next(iter(body_t))[5:-11] if body_t else "?"
            ok_rest = rest_t == {f"list({elem}.terms)+list({stm}.body)"}
            ck.add("aggregate: the group is searched in one element condition", ok_body and bool(body_t), func, call, f"body argument {sorted(body_t)}", "")
            gv_name = unparse(call.args[1])
            tup = [c for c in attr_calls(func, "update") if unparse(c.func.value) == gv_name and it.reachable(c)]  # type: ignore[attr-defined]
            seen_t = False
            for c in tup:
                a0 = c.args[0]
                if isinstance(a0, ast.Call) and callee_is(ck.prg, func, a0, "ngo.utils.ast:collect_ast") and is_const(a0.args[1], "Variable") and isinstance(a0.args[0], ast.Name):
                    orgs = {st.origin.get(a0.args[0].id, "") for st in it.states(c)}
                    lp_t = enclosing_loop(func, c)
                    okk_t, n_t = every_iteration_reaches(ck, func, lp_t, c, None) if lp_t is not None else (False, 0)
                    if orgs == {f"{elem}.terms[*]"} and okk_t and n_t > 0 and c.lineno < call.lineno:
                        # ... and what was collected is still there at the search: no path re-assigns the set afterwards
                        holder = lp_t if lp_t is not None else enclosing_stmt(func, c)
                        resets = {id(a): "tuple" for a in find_nodes(func.node, lambda q: isinstance(q, (ast.Assign, ast.AnnAssign))) if unparse(getattr(a, "target", None) or a.targets[0]) == gv_name}  # type: ignore[attr-defined]
                        itm = ck.interp(func, None, mark_stmts={id(holder): "tuple"}, clear_marks_at=resets)
                        sts = itm.states(call)
                        if sts and all("tuple" in s.marks for s in sts):
                            seen_t = True
            ck.add("aggregate: the variables of the element's tuple are observed", seen_t, func, call, f"`{gv_name}` receives the variables of every term of `{elem}.terms` before the search: {seen_t}",
                   "the tuple terms handed over in `rest` are bare terms, which the binding analysis ignores: `#sum{1,J1 : p(J1,X), p(J2,X), J1 != J2}` becomes `#sum{1,J1 : __aux(X)}` with an unsafe J1")
            ck.add("aggregate: tuple terms and the whole rule body are visible", ok_rest, func, call, f"rest argument {sorted(rest_t)}; expected list({elem}.terms)+list({stm}.body)",
                   "a compared variable bound or used by ANY body literal (before or after the aggregate) is global and must block the rewrite")
        else:
            ck.add("body: the group is searched in the whole body", body_t == {f"list({stm}.body)"}, func, call, f"body argument {sorted(body_t)}", "")
            ck.add("body: nothing else is in scope", rest_t == {"[]"}, func, call, f"rest argument {sorted(rest_t)}", "", nontrivial=False)
        ck.add("in_aggregate flag", is_const(call.args[3], in_agg), func, call, f"in_aggregate={unparse(call.args[3])}", "inside an aggregate the count must be moved to an auxiliary rule")
        # global vars: head variables for rules, weight/priority/terms for objectives
        gname = unparse(call.args[1])
        rule_pins = Pins.of(vals={f"{stm}.ast_type": "ASTType.Rule"})
        it_r = ck.interp(func, rule_pins)
        gv_r = {t for t in it_r.texts(call, call.args[1])}
        ck.add("rule: head variables are global", gv_r == {f"global_vars_inside_head({stm}.head)"}, func, call, f"for a Rule global_vars = {sorted(gv_r)}", "a compared variable that occurs in the head is observed")
        upd = [c for c in attr_calls(func, "update") if unparse(c.func.value) == gname]  # type: ignore[attr-defined]
        seen = set()
        for c in upd:
            for st in ck.interp(func, Pins.of(vals={f"{stm}.ast_type": "ASTType.Minimize"})).states(c):
                seen |= {o for n, o in st.origin.items() if "weight" in o}
        ok = any(o.replace(" ", "").startswith(f"[{stm}.weight,{stm}.priority,*{stm}.terms]") for o in seen)
        ck.add("objective: weight, priority and tuple variables are global", ok, func, call, f"collected from {sorted(seen)}", "a compared variable in the objective tuple is observed")


def r_apply(ck: Checker) -> None:
    """the rewritten statement keeps its head; removed and added literals come from the bundle"""
    for name in ("_process_aggregates", "_process_stm"):
        func = ck.func(f"{CLS}.{name}")
        it = ck.interp(func)
        stm = func.params()[1]
        for ret in returns_of(func):
            pass
        ups = [c for c in attr_calls(func, "update") if unparse(c.func.value) == stm]  # type: ignore[attr-defined]
        ck.need(len(ups) == 1, f"{name} rebuilds the statement with update(body=...)")
        kws = {kw.arg for kw in ups[0].keywords}
        ck.add("only the body is replaced", kws == {"body"}, func, ups[0], f"update keywords {sorted(kws)}", "C06: heads are kept")


def r_all_equal(ck: Checker) -> None:
    """candidate groups consist of literals of ONE predicate: same name and same arity"""
    func = ck.func("symmetry:SymmetryTranslator._all_equal_symbols")
    it = ck.interp(func)
    ys = [n for n in find_nodes(func.node, lambda n: isinstance(n, ast.Yield)) if n.value is not None]
    ck.need(len(ys) == 1, "_all_equal_symbols yields the groups at one site")
    site = enclosing_stmt(func, ys[0])
    cands = {n.id for n in find_nodes(func.node, lambda n: isinstance(n, ast.Name)) if isinstance(n.ctx, ast.Load)}  # type: ignore[attr-defined]
    lens = [f"len({c}) == 1" for c in sorted(cands) if it.holds(site, f"len({c}) == 1") and not it.holds(site, f"len({c}) == 2")]
    names = {re.fullmatch(r"len\((\w+)\) == 1", k).group(1) for k in lens}  # type: ignore[union-attr]
    good = False
    detail = f"dominating facts {lens}"
    for name in names:
        d = single_def(func, name)
        texts = set()
        if isinstance(d, ast.SetComp):
            texts.add(unparse(d))
        for c in attr_calls(func, "add"):
            if unparse(c.func.value) == name:  # type: ignore[attr-defined]
                lp = enclosing_loop(func, c)
                for t in it.texts(c, c.args[0]):
                    texts.add(f"{{{t} for {unparse(lp.target)} in {unparse(lp.iter)}}}" if lp is not None else t)
        detail = f"`{name}` = {sorted(texts)}"
        if texts and all(re.fullmatch(r"\{Predicate\((\w+)\.atom\.symbol\.name, len\(\1\.atom\.symbol\.arguments\)\) for \1 in (\w+)\}", t) for t in texts):
            good = True
    if not good:
        # the same test written over the literals: all(l.name == first.name and len(l.arguments) == len(first.arguments) for l in group)
        pat = re.compile(r"all\(\((\w+)\.atom\.symbol\.name == (.+?)\.name and len\(\1\.atom\.symbol\.arguments\) == len\(\2\.arguments\) for \1 in (\w+)\)\)")
        for key, val in it.known(site):
            m_ = pat.fullmatch(key)
            if m_ and val is True and m_.group(2).replace(" ", "") in (f"{m_.group(3)}[0].atom.symbol",):
                good, detail = True, f"dominating fact `{short(key, 120)}`"
    ck.add("a group is yielded only if all its literals have the same predicate name AND arity", good, func, site, detail,
           "`assign(X,Z), assign(Y), X != Y` are two different predicates: zip() over their arguments silently truncates and the assign/1 literal disappears from the rule")


RULES = [
    Rule("C11.TABLE.inequalities", P, r_inequalities),
    Rule("C11.unequal-pair", P, r_unequal),
    Rule("C11.all-equal", P, r_all_equal),
    Rule("C11.group", P, r_group, extra={"C03": ("groups do not overlap",)}),
    Rule("C11.crosscheck", P, r_crosscheck),
    Rule("C11.bundle", P, r_bundle),
    Rule("C11.count", P, r_count),
    Rule("C11.scope", P, r_scope_args, extra={"C02": ("objective:",), "C04": ("objective:", "rule: head variables")}),
    Rule("C11.apply", P, r_apply),
]
