"""C05 — with every trait disabled the rewrite is meaning preserving (normal form), DESIGN §4 C05.
Also the equality-substitution helpers of utils/ast.py used by duplication and symmetry (template C)."""

from __future__ import annotations

import ast
import re

from ..core import Checker, Rule, attr_calls, callee_is, calls_in, kwarg, resolved_calls, short
from ..interp import Pins, find_nodes, unparse
from ..model import AnalysisError
from .util import block_of as _block_of, effect_table, enclosing_loop, enclosing_stmt, enum_members, every_iteration_reaches, fmt, inline_displays, is_const, parent, returns_of, same, single_def

P = ("C05", "C01", "C02", "C06", "C08", "C09", "C10", "C11", "C12", "C13", "C14", "C15", "C16")  # pre- and postprocess are part of optimize(P, only <pass>) for every pass
OPS = ["Equal", "NotEqual", "GreaterEqual", "LessEqual", "GreaterThan", "LessThan"]
NEG = {"Equal": "NotEqual", "NotEqual": "Equal", "GreaterEqual": "LessThan", "LessEqual": "GreaterThan", "GreaterThan": "LessEqual", "LessThan": "GreaterEqual"}
CONV = {"Equal": "Equal", "NotEqual": "NotEqual", "GreaterEqual": "LessEqual", "LessEqual": "GreaterEqual", "GreaterThan": "LessThan", "LessThan": "GreaterThan"}
PYOP = {"Equal": ast.Eq, "NotEqual": ast.NotEq, "GreaterEqual": ast.GtE, "LessEqual": ast.LtE, "GreaterThan": ast.Gt, "LessThan": ast.Lt}


def r_operator_tables(ck: Checker) -> None:
    """TABLE: negate_comparison (logical negation), rhs2lhs_comparison (converse), compare (python semantics)"""
    for name, ref, what in (("negate_comparison", NEG, "not (a OP b)  ==  a NEG(OP) b"), ("rhs2lhs_comparison", CONV, "a OP b  ==  b CONV(OP) a")):
        func = ck.func(f"utils.ast:{name}")
        dicts = [n for n in find_nodes(func.node, lambda n: isinstance(n, ast.Dict))]
        ck.need(len(dicts) == 1, f"{name} is a dict-literal table")
        table = {}
        for k, v in zip(dicts[0].keys, dicts[0].values):  # type: ignore[attr-defined]
            table[unparse(k).split(".")[-1]] = unparse(v).split(".")[-1]
        for op in OPS:
            ck.add(f"{name}({op})", table.get(op) == ref[op], func, dicts[0], f"maps {op} to {table.get(op)}, {what} requires {ref[op]}",
                   "guards are moved across aggregates and negated with these tables; one wrong row flips a bound")
        rets = returns_of(func)
        ok = len(rets) == 1 and isinstance(rets[0].value, ast.Subscript) and unparse(rets[0].value.slice) == func.params()[0]
        ck.add(f"{name} looks the argument up", ok, func, func.node, f"`{fmt(rets[0]) if rets else None}`", "", nontrivial=False)
    func = ck.func("utils.ast:compare")
    lhs, cmp_, rhs = func.params()
    for op in OPS:
        it = ck.interp(func, Pins.of(vals={cmp_: f"ComparisonOperator.{op}"}))
        got = set()
        for ret, st in it.returns:
            got.add(ast.dump(ret.value) if ret.value is not None else "None")
        want = ast.dump(ast.Compare(left=ast.Name(lhs, ast.Load()), ops=[PYOP[op]()], comparators=[ast.Name(rhs, ast.Load())]))
        ck.add(f"compare(_, {op}, _)", got == {want}, func, func.node, f"evaluates `{[unparse(r.value) for r, _ in it.returns]}`", "constant comparisons are folded with this function")


def r_bounds_table(ck: Checker) -> None:
    """TABLE remove_unecessary_bounds: a guard is dropped only if it is a tautology for every aggregate function"""
    func = ck.func("normalize:remove_unecessary_bounds.<locals>.replace")
    agg = func.params()[0]
    ups = [c for c in attr_calls(func, "update") if kwarg(c, "left_guard") is not None or kwarg(c, "right_guard") is not None]
    ck.need(len(ups) == 3, "replace() drops the left guard, drops the right guard, or moves a lone right guard to the left")

    def describe(it, site, st) -> str:  # type: ignore[no-untyped-def]
        kws = {kw.arg: unparse(it.expand(kw.value, st)) for kw in site.keywords}
        if kws == {"left_guard": "None"}:
            return "drop-left"
        if kws == {"right_guard": "None"}:
            return "drop-right"
        return "move:" + ",".join(f"{k}={v}" for k, v in sorted(kws.items()))

    taut = {("left", "LessEqual", "Infimum"), ("left", "GreaterEqual", "Supremum"), ("right", "LessEqual", "Supremum"), ("right", "GreaterEqual", "Infimum")}
    for side in ("left", "right"):
        other = "right" if side == "left" else "left"
        g = f"{agg}.{side}_guard"
        for sym in ("Infimum", "Supremum", "'other'"):
            pins = {f"{g}.term.ast_type": "ASTType.SymbolicTerm", f"{g}.term.symbol": sym}
            facts = {g: True, f"{g} is None": False, f"{agg}.{other}_guard": False, f"{agg}.{other}_guard is None": True}
            table = effect_table(ck, func, {f"{g}.comparison": enum_members("ComparisonOperator")}, ups, describe, pins, facts)  # type: ignore[arg-type]
            for (op,), eff in sorted(table.items()):
                o = op.split(".")[1]
                dropped = f"drop-{side}" in eff
                want = (side, o, sym) in taut
                what = f"`{sym.strip(chr(39))} {o} agg`" if side == "left" else f"`agg {o} {sym.strip(chr(39))}`"
                ck.add(f"{side} guard {o} {sym.strip(chr(39))}", dropped == want, func, ups[0 if side == 'left' else 1], f"{what}: dropped={dropped}, tautology={want}",
                       "#max{} = #inf and #min{} = #sup: a strict guard against #inf/#sup tests that the aggregate has an element, only the non-strict ones are vacuous")
    # a lone right guard is moved to the left with the converse operator
    it = ck.interp(func, Pins.of(facts={f"{agg}.left_guard": False, f"{agg}.left_guard is None": True, f"{agg}.right_guard": True, f"{agg}.right_guard is None": False}, vals={f"{agg}.right_guard.term.ast_type": "ASTType.Variable"}))
    moves = set()
    for site in ups:
        for st in it.states(site):
            moves.add(describe(it, site, st).replace(" ", ""))
    want = f"move:left_guard=Guard(rhs2lhs_comparison({agg}.right_guard.comparison),{agg}.right_guard.term),right_guard=None"
    ck.add("lone right guard moves left with the converse operator", moves == {want}, func, ups[2], f"effects {sorted(moves)}", "`agg <= 3` is `3 >= agg`")
    outer = ck.func("normalize:remove_unecessary_bounds")
    calls = resolved_calls(ck.prg, outer, "ngo.utils.ast:transform_ast")
    ok = len(calls) == 1 and is_const(calls[0].args[1], "BodyAggregate")
    ck.add("applied to body aggregates of every statement", ok, outer, outer.node, f"`{fmt(calls[0]) if calls else None}`", "", nontrivial=False)


def r_chain_split(ck: Checker) -> None:
    """comparison chains: one literal per link, under the literal's sign - sound unless the literal is negated"""
    c2l = ck.func("utils.ast:comparison2comparisonlist")
    it = ck.interp(c2l)
    apps = attr_calls(c2l, "append")
    ck.need(len(apps) == 1 and isinstance(apps[0].args[0], ast.Tuple) and len(apps[0].args[0].elts) == 3, "comparison2comparisonlist appends (lhs, op, rhs) triples")
    loop = enclosing_loop(c2l, apps[0])
    ck.need(loop is not None, "in the loop over the guards")
    g = unparse(loop.target)  # type: ignore[union-attr]
    lhs_e, op_e, rhs_e = apps[0].args[0].elts  # type: ignore[attr-defined]
    st = it.states(apps[0])[0]
    ok = unparse(it.expand(op_e, st)) == f"{g}.comparison" and unparse(it.expand(rhs_e, st)) == f"{g}.term"
    ck.add("link = (previous term, guard operator, guard term)", ok, c2l, apps[0], f"appends ({unparse(it.expand(lhs_e, st))}, {unparse(it.expand(op_e, st))}, {unparse(it.expand(rhs_e, st))})", "")
    carry = [n for n in loop.body if isinstance(n, ast.Assign) and unparse(n.targets[0]) == unparse(lhs_e) and n.lineno > apps[0].lineno]  # type: ignore[union-attr]
    ok = len(carry) == 1 and unparse(it.expand(carry[0].value, it.states(carry[0])[0])) == f"{g}.term"
    first = single_def(c2l, unparse(lhs_e))
    init = [n for n in find_nodes(c2l.node, lambda n: isinstance(n, ast.Assign)) if unparse(n.targets[0]) == unparse(lhs_e) and enclosing_loop(c2l, n) is None]  # type: ignore[attr-defined]
    ck.add("each link starts where the previous one ended", ok and len(init) == 1 and unparse(init[0].value) == f"{c2l.params()[0]}.term", c2l, apps[0],  # type: ignore[attr-defined]
           f"loop-carried `{fmt(carry[0]) if carry else None}`, initial `{fmt(init[0]) if init else None}`", "a < b < c is (a<b) and (b<c), not (a<b) and (a<c)")
    for fname, var in (("normalize:normalize_operators", "lit"), ("normalize:_normalize_operators_condition", "c")):
        func = ck.func(fname)
        itf = ck.interp(func)
        lits = resolved_calls(ck.prg, func, "clingo.ast.Literal")
        ck.need(len(lits) == 1, f"{fname} builds the split literals at one site")
        site = lits[0]
        src = None
        for anc_loop in find_nodes(func.node, lambda n: isinstance(n, ast.For)):
            if any(x is site for x in ast.walk(anc_loop)):
                src = unparse(anc_loop.target)  # type: ignore[attr-defined]
                break
        ck.need(src is not None, "split happens in the loop over the literals")
        comp = [n for n in find_nodes(func.node, lambda n: isinstance(n, (ast.For, ast.ListComp))) if any(x is site for x in ast.walk(n)) and "comparison2comparisonlist(" in unparse(n.iter if isinstance(n, ast.For) else n.generators[0].iter)]
        ck.need(len(comp) == 1, "one literal per link (loop over comparison2comparisonlist)")
        txts = sorted({t.replace(" ", "") for t in itf.texts(site, site)}) or [unparse(site).replace(" ", "")]  # aliases of an inlined helper resolved
        txt = txts[0]
        m = re.fullmatch(r"Literal\(LOC,(\w+)\.sign,Comparison\((\w+),\[Guard\((\w+),(\w+)\)\]\)\)", txt) if len(txts) == 1 else None
        tg = comp[0] if isinstance(comp[0], ast.For) else comp[0].generators[0]  # type: ignore[attr-defined]
        ok = m is not None and m.group(1) == src and [m.group(2), m.group(3), m.group(4)] == [unparse(e) for e in tg.target.elts] and "comparison2comparisonlist(" in unparse(tg.iter)
        ck.add("every link becomes `sign (lhs op rhs)`", ok, func, site, f"`{txt}` for {unparse(tg.target)} in {unparse(tg.iter)}", "")
        stmt = enclosing_stmt(func, site)
        okn = itf.holds(stmt, f"{src}.sign != Sign.Negation") or itf.holds(stmt, f"len({src}.atom.guards) == 1")
        ck.add("a negated chain is not split", okn, func, site, f"split dominated by `{src}.sign != Sign.Negation` or a single-link test: {okn}",
               "`not 1 < X < 5` is `X <= 1 or X >= 5`; `not 1 < X; not X < 5` is `X <= 1 and X >= 5` (never true)", rule="C05.TABLE.negated-chain")


def r_equality_table(ck: Checker) -> None:
    """TABLE _equality (C1) + side conditions C3, C5; occurs check C2"""
    func = ck.func("normalize:_equality")
    lit = func.params()[0]
    tuples = [r for r in returns_of(func) if isinstance(r.value, ast.Tuple)]
    ck.need(len(tuples) == 2, "_equality returns (var, rest) for `X = t` and for `t = X`")
    it = ck.interp(func)
    for i, ret in enumerate(tuples):
        side = "left" if i == 0 else "right"
        var_e, rest_e = ret.value.elts  # type: ignore[union-attr]
        vt, rt = it.texts(ret, var_e), it.texts(ret, rest_e)
        want = ({f"{lit}.atom.term"}, {f"{lit}.atom.guards[0].term"}) if side == "left" else ({f"{lit}.atom.guards[0].term"}, {f"{lit}.atom.term"})
        ck.add(f"{side}: returns (variable side, other side)", (vt, rt) == want, func, ret, f"returns ({sorted(vt)}, {sorted(rt)})", "")
        v = next(iter(vt)) if vt else "?"
        r = next(iter(rt)) if rt else "?"
        ck.guard(f"{side}: C1 is a comparison literal", func, ret, f"is_comparison({lit})", "")
        ck.guard(f"{side}: C1 really an equality", func, ret,
                 f"({lit}.atom.guards[0].comparison == ComparisonOperator.Equal and {lit}.sign == Sign.NoSign) or ({lit}.atom.guards[0].comparison == ComparisonOperator.NotEqual and {lit}.sign == Sign.Negation)",
                 "only `X = t` and `not X != t` allow replacing X by t")
        ck.guard(f"{side}: single link", func, ret, f"len({lit}.atom.guards) == 1", "X = t = u is two equalities")
        ck.guard(f"{side}: substituted side is a variable", func, ret, f"{v}.ast_type == ASTType.Variable", "")
        ck.guard(f"{side}: C5 not the anonymous variable", func, ret, f"{v}.name != '_'", "each `_` is a different variable")
        c3 = [k for k, val in it.known(ret) if val is False and k in (f"collect_ast({lit}, 'Pool')", f"collect_ast({lit}, 'Interval')")]
        ck.add(f"{side}: C3 no pool / interval in the literal", len(c3) == 2, func, ret, f"dominating facts {c3}", "X = 1..3 is a generator, not an equality: substituting it into a negative literal or twice changes the meaning")
        occ = [k for k, val in it.known(ret) if re.search(r"(not in|in) .*collect_ast\(", k)]
        occ_ok = it.holds(ret, f"{v} not in collect_ast({r}, 'Variable')")
        ck.add(f"{side}: C2 occurs check", occ_ok, func, ret, f"dominated by `{v} not in collect_ast({r}, 'Variable')`: {occ_ok}",
               "`X = X+1` has no solution and `X = f(X)` none either: substituting and dropping the equality makes the rule fire", rule="C05.C2.occurs-check")
    # full sign x operator table: when may a tuple be returned at all
    for sign in enum_members("Sign"):
        for op in enum_members("ComparisonOperator"):
            pins = Pins.of(vals={f"{lit}.sign": sign, f"{lit}.atom.guards[0].comparison": op})
            itp = ck.interp(func, pins)
            some = any(itp.reachable(r) for r in tuples)
            want = (sign, op) in (("Sign.NoSign", "ComparisonOperator.Equal"), ("Sign.Negation", "ComparisonOperator.NotEqual"))
            ck.add(f"({sign.split('.')[1]}, {op.split('.')[1]})", some == want, func, func.node, f"may return an equality: {some}, valid: {want}", "C1 table")


def r_local_only(ck: Checker) -> None:
    """C4: inside aggregates and conditional literals only LOCAL variables are substituted"""
    for name, caller in (("inline_aggregate", "inline_aggregates"), ("inline_conditional", "inline_conditionals")):
        func = ck.func(f"normalize:{name}")
        it = ck.interp(func)
        glob = func.params()[1]
        calls = resolved_calls(ck.prg, func, "ngo.normalize:inline_replace_stms", "ngo.normalize:inline_replace_stm")
        ck.need(len(calls) >= 2, f"{name} substitutes in conditions and terms/literal")
        for call in calls:
            var = unparse(call.args[1])
            txt = it.texts(call, call.args[1])
            ok = all(t.startswith("_equality(") and t.endswith("[0]") for t in txt)
            ck.add(f"{name}: substituted variable comes from _equality", ok and bool(txt), func, call, f"variable `{sorted(txt)}`", "", nontrivial=False)
            ck.guard(f"{name}: only a local variable is substituted", func, call, f"{var} not in {glob}",
                     "a global variable links the condition to the rest of the rule: inlining `X = Y+1` with global X inside `r(Y) : s(Y), X = Y+1` drops the link")
            ck.guard(f"{name}: only for a found equality", func, call, f"{unparse(call.args[1]).split('[')[0] if False else '_equality(' + 'c' + ')'} is not None", "")
        if name == "inline_aggregate":
            outer = [lp for lp in find_nodes(func.node, lambda n: isinstance(n, ast.For)) if enclosing_loop(func, lp) is None]
            ck.need(len(outer) >= 1 and isinstance(outer[0].target, ast.Name), "inline_aggregate searches the elements for an equality")
            elem = outer[0].target.id  # type: ignore[union-attr]
            for call in calls:
                src = {t for t in it.texts(call, call.args[0])}
                ok_src = all(re.search(rf"\b{elem}\.(condition|terms)\b", t) and not re.search(r"\b(?!%s\b)\w+\.(condition|terms)\b" % elem, t) for t in src) and bool(src)
                ck.add("inline_aggregate: the substitution is applied to the element that contains the equality", ok_src, func, call, f"substitutes in {sorted(src)}; the equality was found in `{elem}`",
                       "variables of aggregate elements are local to their element: a sibling element that happens to use the same name must not be rewritten")
            ups = [c for c in attr_calls(func, "update") if kwarg(c, "condition") is not None and kwarg(c, "terms") is not None]
            ck.need(len(ups) == 1, "the rewritten element is built at one site")
            recv = unparse(ups[0].func.value)  # type: ignore[attr-defined]
            same_elem = it.holds(ups[0], f"{recv} == {elem}")
            ck.add("inline_aggregate: only that element is replaced", same_elem, func, ups[0], f"`{short(unparse(ups[0]), 80)}` dominated by `{recv} == {elem}`: {same_elem}", "all other elements are copied unchanged")
        cf = ck.func(f"normalize:{caller}")
        ccalls = resolved_calls(ck.prg, cf, f"ngo.normalize:{name}", into_nested=True)
        ck.need(len(ccalls) == 1, f"{caller} calls {name}")
        stm = cf.params()[0]
        g = unparse(ccalls[0].args[1])
        itg = ck.interp(cf)
        gtexts = itg.texts(ccalls[0], ccalls[0].args[1]) or {g}
        ck.add(f"{caller}: globals = all variables visible in the body", gtexts == {f"global_vars_inside_body({stm}.body)"}, cf, ccalls[0], f"globals argument `{g}` = {sorted(gtexts)}",
               "the set must contain bound AND unbound global variables (a variable bound through `slot(2*X)` is global although ngo's binder analysis calls it unbound)")
        itc = ck.interp(cf)
        ck.guard(f"{caller}: only rules and objectives", cf, ccalls[0], f"{stm}.ast_type in (ASTType.Rule, ASTType.Minimize)", "")


def r_inline_rule(ck: Checker) -> None:
    """C6: the equality is substituted in every term child of the statement and removed from the body"""
    func = ck.func("normalize:inline_rule")
    it = ck.interp(func)
    stm = func.params()[0]
    ups = [c for c in attr_calls(func, "update")]
    kws = set()
    for c in ups:
        for kw in c.keywords:
            val = unparse(kw.value)
            kws.add(kw.arg)
    ck.add("head, weight, priority, terms and body are all rewritten", kws >= {"body", "head", "weight", "priority", "terms"}, func, func.node, f"update keywords {sorted(k for k in kws if k)}",
           "a term child that keeps the variable after its defining equality is deleted becomes unsafe or changes value")
    for c in ups:
        for kw in c.keywords:
            if kw.arg in ("head", "weight", "priority"):
                txt = unparse(kw.value).replace(" ", "")
                ok = bool(re.fullmatch(r"inline_replace_stm\(" + re.escape(stm) + r"\." + kw.arg + r",var,rest\)", txt))
                ck.add(f"{kw.arg} := {kw.arg}[var := rest]", ok, func, c, f"`{txt}`", "")
    nb = single_def(func, "new_body")
    ok = nb is not None and same(unparse(nb), f"inline_replace_stms([x for x in {stm}.body if x != blit], var, rest)")
    ck.add("body := (body without the equality)[var := rest]", ok, func, func.node, f"new_body = `{unparse(nb) if nb is not None else None}`", "")
    # the side conditions hold where the substitution starts (whether the equality was found by a loop with break or by a
    # search helper that returns it)
    starts = [n for n in find_nodes(func.node, lambda n: isinstance(n, (ast.Assign, ast.AnnAssign))) if unparse(getattr(n, "target", None) or n.targets[0]) == "new_body"]  # type: ignore[attr-defined]
    brk = [n for n in find_nodes(func.node, lambda n: isinstance(n, ast.Break))]
    site = brk[0] if len(brk) == 1 else (starts[0] if len(starts) == 1 else None)
    ck.need(site is not None, "the substitution starts at one site")
    ck.guard("the variable is used elsewhere", func, site, f"1 < [x.name for x in collect_ast({stm}, 'Variable')].count(_equality(blit)[0].name)", "an equality whose variable occurs nowhere else is a test, not a definition")  # type: ignore[arg-type]
    ck.guard("only rules and objectives", func, site, f"{stm}.ast_type in (ASTType.Rule, ASTType.Minimize)", "")  # type: ignore[arg-type]


def r_aggregate_conversion(ck: Checker) -> None:
    """#count -> #sum+ with weight 1; old style {..} -> #sum with tagged tuples"""
    func = ck.func("normalize:_convert_count_to_sum")
    it = ck.interp(func)
    ups = [c for c in attr_calls(func, "update")]
    fun = [kwarg(c, "function") for c in ups if kwarg(c, "function") is not None]
    ck.add("#count becomes #sum+", len(fun) == 1 and unparse(fun[0]) == "AggregateFunction.SumPlus", func, func.node, f"function={unparse(fun[0]) if fun else None}", "")
    terms = [kwarg(c, "terms") for c in ups if kwarg(c, "terms") is not None]
    ck.need(len(terms) == 1, "element terms rebuilt once")
    t = terms[0]
    c0 = [c for c in ups if kwarg(c, "terms") is t][0]
    txt = unparse(it.expand(inline_displays(func, t), it.states(c0)[0])).replace(" ", "")
    ok = bool(re.fullmatch(r"\[SymbolicTerm\(LOC,Number\(1\)\),\*(\w+)\.terms\]", txt))
    ck.add("new tuple = (1, old tuple)", ok, func, c0, f"terms `{txt}`", "every distinct old tuple must count exactly 1 and stay distinct")
    func = ck.func("normalize:_convert_old_agg")
    it = ck.interp(func)
    aggs = resolved_calls(ck.prg, func, "clingo.ast.BodyAggregate")
    ck.need(len(aggs) == 1 and len(aggs[0].args) == 5, "_convert_old_agg builds one BodyAggregate")
    a = aggs[0]
    p0 = func.params()[0]
    ok = unparse(a.args[1]) == f"{p0}.left_guard" and unparse(a.args[4]) == f"{p0}.right_guard" and unparse(a.args[2]) == "AggregateFunction.Sum"
    ck.add("guards kept, function #sum", ok, func, a, f"`{fmt(a)}`", "")
    els = resolved_calls(ck.prg, func, "clingo.ast.BodyAggregateElement")
    ck.need(len(els) == 1, "one element per old element")
    e = els[0]
    cond = unparse(e.args[1]).replace(" ", "")
    ck.add("condition = literal + old condition", bool(re.fullmatch(r"\[new_literal,\*(\w+)\.condition\]", cond)), func, e, f"condition `{cond}`", "")
    apps = [c for c in attr_calls(func, "append") if unparse(c.func.value) == "terms"]  # type: ignore[attr-defined]
    firsts = [unparse(c.args[0]).replace(" ", "") for c in apps[:2]]
    ck.add("tuple starts with weight 1 and the sign tag", firsts[:1] == ["SymbolicTerm(LOC,Number(1))"] and len(firsts) == 2 and "nm[" in firsts[1] and ".sign]" in firsts[1], func, e, f"first terms {firsts}",
           "`{a; not a}` has two elements: the sign tag keeps their tuples apart")
    # comparison elements: clingo counts distinct ground comparison LITERALS, so the tuple carries exactly its variables
    itc = ck.interp(func, Pins.of(vals={"atom.ast_type": "ASTType.Comparison"}))
    exts = [c for c in attr_calls(func, "extend") if unparse(c.func.value) == "terms" and itc.reachable(c)]  # type: ignore[attr-defined]
    ck.need(len(exts) == 1, "variables of a comparison element are appended to the tuple at one site")
    arg = exts[0].args[0]
    inner = arg.args[0] if isinstance(arg, ast.Call) and unparse(arg.func) == "sorted" and arg.args else arg
    what = None
    if isinstance(inner, ast.Call) and callee_is(ck.prg, func, inner, "ngo.utils.ast:collect_ast") and len(inner.args) == 2 and is_const(inner.args[1], "Variable"):
        src = inner.args[0]
        if isinstance(src, ast.Name):
            d0 = single_def(func, src.id)
            what = unparse(d0) if d0 is not None else src.id
        else:
            what = unparse(src)
    lp = enclosing_loop(func, exts[0])
    lv = unparse(lp.target) if lp is not None else "?"
    ck.add("comparison element: the tuple carries the variables of the comparison literal, sorted", what == f"{lv}.literal.atom" and isinstance(arg, ast.Call) and unparse(arg.func) == "sorted", func, exts[0],
           f"`{fmt(exts[0])}` collects the variables of `{what}`", "`{ S < 3 : assign(T,S) }` counts distinct S, not distinct (T,S): variables that occur only in the condition must stay out of the tuple; sorted() keeps the output reproducible")
    # intervals in the literal part: every occurrence stands for its own choice of value
    ri = ck.func("normalize:_exline_interval.<locals>.replace_interval")
    iti = ck.interp(ri)
    rets = [(r, st) for r, st in iti.returns if r.value is not None]
    ck.need(len(rets) >= 1, "replace_interval returns the replacement")
    fresh = all(iti.text(r.value, st) == "unique_vars.make_unique(AUX_VAR)" for r, st in rets)
    ck.add("every interval occurrence gets its own fresh variable", fresh and len({id(r) for r, _ in rets}) == 1, ri, rets[0][0], f"returns {sorted({iti.text(r.value, st) for r, st in rets})}",
           "`3 { mark(1..2,1..2) }` ranges over the 2x2 block: sharing one variable between equal intervals keeps only the diagonal")
    lits_i = resolved_calls(ck.prg, ri, "clingo.ast.Literal")
    oki = len(lits_i) == 1 and same(unparse(lits_i[0]), f"Literal(LOC, Sign.NoSign, Comparison(aux, [Guard(ComparisonOperator.Equal, {ri.params()[0]})]))")
    reach_all, n_r = (True, 1)
    ck.add("... defined by a positive `AUX = interval` in the element's condition", oki, ri, lits_i[0] if lits_i else ri.node, f"`{fmt(lits_i[0]) if lits_i else None}`", "")
    mk = resolved_calls(ck.prg, func, "ngo.utils.globals:UniqueVariables.make_unique", into_nested=True)
    ck.add("anonymous variables of positive literals become fresh variables", len(mk) >= 1, func, func.node, f"make_unique calls {len(mk)}", "`{p(_)}` counts distinct p atoms: each `_` must become its own tuple variable")
    # ... EACH occurrence its own: the fresh variable is asked for inside the callback that transform_ast runs per variable
    # node (a nested function / lambda of the variable), not computed once and handed to a renaming
    per_occurrence = []
    for nested in [f for q, f in ck.prg.funcs.items() if q.startswith(func.qualname + ".<locals>.")]:
        calls_n = resolved_calls(ck.prg, nested, "ngo.utils.globals:UniqueVariables.make_unique")
        if calls_n and nested.params():
            itn = ck.interp(nested)
            v = nested.params()[0]
            per_occurrence += [c for c in calls_n if itn.holds(c, f"{v}.name == '_'")]
    ck.add("every occurrence of `_` gets its own fresh variable", len(per_occurrence) >= 1 and len(per_occurrence) == len(mk), func, mk[0] if mk else func.node,
           f"{len(per_occurrence)} of {len(mk)} make_unique call(s) sit in a per-variable callback guarded by `name == '_'`",
           "`2 { edge(_,_) }` counts distinct edges: one shared fresh variable turns it into `edge(A,A)`")
    # the atom copied into the tuple must not carry `_` at ANY depth (a `_` in a tuple is a fresh unbound variable for gringo:
    # `1 { not p(f(_)) }` becomes unsafe): the replacement walks the whole term with transform_ast
    its = ck.interp(func, Pins.of(vals={"atom.ast_type": "ASTType.SymbolicAtom"}))
    sym_apps = [c for c in apps if its.reachable(c) and not itc.reachable(c)]
    ck.need(len(sym_apps) == 1, "the atom of a symbolic element is appended to the tuple at one site")
    val: ast.AST = sym_apps[0].args[0]
    holder = func
    for _ in range(3):
        if isinstance(val, ast.Call) and not callee_is(ck.prg, holder, val, "ngo.utils.ast:transform_ast"):
            tgt = ck.prg.funcs.get(ck.prg.resolve_callee(holder, val.func) or "")
            rets_h = [r for r in returns_of(tgt)] if tgt is not None else []
            if tgt is None or len(rets_h) != 1 or rets_h[0].value is None:
                break
            holder, val = tgt, rets_h[0].value
    deep = isinstance(val, ast.Call) and callee_is(ck.prg, holder, val, "ngo.utils.ast:transform_ast") and len(val.args) == 3 and is_const(val.args[1], "Variable")
    cb_txt = ""
    if deep:
        cb = val.args[2]  # type: ignore[attr-defined]
        cb_txt = unparse(cb)
        if isinstance(cb, ast.Name):
            nested = [f for q, f in ck.prg.funcs.items() if q.startswith(holder.qualname + ".<locals>.") and f.name == cb.id]
            cb_txt = unparse(nested[0].node) if nested else cb_txt
    ck.add("anonymous variables at every depth of the atom are replaced before it enters the tuple", bool(deep) and "'_'" in cb_txt and "make_unique" not in cb_txt, func, sym_apps[0],
           f"tuple term `{short(unparse(val), 110)}`", "`_` below the top argument level (`not p(f(_))`) stays in the tuple otherwise: the produced aggregate is unsafe although the source is safe")
    ro = ck.func("normalize:replace_old_aggregates")
    itr = ck.interp(ro)
    sites: dict[int, ast.Call] = {}
    for callee, cond in (("_convert_old_agg", "{b}.ast_type == ASTType.Literal and {b}.atom.ast_type == ASTType.Aggregate"),
                         ("_convert_count_to_sum", "{b}.ast_type == ASTType.Literal and {b}.atom.ast_type == ASTType.BodyAggregate and {b}.atom.function == AggregateFunction.Count")):
        cs = resolved_calls(ck.prg, ro, f"ngo.normalize:{callee}")
        if not cs and not ck.prg.has_func(f"normalize:{callee}") and callee == "_convert_count_to_sum":
            # the helper was folded into its caller: the rebuilt aggregate is the site, its receiver the converted atom
            cs = [ast.Call(func=ast.Name("folded", ast.Load()), args=[c.func.value], keywords=[]) for c in attr_calls(ro, "update") if kwarg(c, "function") is not None]  # type: ignore[attr-defined]
            for fake, real in zip(cs, [c for c in attr_calls(ro, "update") if kwarg(c, "function") is not None]):
                sites[id(fake)] = real
        ck.need(len(cs) == 1, f"replace_old_aggregates calls {callee}")
        b = unparse(cs[0].args[0]).removesuffix(".atom")
        cs = [sites.get(id(cs[0]), cs[0])]
        ck.guard(f"{callee} only for its own kind", ro, cs[0], cond.format(b=b), "")


def r_one_link(ck: Checker) -> None:
    """guards that are taken over from elsewhere (bounds of an aggregate, links of a chain) are attached one comparison
    each; only a chain whose guards are all built in place (`P < B < N`, `l <= mid <= r`) may have several links"""
    n = 0
    for func in ck.prg.funcs.values():
        for call in resolved_calls(ck.prg, func, "clingo.ast.Comparison"):
            n += 1
            guards = call.args[1] if len(call.args) >= 2 else kwarg(call, "guards")
            display = isinstance(guards, (ast.List, ast.Tuple)) and not any(isinstance(e, ast.Starred) for e in guards.elts)
            built = display and all(isinstance(e, ast.Call) and unparse(e.func) == "Guard" for e in guards.elts)  # type: ignore[union-attr]
            ok = display and (len(guards.elts) == 1 or built)  # type: ignore[union-attr]
            ck.add(f"Comparison built in {func.name}: guards taken over from elsewhere are attached one by one", ok, func, call, f"guards `{short(unparse(guards) if guards is not None else 'None', 70)}`",
                   "guards of a chain relate NEIGHBOURING terms: attaching the two bounds of `2 < #max{..} <= 4` to the result as `V > 2 <= 4` means `V > 2, 2 <= 4`", rule="C05.one-link")
    ck.need(n >= 10, f"Comparison constructor calls found ({n})")


def r_chain_places(ck: Checker) -> None:
    """comparison chains are split wherever a later pass can meet them: bodies, conditions of body conditional literals
    and aggregate elements, and the conditions of head elements (domain rules copy those into rule bodies)"""
    ec = ck.func("normalize:expand_comparisons")
    stm = ec.params()[0]
    it = ck.interp(ec, Pins.of(vals={f"{stm}.ast_type": "ASTType.Rule"}))
    ups = [c for c in attr_calls(ec, "update") if unparse(c.func.value) == stm and it.reachable(c)]  # type: ignore[attr-defined]
    ck.need(len(ups) >= 1, "expand_comparisons rebuilds rules with update(...)")
    head_kw = [kwarg(c, "head") for c in ups if kwarg(c, "head") is not None]
    helper = None
    if head_kw and isinstance(head_kw[0], ast.Call):
        helper = ck.prg.funcs.get(ck.prg.resolve_callee(ec, head_kw[0].func) or "")
    for kind, cond in (("Aggregate", "condition"), ("Disjunction", "condition"), ("HeadAggregate", "condition.condition")):
        ok = False
        detail = "the head of a rule is not touched by expand_comparisons"
        if helper is not None:
            h = helper.params()[0]
            ith = ck.interp(helper, Pins.of(vals={f"{h}.ast_type": f"ASTType.{kind}"}))
            calls = [c for c in resolved_calls(ck.prg, helper, "ngo.normalize:_normalize_operators_condition") if ith.reachable(c)]
            args = {unparse(c.args[0]) for c in calls}
            orgs = {st.origin.get(unparse(c.args[0]).split(".")[0], "") for c in calls for st in ith.states(c)}
            ok = bool(calls) and all(a.endswith("." + cond) and not a.endswith(".condition." + cond) for a in args) and orgs == {f"{h}.elements[*]"}
            detail = f"for a {kind} head _normalize_operators_condition is applied to {sorted(args)} of {sorted(orgs)}"
        ck.add(f"chains in the conditions of {kind} head elements are split", ok, ec, ups[0], detail,
               "`{ p(X,Y) : d(X), d(Y), 1 < X < Y }.`: DomainPredicates copies the condition into the body of __dom_p, where symmetry asserts one-link comparisons (AssertionError) and math / cleanup read guards[0] only")


def r_one_link_out(ck: Checker) -> None:
    """no comparison literal leaves the two splitting loops with more than one link, whatever its sign: later passes read
    guards[0] only, and symmetry asserts len(guards) == 1"""
    for fname in ("normalize:normalize_operators", "normalize:_normalize_operators_condition"):
        func = ck.func(fname)
        loops = [lp for lp in find_nodes(func.node, lambda n: isinstance(n, ast.For)) if enclosing_loop(func, lp) is None and unparse(lp.iter) == func.params()[0]]
        ck.need(len(loops) == 1 and isinstance(loops[0].target, ast.Name), f"{fname} loops over its literals")
        var = loops[0].target.id  # type: ignore[attr-defined]
        inside = {id(x) for x in ast.walk(loops[0])}
        outs = [c for c in attr_calls(func, "append") + attr_calls(func, "extend") if id(c) in inside and unparse(c.func.value).startswith("new_")]  # type: ignore[attr-defined]
        ck.need(len(outs) >= 2, "literals are emitted in the loop")
        n = 0
        for sign in enum_members("Sign"):
            it = ck.interp(func, Pins.of(vals={f"{var}.ast_type": "ASTType.Literal", f"{var}.atom.ast_type": "ASTType.Comparison", f"{var}.sign": sign}))
            for out in outs:
                if not it.reachable(out):
                    continue
                n += 1
                arg = it.texts(out, out.args[0])
                inner = enclosing_loop(func, out)
                src = unparse(inner.iter) if inner is not None and inner is not loops[0] else " ".join(sorted(arg))  # type: ignore[union-attr]
                split = "comparison2comparisonlist(" in src and all(re.search(r"Comparison\(\w+,\[Guard\(\w+,\w+\)\]\)", t.replace(" ", "")) for t in arg) and bool(arg)
                single = it.holds(out, f"len({var}.atom.guards) == 1")
                ck.add(f"a {sign.split('.')[1]} comparison leaves with one link per literal", split or single, func, out,
                       f"a comparison literal with sign {sign} reaches `{short(unparse(out), 70)}`: one literal per link: {split}; dominated by a single-link test: {single}",
                       "`not 3 <= P <= 7` in an element condition: symmetry asserts `len(lit.atom.guards) == 1` for every comparison it meets (AssertionError), math and cleanup read guards[0] only")
        ck.need(n >= 3, "comparison literals reach an emission site")


def r_shape_predicates(ck: Checker) -> None:
    """TABLE the four shape tests every pass guards its steps with: (node kind, atom kind, symbol kind) -> answer.
    The side-condition rules of the passes reason with `is_predicate(x)` as a fact; what that fact MEANS is decided here."""
    rows = 0
    atom_kinds = ["SymbolicAtom", "Comparison", "BodyAggregate", "Aggregate", "BooleanConstant", "TheoryAtom"]
    for name, want in (
        ("is_predicate", lambda k, a, s_: k == "Literal" and a == "SymbolicAtom" and s_ == "Function"),
        ("is_comparison", lambda k, a, s_: k == "Literal" and a == "Comparison"),
        ("is_body_aggregate", lambda k, a, s_: k == "Literal" and a == "BodyAggregate"),
        ("is_conditional", lambda k, a, s_: k == "ConditionalLiteral"),
    ):
        func = ck.func(f"utils.ast:{name}")
        p0 = func.params()[0]
        for kind in ("Literal", "ConditionalLiteral"):
            for atom in (atom_kinds if kind == "Literal" else ["-"]):
                for sym in (("Function", "UnaryOperation", "Pool") if atom == "SymbolicAtom" and name == "is_predicate" else ("-",)):
                    vals = {f"{p0}.ast_type": f"ASTType.{kind}"}
                    if atom != "-":
                        vals[f"{p0}.atom.ast_type"] = f"ASTType.{atom}"
                    if sym != "-":
                        vals[f"{p0}.atom.symbol.ast_type"] = f"ASTType.{sym}"
                    it = ck.interp(func, Pins.of(vals=vals))
                    truths = it.return_truths()
                    exp = bool(want(kind, atom, sym))
                    rows += 1
                    ck.add(f"{name}({kind}{'/' + atom if atom != '-' else ''}{'/' + sym if sym != '-' else ''})", truths == {exp}, func, func.node, f"answers {sorted(map(str, truths))}, expected {exp}",
                           "`is_predicate` is the guard under which passes read `.atom.symbol.name/.arguments` and treat a literal as a plain atom of a predicate: true for a classically negated atom (`-p(X)`, a UnaryOperation symbol) or a pool it makes them crash or treat `-p` as `p`; the other three decide which branch of every body scan a literal takes")
    ck.notes["C05.shape.rows"] = rows
    # the two views of the variables of a body: bound only / everything that is global (bound or not)
    cb = ck.func("utils.ast:collect_bound_variables")
    gv = ck.func("utils.ast:global_vars_inside_body")
    rb = [r for r in returns_of(cb) if r.value is not None]
    rg = [r for r in returns_of(gv) if r.value is not None]
    ck.add("collect_bound_variables = the bound half of the binding analysis", len(rb) == 1 and same(unparse(rb[0].value), f"collect_binding_information_body({cb.params()[0]})[0]"), cb, cb.node, f"`{fmt(rb[0]) if rb else None}`", "")
    okg = len(rg) == 1 and (same(unparse(rg[0].value), f"set.union(*collect_binding_information_body({gv.params()[0]}))") or same(unparse(rg[0].value), f"collect_binding_information_body({gv.params()[0]})[0] | collect_binding_information_body({gv.params()[0]})[1]"))
    ck.add("global_vars_inside_body = bound AND unbound global variables", okg, gv, gv.node, f"`{fmt(rg[0]) if rg else None}`",
           "a variable bound through `slot(2*X)` is global for gringo although ngo's binder analysis lists it as unbound: every 'is this variable local?' test needs both halves")


def r_replace_stms(ck: Checker) -> None:
    """inline_replace_stms is a map: one result per given literal / term, position by position (it is also applied to the
    term tuples of aggregate elements, where a dropped duplicate changes which tuples coincide)"""
    func = ck.func("normalize:inline_replace_stms")
    lits, var, new = func.params()[:3]
    rets = [r for r in returns_of(func) if r.value is not None]
    ck.need(len(rets) == 1, "inline_replace_stms returns its result at one site")
    ret = rets[0]
    val = single_def(func, ret.value.id) if isinstance(ret.value, ast.Name) else ret.value  # an accumulating loop reads as its comprehension
    how = f"returns `{short(unparse(val), 110) if val is not None else 'a list built in several steps'}`"
    ok = val is not None and same(unparse(val), f"[inline_replace_stm(x, {var}, {new}) for x in {lits}]")
    ck.add("one result per element, in order, nothing dropped or merged", ok, func, ret, how,
           "inline_aggregate sends the TERM TUPLE of an element through this helper: after `W = I` is inlined the tuple `W,I` reads `I,I`; dropping the duplicate makes it `I`, which coincides with another element's tuple, and the sum loses a summand")


def block_of_stmt(func, stmt):  # type: ignore[no-untyped-def]
    return _block_of(func, stmt) or []


def r_replace_stm(ck: Checker) -> None:
    """inline_replace_stm substitutes the variable in the WHOLE node it is given, whatever kind that node has"""
    func = ck.func("normalize:inline_replace_stm")
    it = ck.interp(func)
    lit, var, new = func.params()[:3]
    rets = [(r, st) for r, st in it.returns if r.value is not None]
    txts = {it.text(r.value, st) for r, st in rets}
    ok = bool(rets) and all(re.fullmatch(rf"transform_ast\({lit}, 'Variable', \w+\)", t) for t in txts)
    ck.add("the substitution reaches every variable occurrence of the node (no node kind is passed through)", ok, func, rets[0][0] if rets else func.node, f"returns {sorted(txts)}",
           "inline_rule removes the assignment `E = B+1` from the body because E was substituted everywhere: a conditional literal `u(X) : e(X,E)` that is handed back unchanged keeps an E that nothing binds any more (it silently becomes local, or the rule unsafe)")
    cb = [f for q, f in ck.prg.funcs.items() if q.startswith(func.qualname + ".<locals>.")]
    okc = False
    for f_ in cb:
        itc = ck.interp(f_)
        o = f_.params()[0]
        vals = {(itc.text(r.value, st), itc.holds(r, f"{o} == {var}")) for r, st in itc.returns if r.value is not None}
        okc = okc or vals == {(new, True), (o, False)}
    ck.add("a variable is replaced iff it IS the inlined variable", okc or not cb, func, func.node, f"callback decides by `orig == {var}`: {okc}", "")


def r_exline(ck: Checker) -> None:
    func = ck.func("normalize:exline_term")
    it = ck.interp(func)
    term, uv = func.params()[:2]
    mk = resolved_calls(ck.prg, func, "ngo.utils.globals:UniqueVariables.make_unique")
    ck.need(len(mk) == 1, "exline_term asks for a fresh variable")
    ck.guard("only arithmetic terms are moved out", func, mk[0], f"{term}.ast_type in (ASTType.BinaryOperation, ASTType.UnaryOperation)", "")
    ck.add("fresh variable derived from AUX", unparse(mk[0].args[0]) == "AUX_VAR", func, mk[0], f"make_unique({unparse(mk[0].args[0])})", "")
    lits = resolved_calls(ck.prg, func, "clingo.ast.Literal")
    ck.need(len(lits) == 1, "one defining equality")
    txt = unparse(it.expand(lits[0], it.states(lits[0])[0])).replace(" ", "")
    ok = bool(re.fullmatch(r"Literal\(LOC,Sign\.NoSign,Comparison\((.+),\[Guard\(ComparisonOperator\.Equal," + re.escape(term) + r"\)\]\)\)", txt))
    ck.add("defining literal is `AUX = term`, positive", ok, func, lits[0], f"`{short(txt, 140)}`", "")
    # whatever replaces the term is handed back together with the equality that defines it (the caller puts the equality
    # into the scope of this occurrence: body, or the condition of this conditional literal)
    n_ret = 0
    for ret, st in it.returns:
        val = it.expand(ret.value, st) if ret.value is not None else None
        if not (isinstance(val, ast.Tuple) and len(val.elts) == 2):
            ck.add("exline_term returns (term, assignments)", False, func, ret, f"`{short(unparse(ret), 80)}`", "")
            continue
        n_ret += 1
        t, ls = unparse(val.elts[0]), val.elts[1]
        same_term = t == term and isinstance(ls, ast.List) and not ls.elts
        fresh = "make_unique(" in t and isinstance(ls, ast.List) and len(ls.elts) == 1 and t in unparse(ls.elts[0]) and unparse(ls.elts[0]).replace(" ", "").startswith("Literal(LOC,Sign.NoSign,Comparison(")
        ck.add("a replaced term comes with its own fresh variable and the equality that defines it", same_term or fresh, func, ret, f"returns `{short(t, 60)}` with assignments `{short(unparse(ls), 90)}`",
               "a variable reused from an earlier occurrence has its defining equality in the scope of THAT occurrence (e.g. the condition of another conditional literal): here it is an unconstrained variable")
    ck.need(n_ret >= 2, "exline_term returns in both cases")
    # ... and the caller really does: literal and assignments of one exline_literal call go into ONE list, the list of
    # the scope the literal came from
    ear = ck.func("normalize:exline_arithmetic_rule")
    n_pairs = 0
    for asg in find_nodes(ear.node, lambda n: isinstance(n, ast.Assign)):
        tg = asg.targets[0]  # type: ignore[attr-defined]
        if not (isinstance(asg.value, ast.Call) and callee_is(ck.prg, ear, asg.value, "ngo.normalize:exline_literal") and isinstance(tg, ast.Tuple) and len(tg.elts) == 2 and all(isinstance(e, ast.Name) for e in tg.elts)):  # type: ignore[attr-defined]
            continue
        lit_n, asg_n = tg.elts[0].id, tg.elts[1].id
        src_txt = unparse(asg.value.args[0])  # type: ignore[attr-defined]
        if src_txt.endswith(".head"):
            continue  # head arithmetic: the assignments go to the rule body (checked by the head obligation above)
        n_pairs += 1
        blk = block_of_stmt(ear, asg)
        after = blk[blk.index(asg) + 1:] if blk and asg in blk else []
        takers = [c for s_ in after for c in ast.walk(s_) if isinstance(c, ast.Call) and isinstance(c.func, ast.Attribute) and c.func.attr in ("extend", "append") and any(isinstance(x, ast.Name) and x.id == asg_n for a in c.args for x in ast.walk(a))]
        lit_takers = [c for s_ in after for c in ast.walk(s_) if isinstance(c, ast.Call) and isinstance(c.func, ast.Attribute) and c.func.attr in ("extend", "append") and any(isinstance(x, ast.Name) and x.id == lit_n for a in c.args for x in ast.walk(a))]
        together = len(takers) == 1 and len(lit_takers) == 1 and unparse(takers[0].func.value) == unparse(lit_takers[0].func.value)
        ck.add("a literal and the assignments that define its fresh variables stay in the same scope", together, ear, asg, f"`{lit_n}` of `{short(unparse(asg.value), 50)}` goes to {[unparse(c.func.value) for c in lit_takers]}, its assignments `{asg_n}` to {[unparse(c.func.value) for c in takers]}",
               "`free(C) : adj(C, P+(1..2))` becomes `free(C) : adj(C,AUX), AUX = P+(1..2)` (for all offsets); with the assignment in the rule body it reads `AUX = P+(1..2); free(C) : adj(C,AUX)` (for some offset)")
    ck.need(n_pairs >= 2, "exline_arithmetic_rule ex-lines body literals and conditions")
    el = ck.func("normalize:exline_literal")
    ite = ck.interp(el)
    cs = resolved_calls(ck.prg, el, "ngo.normalize:exline_term")
    ck.need(len(cs) == 1, "exline_literal works argument-wise")
    lit = el.params()[0]
    ck.guard("only predicate atoms", el, cs[0], f"is_predicate({lit})", "")
    k = [key for key, v in ite.known(cs[0]) if v is False and key == f"collect_ast({lit}, 'Pool')"]
    ck.add("no pools", bool(k), el, cs[0], f"dominating fact {k}", "a pooled argument stands for several atoms")
    # api: passes consume preprocess output; postprocess last
    norm = ck.func("normalize:normalize")
    itn = ck.interp(norm)
    order = []
    for c in calls_in(norm, lambda c: isinstance(c.func, ast.Name) or isinstance(c.func, ast.Attribute)):
        name = unparse(c.func)
        if name in ("replace_old_aggregates", "remove_unecessary_bounds", "expand_comparisons") or name.endswith(".unpool"):
            order.append(name.split(".")[-1])
    ck.add("normal form pipeline", order == ["replace_old_aggregates", "remove_unecessary_bounds", "expand_comparisons", "unpool"], norm, norm.node, f"order {order}",
           "#count conversion before bound removal, chain splitting before unpooling")
    pre, post = ck.func("normalize:preprocess"), ck.func("normalize:postprocess")
    ck.add("preprocess = normalize", [unparse(r.value) for r in returns_of(pre)] == [f"normalize({pre.params()[0]})"], pre, pre.node, f"{[unparse(r.value) for r in returns_of(pre)]}", "", nontrivial=False)  # type: ignore[arg-type]
    ck.add("postprocess = inline_arithmetic", [unparse(r.value) for r in returns_of(post)] == [f"inline_arithmetic({post.params()[0]})"], post, post.node, f"{[unparse(r.value) for r in returns_of(post)]}", "", nontrivial=False)  # type: ignore[arg-type]


def r_replace_assignments(ck: Checker) -> None:
    """template C for utils.ast.replace_assignments / replace_simple_assignments (used by duplication / symmetry)"""
    func = ck.func("utils.ast:replace_assignments")
    it = ck.interp(func)
    stm = func.params()[0]
    rem = [c for c in attr_calls(func, "append") if unparse(c.func.value) == "removal"]  # type: ignore[attr-defined]
    ck.need(len(rem) == 1, "removed equalities are recorded at one site")
    site = rem[0]
    loop = enclosing_loop(func, site)
    ck.need(loop is not None and isinstance(loop.target, ast.Tuple) and isinstance(loop.iter, ast.Call) and unparse(loop.iter.func) == "enumerate", "equalities are found in a loop over enumerate(<body list>)")
    lit = unparse(loop.target.elts[1])  # type: ignore[union-attr]
    src = unparse(loop.iter.args[0])  # type: ignore[union-attr]
    stores = {unparse(n.targets[0].value) for n in find_nodes(func.node, lambda n: isinstance(n, ast.Assign) and isinstance(n.targets[0], ast.Subscript)) if "transform_ast" in unparse(n.value)}  # type: ignore[attr-defined]
    ck.add("equalities are read from the body that is being rewritten", src in stores, func, site, f"`{lit}` iterates enumerate({src}); substitutions are written to {sorted(stores)}",
           "after `X = Y` was applied a later `X = Z` has become `Y = Z`; reading the stale literal drops that constraint")
    ck.guard("C1 equality", func, site, f"({lit}.sign == Sign.NoSign and {lit}.atom.guards[0].comparison == ComparisonOperator.Equal) or ({lit}.sign == Sign.Negation and {lit}.atom.guards[0].comparison == ComparisonOperator.NotEqual)", "")
    ck.guard("left side is a variable", func, site, f"{lit}.atom.term.ast_type == ASTType.Variable", "")
    ck.guard("C3 no interval on the right", func, site, f"not has_interval({lit}.atom.guards[0].term)", "")
    hi = ck.func("utils.ast:has_interval")
    ith = ck.interp(hi)
    hp = hi.params()[0]
    shapes = {unparse(ith.expand(r.value, s_)).replace('"', "'") for r, s_ in ith.returns if r.value is not None}
    ok_hi = bool(shapes) and all(same(s_, f"bool(collect_ast({hp}, 'Interval'))") or same(s_, f"len(collect_ast({hp}, 'Interval')) > 0") or same(s_, f"collect_ast({hp}, 'Interval') != []") for s_ in shapes)
    ck.add("has_interval looks for an interval ANYWHERE inside the term", ok_hi, hi, hi.node, f"returns {sorted(shapes)}",
           "`S = 2*(1..3)` contains an interval below the top: inlining it copies the interval, and every copy expands on its own")
    ck.guard("only rules and objectives", func, site, f"{stm}.ast_type in (ASTType.Rule, ASTType.Minimize)", "")
    nh = single_def(func, "new_heads")
    heads = [n for n in find_nodes(func.node, lambda n: isinstance(n, ast.Assign)) if unparse(n.targets[0]) == "new_heads"]  # type: ignore[attr-defined]
    txts = sorted(unparse(n.value).replace(" ", "") for n in heads)  # type: ignore[attr-defined]
    ck.add("C6 head / weight, priority, terms take part in the substitution", txts == sorted([f"[{stm}.head]", f"[{stm}.weight,{stm}.priority,*{stm}.terms]"]), func, func.node, f"new_heads = {txts}", "")
    func = ck.func("utils.ast:_get_simple_equalities")
    it = ck.interp(func)
    apps = attr_calls(func, "append")
    ck.need(len(apps) == 1, "_get_simple_equalities collects at one site")
    lit = unparse(apps[0].args[0])
    ck.guard("simple equality: C1", func, apps[0], f"({lit}.sign == Sign.NoSign and {lit}.atom.guards[0].comparison == ComparisonOperator.Equal) or ({lit}.sign == Sign.Negation and {lit}.atom.guards[0].comparison == ComparisonOperator.NotEqual)", "")
    ck.guard("simple equality: variable = variable", func, apps[0], f"{lit}.atom.term.ast_type == ASTType.Variable and {lit}.atom.guards[0].term.ast_type == ASTType.Variable", "")
    # classes of equated variables: each class is replaced by one of ITS OWN members
    for name in ("utils.ast:replace_simple_assignments", "utils.ast:replace_simple_assignments_aggregate"):
        fs = ck.func(name)
        reps = [c for c in attr_calls(fs, "append") if unparse(c.func.value) == "uniques"]  # type: ignore[attr-defined]
        ck.need(len(reps) == 1 and isinstance(reps[0].args[0], ast.Tuple) and len(reps[0].args[0].elts) == 2, f"{fs.name} records (class, representative) at one site")
        lp = enclosing_loop(fs, reps[0])
        cls_, rep = reps[0].args[0].elts  # type: ignore[attr-defined]
        comp = unparse(lp.target) if lp is not None else "?"
        ok = lp is not None and unparse(lp.iter).replace(" ", "") == "nx.connected_components(graph)" and unparse(cls_) == comp and unparse(rep).replace(" ", "") in (f"sorted({comp})[0]", f"min({comp})")
        ck.add(f"{fs.name}: a class of equated variables is represented by its own smallest member", ok, fs, reps[0], f"`{short(unparse(reps[0]), 80)}` in the loop over `{unparse(lp.iter) if lp is not None else None}`",
               "a representative taken from all equated variables merges independent classes (`X1 = X2, Y1 = Y2` would make X and Y the same variable): an equality nobody stated")
        edges = [c for c in attr_calls(fs, "add_edge") if unparse(c.func.value) == "graph"]  # type: ignore[attr-defined]
        el = enclosing_loop(fs, edges[0]) if edges else None
        e_ = unparse(el.target) if el is not None else "?"
        ok_e = len(edges) == 1 and len(edges[0].args) == 2 and [unparse(a) for a in edges[0].args] == [f"{e_}.atom.term", f"{e_}.atom.guards[0].term"]
        ck.add(f"{fs.name}: classes connect exactly the two sides of each simple equality", ok_e, fs, edges[0] if edges else fs.node, f"`{short(unparse(edges[0]), 80) if edges else None}`", "")
    rp = ck.func("utils.ast:_replace")
    itr = ck.interp(rp)
    u, v = rp.params()[:2]
    rets = [(r, s) for r, s in itr.returns if r.value is not None and unparse(r.value) != v]
    lps = [x for x in find_nodes(rp.node, lambda x: isinstance(x, ast.For))]
    ck.need(len(lps) == 1 and isinstance(lps[0].target, ast.Tuple) and len(rets) >= 1, "_replace searches the classes")  # type: ignore[attr-defined]
    c_, s_ = [unparse(e) for e in lps[0].target.elts]  # type: ignore[attr-defined]
    ok_r = all(unparse(r.value) == s_ and itr.holds(r, f"{v} in {c_}") for r, s in rets)
    ck.add("_replace: a variable is replaced by the representative of the class it belongs to", ok_r, rp, rets[0][0], f"returns `{[unparse(r.value) for r, s in rets]}` under `{v} in {c_}`: {ok_r}", "")
    same_back = [r for r, s in itr.returns if r.value is not None and unparse(r.value) == v]
    early = [r for r in same_back if enclosing_loop(rp, r) is not None]
    ck.add("_replace: a variable stays as it is only if it is in NONE of the classes", bool(same_back) and not early and unparse(lps[0].iter) == u, rp, early[0] if early else lps[0],  # type: ignore[attr-defined]
           f"`return {v}` inside the loop over the classes: {len(early)}", "with two independent equalities (`X1 = X2, Y1 = Y2`) the second class is never looked at: the caller still deletes both equality literals, so the second tie is dropped without being applied")


RULES_EXTRA = [Rule("C05.one-link", P + ("C12", "C14", "C11", "C04"), r_one_link)]

RULES = RULES_EXTRA + [
    Rule("C05.TABLE.operators", P + ("C14", "C13", "C20"), r_operator_tables),  # C20: math folds comparisons between constants in generated domain rules too
    Rule("C05.TABLE.bounds", P, r_bounds_table),
    Rule("C05.chain-split", P, r_chain_split),
    Rule("C05.chain-places", P + ("C03", "C11", "C14"), r_chain_places),
    Rule("C05.one-link-out", P + ("C03", "C11", "C14"), r_one_link_out),
    Rule("C05.TABLE.shape-tests", P + ("C03", "C04"), r_shape_predicates),
    Rule("C05.replace-stms", P, r_replace_stms),
    Rule("C05.replace-stm", P + ("C04",), r_replace_stm),
    Rule("C05.TABLE.equality", P, r_equality_table),
    Rule("C05.C4.local-only", P + ("C04",), r_local_only),
    Rule("C05.C6.inline-rule", P, r_inline_rule),
    Rule("C05.aggregate-conversion", P, r_aggregate_conversion, extra={"C07": ("gets its own fresh variable", "become fresh variables"), "C04": ("anonymous variables at every depth",)}),
    Rule("C05.exline", P + ("C04",), r_exline, extra={"C03": ("normal form pipeline",)}),
    Rule("C05.C.replace-assignments", ("C10", "C11", "C01", "C04"), r_replace_assignments),
]
