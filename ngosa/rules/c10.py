"""C10 — duplication: a factored-out literal set means what the replaced literals meant (DESIGN §4 C10, template B)."""

from __future__ import annotations

import ast
import re

from ..core import Checker, Rule, attr_calls, callee_is, calls_in, kwarg, resolved_calls, short
from ..interp import Pins, find_nodes, unparse
from .util import ancestors, enclosing_loop, on_path_before, enclosing_stmt, every_iteration_reaches, fmt, is_const, parent, returns_of, same, single_def, resolved, contributions

P = ("C10", "C01", "C06")
LC = "literal_duplication:LiteralCollector"


def r_collectors(ck: Checker) -> None:
    """B1 at the three collector sites; canonical key; B2 (global -> local capture)"""
    scopes = {
        "_add_occurences_from_body": ("body", r"combinations\(body, self\.size\)\[\*\]"),
        "_add_occurences_from_conditionals": ("condition of a conditional literal", r"combinations\((\w+)\.condition, self\.size\)\[\*\]"),
        "_add_occurences_from_body_aggregate": ("condition of an aggregate element", r"combinations\((\w+)\.condition, self\.size\)\[\*\]"),
    }
    for name, (what, org_re) in scopes.items():
        func = ck.func(f"{LC}.{name}")
        it = ck.interp(func)
        regs = resolved_calls(ck.prg, func, "ngo.literal_duplication:RuleRebuilder")
        ck.need(len(regs) == 1 and len(regs[0].args) == 7, f"{name} registers RuleRebuilder(ruleid, sub_ast, sub_sub_ast, original, new, old2new, new2old) at one site")
        reg = regs[0]
        subset = unparse(reg.args[3])
        org = {st.origin.get(subset, "") for st in it.states(reg)}
        ck.add(f"{what}: candidates are the size-k subsets of ONE scope", all(re.fullmatch(org_re, o) for o in org) and bool(org), func, reg, f"`{subset}` iterates {sorted(org)}", "")
        ck.guard(f"{what}: B1 the candidate subset binds all its own variables", func, reg, f"not collect_binding_information_body({subset})[1]",
                 "the auxiliary rule has exactly this subset as body: an unbound variable makes it unsafe, or (under arithmetic) silently loses variables from the aux head")
        new = it.texts(reg, reg.args[4])
        ck.add(f"{what}: canonical form is computed from the same subset", new == {f"tuple(anonymize_variables({subset})[0])"}, func, reg, f"new_literals = {sorted(new)}", "")
        key_app = [c for c in attr_calls(func, "append") if c.args and c.args[0] is reg]
        ck.need(len(key_app) == 1 and isinstance(key_app[0].func.value, ast.Subscript), "registered under self.occurences[key]")  # type: ignore[attr-defined]
        key = it.texts(key_app[0], key_app[0].func.value.slice)  # type: ignore[attr-defined]
        ck.add(f"{what}: occurrences are keyed by the canonical literal tuple", key == {f"tuple(anonymize_variables({subset})[0])"}, func, key_app[0], f"key {sorted(key)}", "equal keys = equal literal sets up to renaming")
        m1 = it.texts(reg, reg.args[5])
        inv = single_def(func, unparse(reg.args[6])) if isinstance(reg.args[6], ast.Name) else reg.args[6]
        m2 = {unparse(inv).replace(" ", "")} if inv is not None else set()
        fwd = unparse(reg.args[5])
        ok = m1 == {f"anonymize_variables({subset})[1]"} and m2 == {"{v:kfork,vin" + fwd + ".items()}"}
        ck.add(f"{what}: renaming and its inverse are stored", ok, func, reg, f"old2new {sorted(m1)}, new2old {sorted(m2)}", "")
        # B2: a variable that is global in the statement must not become local in the aux rule.  Only body subsets can
        # contain conditional literals / aggregates (conditions hold plain literals whose variables are all bound or rejected by B1)
        if name != "_add_occurences_from_body":
            continue
        known = [k for k, v in it.known(reg) if "global_vars_inside_body(" in k]
        ck.add(f"{what}: B2 no variable global in the statement becomes local in the aux rule", bool(known), func, reg,
               f"dominating condition over the statement's global variables: {known or 'none'} (sibling projection.good_split has `not local_new.intersection(global_old)`)",
               "in `a(Y) :- d(Y), h(Z), c(X) : e(X,Y).` the set {h(Z), c(X):e(X,Y)} binds only Z; Y is global in the rule but local to the condition inside `__aux(Z) :- c(X) : e(X,Y); h(Z).`",
               rule="C10.B2.capture")


def r_process(ck: Checker) -> None:
    func = ck.func(f"{LC}.process")
    it = ck.interp(func)
    rules = resolved_calls(ck.prg, func, "clingo.ast.Rule")
    ck.need(len(rules) == 1, "process builds the auxiliary rule at one site")
    r = rules[0]
    loop = enclosing_loop(func, r)
    ck.need(loop is not None and isinstance(loop.target, ast.Tuple), "loop over (literal_set, occurrences)")
    lset, occ = [unparse(e) for e in loop.target.elts]  # type: ignore[union-attr]
    ck.guard("a set is factored out only if it occurs at least twice", func, r, f"1 < len({occ})", "")
    pat = re.compile(r"len\(\{\((\w+)\.ruleid, \1\.sub_ast, \1\.sub_sub_ast\) for \1 in ")
    k = [key for key, v in it.known(r) if v is False and pat.match(key)]
    k += [key for key, v in it.known(r) if v is True and key.startswith("1 < ") and pat.match(key[4:])]
    ck.add("... at two different places", bool(k), func, r, f"dominating fact {k}", "two sub-selections of the same place overlap")
    body = kwarg(r, "body", 2)
    head = kwarg(r, "head", 1)
    ck.need(body is not None and head is not None, "Rule(location, head, body)")
    ck.add("aux body = the canonical literal set", unparse(body) == lset, func, r, f"body `{unparse(body)}`", "")  # type: ignore[arg-type]
    htxt = unparse(head).replace(" ", "")  # type: ignore[arg-type]
    m = re.fullmatch(r"Literal\(LOC,Sign\.NoSign,SymbolicAtom\(Function\(LOC,(\w+)\.name,(\w+),False\)\)\)", htxt)
    ck.add("aux head is a plain positive atom", m is not None, func, r, f"head `{htxt}`", "C06")
    if m:
        ap, bound = m.group(1), m.group(2)
        bd = single_def(func, bound)
        ck.add("B4 aux head carries the variables the set binds, sorted", bd is not None and unparse(bd).replace(" ", "") == f"sorted(collect_binding_information_body({lset})[0])", func, r, f"{bound} = `{unparse(bd) if bd is not None else None}`",
               "every bound variable may be needed outside; sorted() makes the argument order reproducible (C17)")
        apd = single_def(func, ap)
        ck.add("B3 aux predicate is fresh", apd is not None and unparse(apd).replace(" ", "") == f"unique_names.new_auxpredicate(len({bound}))", func, r, f"{ap} = `{unparse(apd) if apd is not None else None}`", "C07")
        # occurrences are rebuilt with the SAME bound list mapped back through that occurrence's inverse renaming
        rb = resolved_calls(ck.prg, func, f"ngo.{LC}.rebuild")
        un = resolved_calls(ck.prg, func, "ngo.literal_duplication:unanonymize_variables")
        ck.need(len(rb) == 1 and len(un) == 1, "occurrences are rebuilt at one site")
        rbl = enclosing_loop(func, rb[0])
        b = unparse(rbl.target) if rbl is not None else "?"
        ok = unparse(un[0].args[0]) == bound and unparse(un[0].args[1]) == f"{b}.newvars2oldvars" and unparse(rb[0].args[0]) == b and unparse(rb[0].args[1]) == f"{ap}.name"
        btxt = next(iter(it.texts(rb[0], ast.Name(bound, ast.Load()))), "?")
        ck.add("each occurrence gets the aux atom with ITS variables in the same order", ok and it.texts(rb[0], rb[0].args[2]) == {f"unanonymize_variables({btxt}, {b}.newvars2oldvars)"}, func, rb[0],
               f"rebuild({unparse(rb[0].args[0])}, {unparse(rb[0].args[1])}, {sorted(it.texts(rb[0], rb[0].args[2]))})", "argument i of the aux atom must be the occurrence's name for canonical variable i")


def r_aux_defined(ck: Checker) -> None:
    """whenever a statement is rewritten to use the auxiliary atom, the rule that defines that atom has been emitted"""
    func = ck.func(f"{LC}.process")
    rules = resolved_calls(ck.prg, func, "clingo.ast.Rule")
    ck.need(len(rules) == 1, "process builds the auxiliary rule at one site")
    loop = enclosing_loop(func, rules[0])
    rstmt = enclosing_stmt(func, rules[0])
    rname = unparse(rstmt.targets[0]) if isinstance(rstmt, ast.Assign) else None  # type: ignore[attr-defined]
    regs = [c for c in attr_calls(func, "append") if "additional_rules" in unparse(c.func.value) and (unparse(c.args[0]) == rname or c.args[0] is rules[0])]  # type: ignore[attr-defined]
    ck.need(len(regs) == 1, "the auxiliary rule is registered in additional_rules at one site")
    stores = [n for n in find_nodes(func.node, lambda n: isinstance(n, ast.Assign) and isinstance(n.targets[0], ast.Subscript) and unparse(n.targets[0].value) == "self.prg")]  # type: ignore[attr-defined]
    ck.need(len(stores) >= 1, "process writes rewritten statements back into self.prg")
    itm = ck.interp(func, None, mark_stmts={id(enclosing_stmt(func, regs[0])): "defined"}, clear_marks_at={id(loop): "defined"})
    for st_ in stores:
        sts = itm.states(st_)
        ok = bool(sts) and all("defined" in s.marks for s in sts)
        ck.add("a statement is rewritten to use the auxiliary atom only after its defining rule was emitted", ok, func, st_, f"`{short(unparse(enclosing_stmt(func, regs[0])), 70)}` executed on every path to `{short(unparse(st_), 60)}`: {ok}",
               "the set may occur twice inside ONE statement (body and an aggregate condition): one rewritten statement is enough for the auxiliary atom to be needed; without its rule the atom is underivable and the rewritten rule never fires")


def r_renaming(ck: Checker) -> None:
    func = ck.func("literal_duplication:anonymize_variables.<locals>.replace")
    it = ck.interp(func)
    var = func.params()[0]
    stores = [n for n in find_nodes(func.node, lambda n: isinstance(n, ast.Assign) and isinstance(n.targets[0], ast.Subscript))]
    ck.need(len(stores) == 1, "the renaming map is extended at one site")
    s = stores[0]
    ck.guard("a name gets a new canonical name only once", func, s, f"{var}.name not in old2new", "the renaming must be a function")
    ck.guard("`_` is never renamed", func, s, f"{var}.name != '_'", "each `_` is its own variable")
    incs = [n for n in find_nodes(func.node, lambda n: isinstance(n, ast.AugAssign))]
    ok = len(incs) == 1 and parent(func, incs[0]) is parent(func, s)
    ck.add("every new canonical name is distinct (counter advances with each extension)", ok, func, s, f"counter increment next to the map extension: {ok}", "the renaming must be injective")
    outer = ck.func("literal_duplication:anonymize_variables")
    rets = returns_of(outer)
    ck.add("canonical tuple is sorted", len(rets) == 1 and unparse(rets[0].value).replace(" ", "") == "(sorted(ret),old2new)", outer, outer.node, f"`{fmt(rets[0]) if rets else None}`", "the key must not depend on the order of the literals in the body")
    un = ck.func("literal_duplication:unanonymize_variables")
    rets = returns_of(un)
    v, m = un.params()
    rv = resolved(un, rets[0].value) if len(rets) == 1 else None
    ok = rv is not None and same(unparse(rv), f"[var.update(name={m}[var.name]) for var in {v} if var.name in {m}]")
    ck.add("inverse renaming is applied position-wise", ok, un, un.node, f"`{fmt(rets[0]) if rets else None}`", "")


def r_rebuild(ck: Checker) -> None:
    func = ck.func(f"{LC}.rebuild")
    it = ck.interp(func)
    rb = func.params()[1]
    all_lits = resolved_calls(ck.prg, func, "clingo.ast.Literal")
    lits = [c for c in all_lits if "SymbolicAtom(Function(" in unparse(c).replace(" ", "")]
    ck.need(len(lits) == 3, "rebuild inserts the aux atom into body / conditional / aggregate element")
    for c in all_lits:
        if not any(c is x for x in lits):
            ck.add("rebuilt parts are updates of the original literal, never built anew", False, func, c, f"`{short(unparse(c), 90)}` constructs a literal from scratch",
                   "the sign of the original literal (`not 6 <= #sum{..}`) and its location are lost")
    for lit in lits:
        txt = unparse(lit).replace(" ", "")
        ok = txt == f"Literal(LOC,Sign.NoSign,SymbolicAtom(Function(LOC,{func.params()[2]},{func.params()[3]},False)))"
        ck.add("inserted literal is the positive aux atom", ok, func, lit, f"`{txt}`", "")
    removed = [fmt(n) for n in find_nodes(func.node, lambda n: isinstance(n, ast.If)) if re.fullmatch(rf"\w+ not in {rb}\.original_literals", unparse(n.test)) and len(n.body) == 1 and ".append(" in unparse(n.body[0])]  # type: ignore[attr-defined]
    ck.add("exactly the original literals of the occurrence are removed (in each of the three scopes)", len(removed) == 3, func, func.node, f"{removed}", "")
    # what is left of the rule body in each scope
    rets = [r for r in returns_of(func) if r.value is not None]
    ck.need(len(rets) == 1 and isinstance(rets[0].value, ast.Name), "rebuild returns the new body")
    nb = rets[0].value.id  # type: ignore[union-attr]
    rule_d = single_def(func, "rule")
    ck.need(rule_d is not None, "the rule is looked up once")
    contrib = contributions(func, nb)
    apps = [c for c in attr_calls(func, "append") if unparse(c.func.value) == nb and enclosing_loop(func, c) is None]  # type: ignore[attr-defined]
    ck.need(len(apps) == 3, "the rewritten part is appended to the new body in each scope")
    for app in apps:
        body_scope = it.holds(app, f"not {rb}.sub_ast")
        before = on_path_before(func, app)
        got = [t for s, t in contrib if any(s is b for b in before)]
        others = [unparse(n) for s in before for n in ast.walk(s) if isinstance(n, ast.Call) and isinstance(n.func, ast.Attribute) and unparse(n.func.value) == nb and n.func.attr not in ("append", "extend")]
        inits = [unparse(s.value) for s in before if isinstance(s, (ast.Assign, ast.AnnAssign)) and s.value is not None and unparse(s.targets[0] if isinstance(s, ast.Assign) else s.target) == nb]
        want = f"[lit for lit in rule.body if lit not in {rb}.original_literals]" if body_scope else f"[lit for lit in rule.body if lit != {rb}.sub_ast]"
        ok = len(got) == 1 and same(got[0], want) and not others and inits == ["[]"]
        if not ok and not body_scope and not got:  # copy of the body, then remove the rewritten literal
            ok = inits in (["list(rule.body)"], ["[*rule.body]"], ["rule.body[:]"]) and len(others) == 1 and same(others[0], f"{nb}.remove({rb}.sub_ast)")
        got = inits + got + others
        ck.add("body scope: all other body literals are kept" if body_scope else "condition / aggregate scope: every body literal except the rewritten one is kept", ok, func, app,
               f"new body before the append is built by {got}; expected `{want}`",
               "the aux atom stands for the set only where it was inserted: inside a condition it does not cover an equal literal at body level, so nothing else may disappear from the body")


def r_filter(ck: Checker) -> None:
    """TABLE _filter_occurences: a candidate set survives only if its literals are connected through shared global
    variables and the connected part covers all of them"""
    func = ck.func(f"{LC}._filter_occurences")
    apps = [c for c in attr_calls(func, "append") if enclosing_loop(func, c) is not None]
    ck.need(len(apps) >= 1, "rejected sets are collected in a list")
    lst = unparse(apps[0].func.value)  # type: ignore[attr-defined]
    apps = [c for c in apps if unparse(c.func.value) == lst]  # type: ignore[attr-defined]
    loop = enclosing_loop(func, apps[0])
    while loop is not None and enclosing_loop(func, loop) is not None:
        loop = enclosing_loop(func, loop)
    ck.need(loop is not None and isinstance(loop, ast.For), "loop over the candidate sets")
    dels = [d for d in find_nodes(func.node, lambda n: isinstance(n, ast.Delete)) if unparse(d.targets[0]).startswith("self.occurences[")]  # type: ignore[attr-defined]
    okd = len(dels) == 1 and (dl := enclosing_loop(func, dels[0])) is not None and unparse(dl.iter) == lst
    ck.add("every collected set is deleted from the candidates", okd, func, dels[0] if dels else func.node, f"`{fmt(dels[0]) if dels else None}` in a loop over `{lst}`: {okd}", "")
    it0 = ck.interp(func)
    comps = [a for a in find_nodes(func.node, lambda n: isinstance(n, ast.Assign)) if "connected_components(" in unparse(a.value)]  # type: ignore[attr-defined]
    ck.need(len(comps) == 1 and isinstance(comps[0].targets[0], ast.Name), "connected components of the variable graph are computed once")  # type: ignore[attr-defined]
    cc = comps[0].targets[0].id  # type: ignore[attr-defined]
    site = apps[0]
    ncc = next(iter(it0.texts(site, ast.parse(f"len({cc})", mode="eval").body)))
    sub_ = next(iter(it0.texts(site, ast.parse(f"set({cc}[0]) < all_vars", mode="eval").body)))
    nvars = next(iter(it0.texts(site, ast.parse("len(all_vars) > 1", mode="eval").body)))
    rows = [
        ("two or more components", {ncc: "2"}, {}, True, "literals that share no global variable form a cross product: the aux rule would be a product of unrelated literals"),
        ("no edge at all but several variables", {ncc: "0"}, {nvars: True}, True, "several single-variable literals without a common variable are a cross product as well"),
        ("no edge, at most one variable", {ncc: "0"}, {nvars: False}, False, ""),
        ("one component that misses a variable", {ncc: "1"}, {sub_: True}, True, "an isolated variable (it never becomes a node) is not joined with the rest: e.g. `rate(K,R), S = #sum{P,I : bought(C,I,P)}`"),
        ("one component covering all variables", {ncc: "1"}, {sub_: False}, False, ""),
    ]
    for title, vals, facts, want, why in rows:
        itp = ck.interp(func, Pins.of(vals=vals, facts=facts), mark_stmts={id(enclosing_stmt(func, a)): "rm" for a in apps}, clear_marks_at={id(loop): "rm"})
        back = itp.loop_back.get(id(loop), [])
        got = {"rm" in st.marks for st in back}
        ck.add(f"{title}: {'rejected' if want else 'kept'}", got == {want}, func, loop, f"set rejected: {sorted(got)}; required: {want}", why or "a connected set must stay a candidate (otherwise the pass does nothing)", nontrivial=want)


def r_execute(ck: Checker) -> None:
    func = ck.func("literal_duplication:LiteralDuplicationTranslator.execute")
    it = ck.interp(func)
    ra = resolved_calls(ck.prg, func, "ngo.utils.ast:replace_assignments")
    ck.need(len(ra) == 1, "execute substitutes assignments first")
    restore = [n for n in find_nodes(func.node, lambda n: isinstance(n, ast.Assign) and isinstance(n.targets[0], ast.Subscript)) if unparse(n.targets[0].value) == "newprogram"]  # type: ignore[attr-defined]
    ok = False
    for n in restore:
        idx = unparse(n.targets[0].slice)  # type: ignore[attr-defined]
        if unparse(n.value) == f"prg[{idx}]":  # type: ignore[attr-defined]
            ok = it.holds(n, "old") or bool([k for k, v in it.known(n) if v is True])
    ck.add("statements that were not changed are emitted from the original list", ok, func, func.node, f"restore assignments: {[fmt(n) for n in restore]}", "only rewritten statements keep the assignment-substituted form")


RULES = [
    Rule("C10.B.collectors", P + ("C04",), r_collectors),
    Rule("C10.B.process", P + ("C07",), r_process),
    Rule("C10.aux-defined", P, r_aux_defined),
    Rule("C10.renaming", P, r_renaming),
    Rule("C10.rebuild", P, r_rebuild),
    Rule("C10.TABLE.filter", P, r_filter),
    Rule("C10.execute", P, r_execute),
]
