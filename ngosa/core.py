"""Checker context, obligations, verdicts, evidence, known findings (DESIGN §2.7)."""

from __future__ import annotations

import ast
import hashlib
import json
import os
import re
import time
from dataclasses import asdict, dataclass, field
from typing import Callable, Iterable, Optional

from .interp import Interp, Pins, SummaryTable, find_nodes, unparse
from .model import AnalysisError, Func, Program

VERIF = os.path.dirname(os.path.dirname(os.path.abspath(__file__)))
EVIDENCE_DIR = os.environ.get("NGOSA_EVIDENCE") or os.path.join(VERIF, "evidence")
KNOWN_FILE = os.path.join(VERIF, "known_findings.json")


@dataclass
class Ob:
    """one obligation: a rule instance applied to one site"""

    rule: str  # rule id, e.g. C08.D4.input-guard
    func: str  # function the site lies in (module:Qual.name without 'ngo.')
    sig: str  # semantic signature of the site (never a line number)
    ok: bool
    loc: str  # file:line (informational)
    detail: str  # what was established / what is missing
    reason: str = ""  # why a violation breaks the property
    nontrivial: bool = True  # guarded by a real condition / table row (not a mere presence check)
    props: tuple[str, ...] = ()

    def key(self) -> tuple[str, str, str]:
        return (self.rule, self.func, self.sig)


@dataclass
class Rule:
    rid: str
    props: tuple[str, ...]
    run: Callable[["Checker"], None]
    doc: str = ""
    # further properties that only some obligations of the rule bear on: property -> substrings of obligation titles
    extra: dict[str, tuple[str, ...]] = field(default_factory=dict)

    def applies(self, prop: str) -> bool:
        return prop in self.props or prop in self.extra


class Checker:
    """runs rules over the current tree and collects obligations"""

    def __init__(self, prg: Optional[Program] = None) -> None:
        self.prg = prg or Program()
        self.prop: Optional[str] = None
        from .rules import util as _util

        _util.register_program(self.prg)
        self.summaries = SummaryTable(self.prg)
        self.obs: list[Ob] = []
        self._interps: dict[tuple, Interp] = {}
        self.current_rule: Optional[Rule] = None
        self.notes: dict[str, object] = {}
        self.analysed_funcs: set[str] = set()
        self.errors: list[str] = []

    # ---- engine access
    def interp(self, func: Func | str, pins: Optional[Pins] = None, **kw: object) -> Interp:
        if isinstance(func, str):
            func = self.prg.func(func)
        self.analysed_funcs.add(func.short)
        key = (
            func.qualname,
            tuple(sorted((k, tuple(sorted(v))) for k, v in (pins.vals if pins else {}).items())),
            tuple(sorted((pins.facts if pins else {}).items())),
            bool(pins.entry) if pins else False,
            tuple(sorted((k, str(v)) for k, v in kw.items())),
        )
        if key not in self._interps:
            self._interps[key] = Interp(self.prg, func, pins=pins, summaries=self.summaries, **kw)  # type: ignore[arg-type]
        return self._interps[key]

    def func(self, name: str) -> Func:
        return self.prg.func(name)

    # ---- obligations
    def add(self, sig: str, ok: bool, func: Func | str, node: Optional[ast.AST], detail: str, reason: str = "", nontrivial: bool = True, rule: Optional[str] = None) -> Ob:
        assert self.current_rule is not None
        if isinstance(func, str):
            fshort, loc = func, func
        else:
            fshort, loc = func.short, func.loc(node)
        ob = Ob(rule or self.current_rule.rid, fshort, sig, bool(ok), loc, detail, reason, nontrivial, self.current_rule.props)
        cur = self.current_rule
        if self.prop is not None and self.prop not in cur.props and not any(part in sig for part in cur.extra.get(self.prop, ())):
            return ob  # this obligation of the rule does not bear on the property being decided
        self.obs.append(ob)
        return ob

    def guard(self, sig: str, func: Func, site: ast.AST, cond: str | ast.expr, reason: str, pins: Optional[Pins] = None, what: str = "") -> Ob:
        """must-pass-through: cond holds in every state that reaches site"""
        it = self.interp(func, pins)
        ctext = cond if isinstance(cond, str) else unparse(cond)
        # a condition that names a method which no longer exists cannot be decided (the helper was inlined or renamed)
        try:
            ctree = ast.parse(ctext, mode="eval") if isinstance(cond, str) else cond
        except SyntaxError:
            ctree = None
        if ctree is not None:
            klass = self.prg.class_of_func(func)
            for sub_ in ast.walk(ctree):
                if isinstance(sub_, ast.Call) and isinstance(sub_.func, ast.Attribute) and isinstance(sub_.func.value, ast.Name) and sub_.func.value.id == "self" and klass is not None:
                    if f"{klass.qualname}.{sub_.func.attr}" not in self.prg.funcs and sub_.func.attr.startswith("_") and not sub_.func.attr.startswith("__"):
                        raise AnalysisError(f"{self.current_rule.rid if self.current_rule else ''}: anchor vanished: the condition `{_short(ctext, 60)}` names {klass.qualname.split(':')[1]}.{sub_.func.attr}, which no longer exists")
        if not it.reachable(site):
            raise AnalysisError(f"{self.current_rule.rid if self.current_rule else ''}: site {sig} in {func.short} ({func.loc(site)}) is not reachable in the flow model")
        ok = it.holds(site, cond)
        detail = f"{what or 'site'} `{_short(unparse(site))}` is {'dominated by' if ok else 'NOT dominated by'} `{ctext}` ({len(it.states(site))} path class(es))"
        return self.add(sig, ok, func, site, detail, reason)

    def need(self, cond: bool, what: str) -> None:
        """anchor check: the code shape a rule is written against is present"""
        if not cond:
            rid = self.current_rule.rid if self.current_rule else "?"
            raise AnalysisError(f"{rid}: anchor vanished: {what}")

    def run(self, rules: Iterable[Rule]) -> None:
        """run the rules; a vanished anchor ends that rule (obligations recorded so far are kept) and is
        reported as ANALYSIS-ERROR unless the run has real violations to report"""
        for rule in rules:
            self.current_rule = rule
            try:
                rule.run(self)
            except AnalysisError as err:
                self.errors.append(f"{rule.rid}: {err}" if rule.rid not in str(err) else str(err))
            except (IndexError, AttributeError, KeyError, TypeError, ValueError, StopIteration, AssertionError) as err:
                # the code no longer has the shape the rule was written against: that is "cannot decide", not a crash
                import traceback

                where = traceback.extract_tb(err.__traceback__)[-1]
                self.errors.append(f"{rule.rid}: anchor vanished: unexpected code shape ({type(err).__name__} at {os.path.basename(where.filename)}:{where.lineno})")
        self.current_rule = None


def _short(text: str, n: int = 110) -> str:
    text = " ".join(text.split())
    return text if len(text) <= n else text[: n - 3] + "..."


short = _short


# ---------------------------------------------------------------------------------- helpers for rules
def calls_in(func: Func, pred: Callable[[ast.Call], bool], into_nested: bool = False) -> list[ast.Call]:
    return [n for n in find_nodes(func.node, lambda n: isinstance(n, ast.Call) and pred(n), into_nested)]  # type: ignore[misc]


def attr_calls(func: Func, attr: str, into_nested: bool = False) -> list[ast.Call]:
    return calls_in(func, lambda c: isinstance(c.func, ast.Attribute) and c.func.attr == attr, into_nested)


def callee_is(prg: Program, func: Func, call: ast.Call, *names: str) -> bool:
    """call resolves to one of the given ngo qualnames / dotted external names (suffix match allowed)"""
    if isinstance(call.func, ast.Name) and call.func.id in _locals(func):
        return False
    res = prg.resolve_callee(func, call.func)
    if res is None:
        return False
    for name in names:
        if res == name or res.endswith("." + name) or res.endswith(":" + name) or res.split(":")[-1] == name:
            return True
    return False


_LOCALS: dict[str, set[str]] = {}


def _locals(func: Func) -> set[str]:
    from .interp import _local_names

    if func.qualname not in _LOCALS:
        _LOCALS[func.qualname] = _local_names(func)
    return _LOCALS[func.qualname]


def resolved_calls(prg: Program, func: Func, *names: str, into_nested: bool = False) -> list[ast.Call]:
    return calls_in(func, lambda c: callee_is(prg, func, c, *names), into_nested)


def kwarg(call: ast.Call, name: str, pos: Optional[int] = None) -> Optional[ast.expr]:
    for kw in call.keywords:
        if kw.arg == name:
            return kw.value
    if pos is not None and pos < len(call.args) and not any(isinstance(a, ast.Starred) for a in call.args[: pos + 1]):
        return call.args[pos]
    return None


# ---------------------------------------------------------------------------------- known findings
def load_known() -> list[dict]:
    if not os.path.exists(KNOWN_FILE):
        return []
    with open(KNOWN_FILE, encoding="utf-8") as fh:
        data = json.load(fh)
    return list(data.get("findings", []))


def known_match(ob: Ob, known: list[dict], live_funcs: Optional[set[str]] = None) -> Optional[dict]:
    """an open known finding covers the obligation if rule, function and obligation title agree; if the function the
    entry names no longer exists in the tree (the code was moved or renamed), the same rule and title inside the same
    module still denote that finding"""
    for entry in known:
        if entry.get("status") != "open":
            continue
        if entry.get("rule") == ob.rule and entry.get("function") == ob.func and entry.get("signature") == ob.sig:
            return entry
    if live_funcs is not None:
        for entry in known:
            if entry.get("status") != "open" or entry.get("rule") != ob.rule or entry.get("signature") != ob.sig:
                continue
            efunc = str(entry.get("function", ""))
            if efunc not in live_funcs and efunc.split(":")[0] == ob.func.split(":")[0]:
                return entry
    return None


def moved_lookup(table: dict, func_short: str, text: str, live_funcs: set[str]):  # type: ignore[no-untyped-def,type-arg]
    """triage tables are keyed by (function, text): exact hit, or - when the function an entry names is gone - the same
    text inside the same module (the code moved with its justification)"""
    if (func_short, text) in table:
        return table[(func_short, text)]
    # locals of a helper that was copied into its call site carry the suffix __i<n>
    plain = re.sub(r"__i\d+\b", "", text)
    if plain != text and (func_short, plain) in table:
        return table[(func_short, plain)]
    from .rules import util as _util

    new_funcs = {q.removeprefix("ngo.") for q in getattr(_util, "_NEW_FUNCS", set())}
    for (efunc, etext), reason in table.items():
        if etext in (text, plain) and efunc.split(":")[0] == func_short.split(":")[0] and (efunc not in live_funcs or func_short in new_funcs):
            # the function the entry names is gone, or the code sits in a helper the reference tree does not have
            # (extracted from that function): the justification moved with the code
            return reason
    return None


# ---------------------------------------------------------------------------------- verdict + evidence
def finish(prop: str, tier: str, checker: Checker, obs: list[Ob], started: float, extra: Optional[dict] = None, level_explanation: str = "") -> int:
    known = load_known()
    violations: list[Ob] = []
    known_hits: list[tuple[Ob, dict]] = []
    seen_keys: set[tuple[str, str, str]] = set()
    for ob in obs:
        if ob.ok:
            continue
        if ob.key() in seen_keys:
            continue
        seen_keys.add(ob.key())
        entry = known_match(ob, known, {f.short for f in checker.prg.funcs.values()})
        if entry is not None:
            known_hits.append((ob, entry))
        else:
            violations.append(ob)
    os.makedirs(os.path.join(EVIDENCE_DIR, "replay"), exist_ok=True)
    lines: list[str] = []
    for ob, entry in known_hits:
        lines.append(f"KNOWN-FINDING: property={prop} {ob.rule} {ob.func} [{ob.sig}]: {entry.get('what', ob.detail)}")
    for ob in violations:
        digest = hashlib.sha1("|".join(ob.key()).encode()).hexdigest()[:12]
        path = os.path.join(EVIDENCE_DIR, "replay", f"{prop}-{digest}.json")
        with open(path, "w", encoding="utf-8") as fh:
            json.dump({"property": prop, **asdict(ob)}, fh, indent=1)
        lines.append(f"VIOLATION property={prop} replay={path}")
        lines.append(f"  rule {ob.rule} at {ob.loc} in {ob.func} [{ob.sig}]")
        lines.append(f"  {ob.detail}")
        if ob.reason:
            lines.append(f"  why it matters: {ob.reason}")
    seed = int(os.environ.get("VERIF_SEED", "0") or 0)
    distinct = {ob.key() for ob in obs if ob.nontrivial}
    per_rule: dict[str, int] = {}
    for ob in obs:
        per_rule[ob.rule] = per_rule.get(ob.rule, 0) + 1
    samples = [
        {"rule": ob.rule, "function": ob.func, "site": ob.sig, "where": ob.loc, "verdict": "ok" if ob.ok else "violated", "detail": ob.detail}
        for ob in (obs[:: max(1, len(obs) // 12)] if obs else [])
    ][:14]
    coverage = {
        "explanation": level_explanation
        or "Static necessary conditions of the property, decided on the source of /repo's working tree by a repository-specific analyser (abstract interpretation of ngo's functions, decision tables over clingo enums, flow/wiring rules). Each obligation is one rule instance at one site; the behavioural statement itself is not decided.",
        "obligations": len(obs),
        "discharged": sum(1 for ob in obs if ob.ok),
        "known_findings_present": len(known_hits),
        "violations": len(violations),
        "evaluations": len(obs),
        "distinct_nontrivial": len(distinct),
        "rule": "one evaluation = one rule instance applied to one site of the current tree; distinct = different (rule, function, site-signature); non-trivial = the instance checks a guard, a table row, a flow or a kind, not mere presence of an anchor",
        "samples": samples,
        "per_rule_instances": per_rule,
        "checker_cmd": f"./check {prop} --tier {tier}",
        "trusted_base": ["python ast module", "clingo.ast grammar docstring and enum definitions (read as text)", "ngosa analyser (this directory)"],
        "analysed": {**checker.prg.stats(), "functions_interpreted": sorted(checker.analysed_funcs), "source_digest": checker.prg.digest()[:16]},
        "exhaustive": False,
    }
    if extra:
        coverage.update(extra)
    evidence = {
        "property_id": prop,
        "tier": tier,
        "seed": seed,
        "level": "other",
        "coverage": coverage,
        "assumptions": [
            "programs handed to optimize conform to clingo's AST grammar",
            "a satisfied rule proves only the named structural clause, not the behavioural property",
        ],
        "wall_s": round(time.time() - started, 3),
        "violations": len(violations),
    }
    if os.environ.get("NGOSA_DUMP"):
        with open(os.environ["NGOSA_DUMP"], "w", encoding="utf-8") as fh:
            json.dump([[ob.rule, ob.func, ob.sig, ob.ok] for ob in obs], fh)
        return 1 if violations else 0  # a side run of the thorough tier: no evidence, no output
    with open(os.path.join(EVIDENCE_DIR, f"{prop}.json"), "w", encoding="utf-8") as fh:
        json.dump(evidence, fh, indent=1, sort_keys=False)
    print(f"[{prop}] tier={tier} obligations={len(obs)} discharged={coverage['discharged']} known={len(known_hits)} violations={len(violations)} wall={evidence['wall_s']}s")
    for line in lines:
        print(line)
    return 1 if violations else 0
