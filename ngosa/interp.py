"""Structured abstract interpreter over Python function bodies (DESIGN §2.2).

Path-sensitive (disjunctive states), flow-sensitive aliases (a local is replaced by the
expression it was last bound to), three-valued evaluation of branch conditions against
  * learned facts (atoms with polarity, value sets of enum-like paths) and
  * pins: universal assumptions supplied by a rule (used to tabulate classifiers and to ask
    "is this site reachable when condition C is false?").
Nothing is executed: the interpreter only walks the syntax tree of /repo's source.
"""

from __future__ import annotations

import ast
import copy
import os
from dataclasses import dataclass, field
from typing import Callable, Iterable, Optional

from .model import AnalysisError, Func, Program

MUTATORS = {"append", "extend", "remove", "pop", "insert", "clear", "add", "update", "discard", "sort", "reverse",
            "intersection_update", "difference_update", "setdefault", "popitem"}
MAX_STATES = int(os.environ.get("NGOSA_MAX_STATES", "48"))
GROUP_STATES = int(os.environ.get("NGOSA_GROUP_STATES", "16"))
MAX_LOOP_ROUNDS = int(os.environ.get("NGOSA_LOOP_ROUNDS", "3"))

_UNPARSE_CACHE: dict[int, tuple[ast.AST, str]] = {}


def unparse(node: ast.AST) -> str:
    hit = _UNPARSE_CACHE.get(id(node))
    if hit is not None and hit[0] is node:
        return hit[1]
    text = ast.unparse(node)
    _UNPARSE_CACHE[id(node)] = (node, text)
    return text


def names_in(node: ast.AST) -> frozenset[str]:
    return frozenset(n.id for n in ast.walk(node) if isinstance(n, ast.Name))


ENUMS: dict[str, tuple[str, ...]] = {}


def load_enums() -> dict[str, tuple[str, ...]]:
    """enum classes of clingo.ast / clingo.symbol, read from the installed sources as text"""
    if ENUMS:
        return ENUMS
    import importlib.util

    for modname in ("clingo.ast", "clingo.symbol"):
        spec = importlib.util.find_spec(modname)
        if spec is None or spec.origin is None:
            raise AnalysisError(f"cannot locate source of {modname}")
        with open(spec.origin, encoding="utf-8") as fh:
            tree = ast.parse(fh.read())
        for node in tree.body:
            if isinstance(node, ast.ClassDef) and any(
                isinstance(b, ast.Name) and b.id.endswith("Enum") for b in node.bases
            ):
                members = tuple(
                    t.id
                    for stmt in node.body
                    if isinstance(stmt, ast.Assign)
                    for t in stmt.targets
                    if isinstance(t, ast.Name)
                )
                ENUMS[node.name] = members
    return ENUMS


def const_token(node: ast.AST) -> Optional[str]:
    """token of a compile-time constant: literal, enum member, Infimum/Supremum"""
    if isinstance(node, ast.Constant):
        return repr(node.value)
    if isinstance(node, ast.UnaryOp) and isinstance(node.op, ast.USub) and isinstance(node.operand, ast.Constant):
        return repr(-node.operand.value)
    if isinstance(node, ast.Attribute) and isinstance(node.value, ast.Name):
        enums = load_enums()
        if node.value.id in enums and node.attr in enums[node.value.id]:
            return f"{node.value.id}.{node.attr}"
    if isinstance(node, ast.Name) and node.id in ("Infimum", "Supremum"):
        return node.id
    return None


def token_domain(token: str) -> Optional[frozenset[str]]:
    if "." in token:
        enum = token.split(".")[0]
        members = load_enums().get(enum)
        if members:
            return frozenset(f"{enum}.{m}" for m in members)
    if token in ("True", "False"):
        return frozenset({"True", "False"})
    return None


FALSY = {"False", "None", "0", "''", "[]", "()"}


@dataclass
class Pins:
    """universal assumptions (hold for every binding of the roots they mention)"""

    vals: dict[str, frozenset[str]] = field(default_factory=dict)
    facts: dict[str, bool] = field(default_factory=dict)
    entry: bool = False  # True: the assumptions hold at function entry only (they die with mutation / rebinding)

    @staticmethod
    def of(vals: Optional[dict[str, Iterable[str] | str]] = None, facts: Optional[dict[str, bool]] = None, entry: bool = False) -> "Pins":
        pv: dict[str, frozenset[str]] = {}
        for key, val in (vals or {}).items():
            pv[norm(key)] = frozenset([val]) if isinstance(val, str) else frozenset(val)
        pf: dict[str, bool] = {}
        for key, val in (facts or {}).items():
            tree = _canon(ast.parse(key, mode="eval").body)
            if isinstance(tree, ast.Compare) and len(tree.ops) == 1 and isinstance(tree.ops[0], (ast.Lt, ast.LtE, ast.Gt, ast.GtE)):
                lkey, flip = Interp._lt_key(tree.ops[0], tree.left, tree.comparators[0])  # ordering facts are stored as strict `<` atoms
                pf[lkey] = val != flip
            else:
                pf[norm(key)] = val
        return Pins(pv, pf, entry)


def _sort_ops(tree: ast.expr) -> ast.expr:
    """operands of nested == / != in textual order again after aliases were expanded"""
    for sub in ast.walk(tree):
        if isinstance(sub, ast.Compare):
            from .nform import sort_operands

            return sort_operands(tree)  # type: ignore[return-value]
    return tree


def _canon(tree: ast.expr) -> ast.expr:
    from .nform import canon_inplace

    return canon_inplace(tree)


def norm(text: str) -> str:
    """normal form of an expression given as text (sides of == are sorted)"""
    tree = _canon(ast.parse(text, mode="eval").body)
    if isinstance(tree, ast.Compare) and len(tree.ops) == 1 and isinstance(tree.ops[0], ast.Eq):
        a, b = sorted((ast.unparse(tree.left), ast.unparse(tree.comparators[0])))
        return f"{a} == {b}"
    return ast.unparse(tree)


class State:
    """one abstract state (one path class)"""

    __slots__ = ("alias", "vals", "nvals", "facts", "marks", "origin", "_sig")

    def __init__(self) -> None:
        self.alias: dict[str, ast.expr] = {}
        self.vals: dict[str, frozenset[str]] = {}
        self.nvals: dict[str, frozenset[str]] = {}
        self.facts: dict[str, bool] = {}
        self.marks: frozenset[str] = frozenset()
        self.origin: dict[str, str] = {}  # loop/comprehension target -> "<iterable text>[*]"
        self._sig: Optional[tuple] = None

    def copy(self) -> "State":
        new = State()
        new.alias = dict(self.alias)
        new.vals = dict(self.vals)
        new.nvals = dict(self.nvals)
        new.facts = dict(self.facts)
        new.marks = self.marks
        new.origin = dict(self.origin)
        return new

    def sig(self) -> tuple:
        if self._sig is None:
            self._sig = (
                tuple(sorted((k, unparse(v)) for k, v in self.alias.items())),
                tuple(sorted(self.vals.items(), key=lambda kv: kv[0])),
                tuple(sorted(self.nvals.items(), key=lambda kv: kv[0])),
                tuple(sorted(self.facts.items())),
                tuple(sorted(self.marks)),
            )
        return self._sig

    def touch(self) -> None:
        self._sig = None

    # --- knowledge -----------------------------------------------------------------
    def kill_root(self, name: str) -> None:
        """the local `name` is bound to an unknown new value"""
        self.touch()
        self.alias.pop(name, None)
        self.origin.pop(name, None)
        for table in (self.vals, self.nvals, self.facts):
            for key in [k for k in table if _mentions(k, name)]:
                del table[key]  # type: ignore[attr-defined]
        for other in [k for k, v in self.alias.items() if name in names_in(v)]:
            self.kill_root(other)

    def kill_text(self, text: str) -> None:
        """an object described by `text` was mutated in place"""
        self.touch()
        for table in (self.vals, self.nvals, self.facts):
            for key in [k for k in table if text in k]:
                del table[key]  # type: ignore[attr-defined]


_MENTION_CACHE: dict[str, frozenset[str]] = {}


def _mentions(key: str, name: str) -> bool:
    names = _MENTION_CACHE.get(key)
    if names is None:
        try:
            names = names_in(ast.parse(key, mode="eval"))
        except SyntaxError:
            names = frozenset()
        _MENTION_CACHE[key] = names
    return name in names


class _Expander(ast.NodeTransformer):
    def __init__(self, alias: dict[str, ast.expr], renames: dict[str, str]):
        self.alias = alias
        self.renames = renames
        self.shadow: list[set[str]] = []

    def _shadowed(self, name: str) -> bool:
        return any(name in s for s in self.shadow)

    def visit_Name(self, node: ast.Name) -> ast.AST:
        if isinstance(node.ctx, ast.Load) and not self._shadowed(node.id):
            if node.id in self.alias:
                return copy.deepcopy(self.alias[node.id])
            if node.id in self.renames:
                return ast.Name(self.renames[node.id], ast.Load())
        return node

    def visit_NamedExpr(self, node: ast.NamedExpr) -> ast.AST:
        # `(x := E)` stands for the value E (the binding itself is performed by the interpreter when it touches the node)
        return self.visit(node.value)

    def _comp(self, node: ast.AST) -> ast.AST:
        bound: set[str] = set()
        for gen in node.generators:  # type: ignore[attr-defined]
            bound |= {n.id for n in ast.walk(gen.target) if isinstance(n, ast.Name)}
        # the first iterable is evaluated in the enclosing scope
        first = node.generators[0]  # type: ignore[attr-defined]
        first.iter = self.visit(first.iter)
        self.shadow.append(bound)
        for i, gen in enumerate(node.generators):  # type: ignore[attr-defined]
            if i:
                gen.iter = self.visit(gen.iter)
            gen.ifs = [self.visit(x) for x in gen.ifs]
        if isinstance(node, ast.DictComp):
            node.key = self.visit(node.key)
            node.value = self.visit(node.value)
        else:
            node.elt = self.visit(node.elt)  # type: ignore[attr-defined]
        self.shadow.pop()
        return node

    visit_ListComp = visit_SetComp = visit_GeneratorExp = visit_DictComp = _comp  # type: ignore[assignment]

    def visit_Lambda(self, node: ast.Lambda) -> ast.AST:
        bound = {a.arg for a in node.args.posonlyargs + node.args.args + node.args.kwonlyargs}
        if node.args.vararg:
            bound.add(node.args.vararg.arg)
        if node.args.kwarg:
            bound.add(node.args.kwarg.arg)
        node.args.defaults = [self.visit(d) for d in node.args.defaults]
        self.shadow.append(bound)
        node.body = self.visit(node.body)
        self.shadow.pop()
        return node


class _UpdateSimplifier(ast.NodeTransformer):
    """clingo's AST.update(k=v) returns a copy with attribute k replaced: X.update(k=v).k -> v, X.update(k=v).a -> X.a"""

    def visit_Attribute(self, node: ast.Attribute) -> ast.AST:
        self.generic_visit(node)
        base = node.value
        while (
            isinstance(base, ast.Call)
            and isinstance(base.func, ast.Attribute)
            and base.func.attr == "update"
            and not base.args
            and all(kw.arg for kw in base.keywords)
        ):
            for kw in base.keywords:
                if kw.arg == node.attr:
                    return kw.value
            base = base.func.value
        if base is not node.value:
            return ast.Attribute(value=base, attr=node.attr, ctx=node.ctx)
        return node


class _TupleIndex(ast.NodeTransformer):
    """`(a, b, c)[1]` is `b` (a tuple built only to be taken apart again)"""

    def visit_Subscript(self, node: ast.Subscript) -> ast.AST:
        self.generic_visit(node)
        if isinstance(node.value, (ast.Tuple, ast.List)) and isinstance(node.slice, ast.Constant) and type(node.slice.value) is int:
            elts = node.value.elts
            idx = node.slice.value
            if -len(elts) <= idx < len(elts) and not any(isinstance(e, ast.Starred) for e in elts):
                return elts[idx]
        return node


def _simplify_update(node: ast.expr) -> ast.expr:
    text = ast.unparse(node)
    if ")[" in text or "][" in text:
        node = _TupleIndex().visit(node)
    if ".update(" not in text:
        return node
    return _UpdateSimplifier().visit(node)


@dataclass
class Summary:
    """what is known about the arguments when a helper returns truthy / falsy / not-None"""

    params: list[str]
    truthy: Optional[list[tuple[ast.expr, bool]]]  # None: never returns truthy / unknown
    falsy: Optional[list[tuple[ast.expr, bool]]]
    not_none: Optional[list[tuple[ast.expr, bool]]]


class Interp:
    """analysis of one function under optional pins"""

    def __init__(
        self,
        prg: Program,
        func: Func,
        pins: Optional[Pins] = None,
        mark_edges: Optional[dict[tuple[int, bool], str]] = None,
        clear_marks_at: Optional[dict[int, str]] = None,
        summaries: Optional["SummaryTable"] = None,
        depth: int = 0,
        mark_stmts: Optional[dict[int, str]] = None,
        mark_loop_body: Optional[dict[int, str]] = None,
    ) -> None:
        self.prg = prg
        self.func = func
        self.pins = pins or Pins()
        self.mark_edges = mark_edges or {}
        self.clear_marks_at = clear_marks_at or {}
        self.mark_stmts = mark_stmts or {}
        self.mark_loop_body = mark_loop_body or {}
        self.loop_back: dict[int, list[State]] = {}
        self.summaries = summaries
        self.depth = depth
        self.reach: dict[int, list[State]] = {}
        self.returns: list[tuple[ast.Return, State]] = []
        self.exits: list[State] = []  # fall off the end
        self.raises: list[tuple[ast.AST, State]] = []
        self.assert_truth: dict[int, list[Optional[bool]]] = {}
        self.widened = False
        self.grouped = False
        self.loop_depth = 0
        self.inline_depth = 0
        self.renames: dict[str, str] = {}
        self._new_funcs: set[str] = prg.new_functions()
        for local, dotted in func.module.imports.items():
            orig = dotted.rsplit(".", 1)[-1]
            if orig != local and "." in dotted:
                self.renames[local] = orig
        self.locals = _local_names(func)
        self.mutated = _mutated_names(func)
        for name in list(self.renames):
            if name in self.locals:
                del self.renames[name]
        self._run()

    # ------------------------------------------------------------------ public queries
    def states(self, node: ast.AST) -> list[State]:
        return self.reach.get(id(node), [])

    def reachable(self, node: ast.AST) -> bool:
        return bool(self.reach.get(id(node)))

    def _names_exist(self, tree: ast.expr) -> None:
        """a queried condition that calls a private method of this class which no longer exists cannot be decided:
        the helper was inlined, moved or renamed (analysis error, not a verdict)"""
        klass = self.prg.class_of_func(self.func)
        if klass is None:
            return
        for sub_ in ast.walk(tree):
            if isinstance(sub_, ast.Call) and isinstance(sub_.func, ast.Attribute) and isinstance(sub_.func.value, ast.Name) and sub_.func.value.id == "self":
                name = sub_.func.attr
                if name.startswith("_") and not name.startswith("__") and f"{klass.qualname}.{name}" not in self.prg.funcs:
                    raise AnalysisError(f"anchor vanished: the queried condition `{ast.unparse(tree)[:80]}` names {klass.qualname.split(':')[1]}.{name}, which no longer exists")

    @staticmethod
    def _truthiness_variants(tree: ast.expr) -> list[ast.expr]:
        """the same condition with the emptiness tests of sized containers written the other way:
        `len(X) == 0` <-> `not X`, `len(X) != 0` / `len(X) > 0` / `0 < len(X)` / `len(X) >= 1` <-> `X`"""

        def is_len(e: ast.AST) -> Optional[ast.expr]:
            if isinstance(e, ast.Call) and isinstance(e.func, ast.Name) and e.func.id == "len" and len(e.args) == 1 and not e.keywords:
                return e.args[0]
            return None

        class ToTruth(ast.NodeTransformer):
            changed = False

            def visit_Compare(self, n: ast.Compare) -> ast.AST:
                self.generic_visit(n)
                if len(n.ops) != 1:
                    return n
                l, op, r = n.left, n.ops[0], n.comparators[0]
                x = is_len(l)
                zero = isinstance(r, ast.Constant) and r.value == 0
                one = isinstance(r, ast.Constant) and r.value == 1
                if x is not None and ((zero and isinstance(op, (ast.NotEq, ast.Gt))) or (one and isinstance(op, ast.GtE))):
                    ToTruth.changed = True
                    return x
                if x is not None and zero and isinstance(op, ast.Eq):
                    ToTruth.changed = True
                    return ast.UnaryOp(op=ast.Not(), operand=x)
                y = is_len(r)
                if y is not None and isinstance(l, ast.Constant) and l.value == 0 and isinstance(op, (ast.Lt, ast.NotEq)):
                    ToTruth.changed = True
                    return y
                if y is not None and isinstance(l, ast.Constant) and l.value == 0 and isinstance(op, ast.Eq):
                    ToTruth.changed = True
                    return ast.UnaryOp(op=ast.Not(), operand=y)
                return n

        ToTruth.changed = False
        alt = ToTruth().visit(copy.deepcopy(tree))
        return [ast.fix_missing_locations(alt)] if ToTruth.changed else []

    def holds(self, node: ast.AST, cond: str | ast.expr, _variant: bool = False) -> bool:
        """cond is definitely true in every state reaching node (vacuously true if unreachable)"""
        tree = _canon(ast.parse(cond, mode="eval").body) if isinstance(cond, str) else cond
        self._names_exist(tree)
        if not _variant:
            if self.holds(node, tree, True):
                return True
            return any(self.holds(node, _canon(alt), True) for alt in self._truthiness_variants(tree))
        for st in self.states(node):
            outcomes = self.eval_cond(tree, st.copy(), record=False)
            if not outcomes or any(not truth for _, truth in outcomes):
                if outcomes:
                    return False
        return True

    def possible(self, node: ast.AST, cond: str | ast.expr) -> bool:
        """cond may be true in some state reaching node"""
        tree = _canon(ast.parse(cond, mode="eval").body) if isinstance(cond, str) else cond
        self._names_exist(tree)
        for st in self.states(node):
            for _, truth in self.eval_cond(tree, st.copy(), record=False):
                if truth:
                    return True
        return False

    def expand(self, node: ast.expr, st: State) -> ast.expr:
        out = _Expander(st.alias, self.renames).visit(copy.deepcopy(node))
        out = self._apply_tables(out, st)
        if self._new_funcs:
            out = self._inline_expression_functions(out, 0)
        return _sort_ops(_simplify_update(out))

    def _table_of(self, expr: ast.expr) -> Optional[ast.Dict]:
        """a constant dict display behind `self.NAME` / `Class.NAME` / module-level NAME"""
        if isinstance(expr, ast.Attribute) and isinstance(expr.value, ast.Name):
            klass = None
            if expr.value.id in ("self", "cls"):
                klass = self.prg.class_of_func(self.func)
            else:
                res = self.prg.resolve_callee(self.func, expr.value)
                klass = self.prg.classes.get(res or "")
            if klass is not None:
                for s in klass.node.body:
                    tgt = s.targets[0] if isinstance(s, ast.Assign) and len(s.targets) == 1 else (s.target if isinstance(s, ast.AnnAssign) else None)
                    if isinstance(tgt, ast.Name) and tgt.id == expr.attr and isinstance(getattr(s, "value", None), ast.Dict):
                        return s.value  # type: ignore[union-attr,return-value]
        if isinstance(expr, ast.Name) and expr.id not in self.locals:
            val = self.func.module.consts.get(expr.id)
            if isinstance(val, ast.Dict):
                return val
        return None

    def _apply_tables(self, node: ast.expr, st: State) -> ast.expr:
        """`TABLE[k]` / `TABLE.get(k)` with a constant dict TABLE and a key whose value is known, and a lambda applied to
        arguments, are replaced by what they evaluate to: a dispatch table reads like the if-chain it replaces"""
        interp = self

        class T(ast.NodeTransformer):
            def _lookup(self, table: ast.Dict, key: ast.expr, default: Optional[ast.expr]) -> Optional[ast.expr]:
                tok = const_token(key)
                toks = {tok} if tok is not None else interp._vals(unparse(key), st)  # pylint: disable=protected-access
                if not toks or len(toks) != 1:
                    return None
                want = next(iter(toks))
                for k, v in zip(table.keys, table.values):
                    if k is not None and const_token(k) == want:
                        return copy.deepcopy(v)
                if all(k is not None and const_token(k) is not None for k in table.keys):
                    return copy.deepcopy(default) if default is not None else ast.Constant(None)
                return None

            def visit_Subscript(self, sub: ast.Subscript) -> ast.AST:
                self.generic_visit(sub)
                table = interp._table_of(sub.value)  # pylint: disable=protected-access
                if table is not None and isinstance(sub.ctx, ast.Load):
                    hit = self._lookup(table, sub.slice, None)
                    if hit is not None and not (isinstance(hit, ast.Constant) and hit.value is None):
                        return hit
                return sub

            def visit_Call(self, call: ast.Call) -> ast.AST:
                self.generic_visit(call)
                if isinstance(call.func, ast.Attribute) and call.func.attr == "get" and 1 <= len(call.args) <= 2 and not call.keywords:
                    table = interp._table_of(call.func.value)  # pylint: disable=protected-access
                    if table is not None:
                        hit = self._lookup(table, call.args[0], call.args[1] if len(call.args) == 2 else None)
                        if hit is not None:
                            return hit
                if isinstance(call.func, ast.Lambda) and not call.keywords and not any(isinstance(a, ast.Starred) for a in call.args):
                    lam = call.func
                    params = [a.arg for a in lam.args.posonlyargs + lam.args.args]
                    if len(params) == len(call.args) and not (lam.args.vararg or lam.args.kwarg or lam.args.kwonlyargs or lam.args.defaults):
                        return _Expander(dict(zip(params, call.args)), {}).visit(copy.deepcopy(lam.body))
                return call

        if not any(isinstance(n, (ast.Subscript, ast.Lambda)) or (isinstance(n, ast.Attribute) and n.attr == "get") for n in ast.walk(node)):
            return node
        return T().visit(node)  # type: ignore[no-any-return]

    def inline_locals(self, node: ast.expr) -> ast.expr:
        """calls of this function's own nested one-expression helpers replaced by their bodies"""
        prefix = f"{self.func.qualname}.<locals>."
        also = frozenset(q for q in self.prg.funcs if q.startswith(prefix))
        return _sort_ops(self._inline_expression_functions(copy.deepcopy(node), 0, also))

    def _inline_expression_functions(self, node: ast.expr, depth: int, also: frozenset[str] = frozenset()) -> ast.expr:
        """a call of a helper that is not part of the reference tree and consists of `return <expr>` (after local
        definitions) is replaced by that expression: extracting a condition or a constructor expression into a helper
        does not change what is decided"""
        interp = self

        class Inl(ast.NodeTransformer):
            def visit_Call(self, call: ast.Call) -> ast.AST:
                self.generic_visit(call)
                if depth >= 3 or any(isinstance(a, ast.Starred) for a in call.args) or any(kw.arg is None for kw in call.keywords):
                    return call
                res = interp.prg.resolve_callee(interp.func, call.func)
                if res not in interp._new_funcs and res not in also:
                    return call
                target = interp.prg.funcs.get(res)  # type: ignore[arg-type]
                if target is None or isinstance(target.node, ast.Lambda):
                    return call
                body = [s for s in target.node.body if not (isinstance(s, ast.Expr) and isinstance(s.value, ast.Constant))]  # type: ignore[attr-defined]
                if not body or not isinstance(body[-1], ast.Return) or body[-1].value is None:
                    return call
                local: dict[str, ast.expr] = {}
                for s in body[:-1]:
                    if isinstance(s, ast.Assign) and len(s.targets) == 1 and isinstance(s.targets[0], ast.Name):
                        local[s.targets[0].id] = s.value
                    elif isinstance(s, ast.AnnAssign) and isinstance(s.target, ast.Name) and s.value is not None:
                        local[s.target.id] = s.value
                    else:
                        return call
                a = target.node.args  # type: ignore[attr-defined]
                if a.vararg or a.kwarg:
                    return call
                params = [x.arg for x in a.posonlyargs + a.args]
                bind: dict[str, ast.expr] = {}
                decos = [unparse(d) for d in target.node.decorator_list]  # type: ignore[attr-defined]
                if params and params[0] in ("self", "cls") and "staticmethod" not in decos and isinstance(call.func, ast.Attribute):
                    bind[params[0]] = call.func.value
                    params = params[1:]
                if len(call.args) > len(params):
                    return call
                for name, arg in zip(params, call.args):
                    bind[name] = arg
                for kw in call.keywords:
                    bind[kw.arg] = kw.value  # type: ignore[index]
                defaults = dict(zip(reversed([x.arg for x in a.posonlyargs + a.args]), reversed(a.defaults)))
                for name in params:
                    if name not in bind:
                        if name not in defaults:
                            return call
                        bind[name] = defaults[name]
                env = dict(bind)
                for name, val in local.items():
                    env[name] = _Expander(env, {}).visit(copy.deepcopy(val))
                out = _Expander(env, {}).visit(copy.deepcopy(body[-1].value))
                return interp._inline_expression_functions(out, depth + 1, also)

        return Inl().visit(node)  # type: ignore[no-any-return]

    def text(self, node: ast.expr, st: State) -> str:
        return ast.unparse(self.expand(node, st))

    def texts(self, site: ast.AST, node: ast.expr) -> set[str]:
        """expanded texts of `node` over all states reaching `site`"""
        return {self.text(node, st) for st in self.states(site)}

    def valset(self, site: ast.AST, expr: str | ast.expr) -> Optional[frozenset[str]]:
        """union over states of the value set of expr (None = unknown in some state)"""
        tree = ast.parse(expr, mode="eval").body if isinstance(expr, str) else expr
        out: set[str] = set()
        for st in self.states(site):
            vals = self._vals(unparse(self.expand(tree, st)), st)
            if vals is None:
                return None
            out |= vals
        return frozenset(out)

    def return_truths(self) -> set[Optional[bool]]:
        """possible truthiness of the value returned (None = unknown); falling off the end counts as False"""
        out: set[Optional[bool]] = set()
        for node, st in self.returns:
            if node.value is None:
                out.add(False)
                continue
            for s2 in [st.copy()]:
                exp = self.expand(node.value, s2)
                outcomes = self._truth3(node.value, s2)
                out |= outcomes
        if self.exits:
            out.add(False)
        return out

    def _truth3(self, node: ast.expr, st: State) -> set[Optional[bool]]:
        """three-valued truth of an expression in a state, without learning"""
        if isinstance(node, ast.BoolOp):
            vals = [self._truth3(v, st) for v in node.values]
            is_and = isinstance(node.op, ast.And)
            res: set[Optional[bool]] = set()
            # conservative combination
            if is_and:
                if any(v == {False} for v in vals):
                    return {False}
                if all(v == {True} for v in vals):
                    return {True}
            else:
                if any(v == {True} for v in vals):
                    return {True}
                if all(v == {False} for v in vals):
                    return {False}
            return {None}
        if isinstance(node, ast.UnaryOp) and isinstance(node.op, ast.Not):
            return {None if v is None else (not v) for v in self._truth3(node.operand, st)}
        if isinstance(node, ast.Call) and isinstance(node.func, ast.Name) and node.func.id == "bool" and len(node.args) == 1:
            return self._truth3(node.args[0], st)
        if isinstance(node, ast.IfExp):
            test = self._truth3(node.test, st)
            if test == {True}:
                return self._truth3(node.body, st)
            if test == {False}:
                return self._truth3(node.orelse, st)
            return self._truth3(node.body, st) | self._truth3(node.orelse, st)
        return {self.eval_atom(self.expand(node, st), st)}

    def known(self, site: ast.AST) -> list[tuple[str, object]]:
        """knowledge common to all states reaching site: (key, True/False) facts and (key, frozenset) value sets"""
        sts = self.states(site)
        if not sts:
            return []
        facts = set(sts[0].facts.items())
        for st in sts[1:]:
            facts &= set(st.facts.items())
        out: list[tuple[str, object]] = sorted(facts)
        keys = set(sts[0].vals)
        for st in sts[1:]:
            keys &= set(st.vals)
        for key in sorted(keys):
            union: set[str] = set()
            for st in sts:
                union |= st.vals[key]
            out.append((key, frozenset(union)))
        nkeys = set(sts[0].nvals)
        for st in sts[1:]:
            nkeys &= set(st.nvals)
        for key in sorted(nkeys):
            inter = set(sts[0].nvals[key])
            for st in sts[1:]:
                inter &= st.nvals[key]
            if inter:
                out.append((key, ("not", frozenset(inter))))
        return out

    # ------------------------------------------------------------------ driver
    def _run(self) -> None:
        st = State()
        if self.pins.entry:
            st.facts.update(self.pins.facts)
            st.vals.update(self.pins.vals)
            self.pins = Pins()
        node = self.func.node
        if isinstance(node, ast.Lambda):
            self._record(node.body, st)
            for s, _ in self.eval_cond(node.body, st):
                pass
            self.returns.append((ast.Return(value=node.body), st))
            return
        flow = self.block(node.body, [st])  # type: ignore[attr-defined]
        self.exits = flow.fall

    # ------------------------------------------------------------------ statements
    def _record(self, node: ast.AST, st: State) -> None:
        lst = self.reach.setdefault(id(node), [])
        if len(lst) < 4 * MAX_STATES:
            lst.append(st)

    def _dedup(self, states: list[State]) -> list[State]:
        seen: dict[tuple, State] = {}
        for st in states:
            seen.setdefault(st.sig(), st)
        out = list(seen.values())
        if len(out) > GROUP_STATES:
            # merge states that agree on aliases (flags!) and marks: facts are intersected
            groups: dict[tuple, list[State]] = {}
            for st in out:
                groups.setdefault((st.sig()[0], st.sig()[4]), []).append(st)
            out = [grp[0] if len(grp) == 1 else self._merge(grp) for grp in groups.values()]
            self.grouped = True
        if len(out) > MAX_STATES:
            self.widened = True
            out = [self._merge(out)]
        return out

    @staticmethod
    def _merge(states: list[State]) -> State:
        base = states[0].copy()
        for st in states[1:]:
            dropped = [k for k, v in base.alias.items() if not (k in st.alias and unparse(st.alias[k]) == unparse(v))] + [k for k in st.alias if k not in base.alias]
            base.alias = {k: v for k, v in base.alias.items() if k in st.alias and unparse(st.alias[k]) == unparse(v)}
            for k in dropped:
                base.kill_root(k)
            base.facts = {k: v for k, v in base.facts.items() if st.facts.get(k) == v}
            base.vals = {k: v | st.vals[k] for k, v in base.vals.items() if k in st.vals}
            base.nvals = {k: v & st.nvals[k] for k, v in base.nvals.items() if k in st.nvals}
            base.marks = base.marks | st.marks
            base.origin = {k: v for k, v in base.origin.items() if st.origin.get(k) == v}
        base.touch()
        return base

    def block(self, stmts: list[ast.stmt], states: list[State]) -> "Flow":
        flow = Flow()
        cur = states
        for stmt in stmts:
            cur = self._dedup(cur)
            if not cur:
                break
            nxt: list[State] = []
            for st in cur:
                sub = self.stmt(stmt, st)
                nxt.extend(sub.fall)
                flow.absorb(sub)
            cur = nxt
        flow.fall = self._dedup(cur)
        return flow

    def stmt(self, node: ast.stmt, st: State) -> "Flow":
        mark = self.mark_stmts.get(id(node))
        if mark and mark not in st.marks:
            st = st.copy()
            st.marks = st.marks | {mark}
        # (for loops `clear_marks_at` means "at the start of every iteration"; for any other statement: when it is executed)
        unmark = self.clear_marks_at.get(id(node)) if not isinstance(node, (ast.For, ast.While)) else None
        if unmark and unmark in st.marks:
            st = st.copy()
            st.marks = st.marks - {unmark}
        self._record(node, st)
        method = getattr(self, "s_" + type(node).__name__, None)
        if method is None:
            # Import, Pass, Global, Nonlocal, FunctionDef, ClassDef, Delete ...
            if isinstance(node, (ast.FunctionDef, ast.ClassDef, ast.AsyncFunctionDef)):
                st = st.copy()
                st.kill_root(node.name)
            return Flow(fall=[st])
        return method(node, st)

    def s_Expr(self, node: ast.Expr, st: State) -> "Flow":
        return Flow(fall=self.touch(node.value, st))

    def s_Pass(self, node: ast.Pass, st: State) -> "Flow":
        return Flow(fall=[st])

    def s_Return(self, node: ast.Return, st: State) -> "Flow":
        states = [st]
        if node.value is not None:
            states = self.touch(node.value, st)
        if getattr(node, "ngosa_inline", False) and self.inline_depth > 0:
            return Flow(iret=[(node, s) for s in states])  # leaves the inlined helper, not the function
        for s in states:
            self.returns.append((node, s))
        return Flow()

    def s_Raise(self, node: ast.Raise, st: State) -> "Flow":
        states = [st]
        if node.exc is not None:
            states = self.touch(node.exc, st)
        for s in states:
            self.raises.append((node, s))
        return Flow(exc=states)

    def s_Break(self, node: ast.Break, st: State) -> "Flow":
        return Flow(brk=[st])

    def s_Continue(self, node: ast.Continue, st: State) -> "Flow":
        return Flow(cont=[st])

    def s_Assert(self, node: ast.Assert, st: State) -> "Flow":
        outcomes = self.eval_cond(node.test, st)
        truths = self.assert_truth.setdefault(id(node), [])
        fall = []
        definite = {id(s) for s, t in outcomes if t}
        undecided = len(outcomes) > 1
        for s, truth in outcomes:
            if truth:
                fall.append(s)
        if not outcomes:
            truths.append(None)
        elif undecided:
            truths.append(None)
        else:
            truths.append(outcomes[0][1])
        return Flow(fall=fall)

    def s_If(self, node: ast.If, st: State) -> "Flow":
        flow = Flow()
        t_states: list[State] = []
        f_states: list[State] = []
        for s, truth in self.eval_cond(node.test, st):
            mark = self.mark_edges.get((id(node), truth))
            if mark:
                s = s.copy()
                s.marks = s.marks | {mark}
            (t_states if truth else f_states).append(s)
        if t_states:
            sub = self.block(node.body, t_states)
            flow.absorb(sub)
            flow.fall.extend(sub.fall)
        if f_states:
            if node.orelse:
                sub = self.block(node.orelse, f_states)
                flow.absorb(sub)
                flow.fall.extend(sub.fall)
            else:
                flow.fall.extend(f_states)
        return flow

    def _assigned_in(self, stmts: list[ast.stmt]) -> set[str]:
        out: set[str] = set()
        todo: list[ast.AST] = list(stmts)
        while todo:
            sub = todo.pop()
            if isinstance(sub, ast.Name) and isinstance(sub.ctx, (ast.Store, ast.Del)):
                out.add(sub.id)
            elif isinstance(sub, (ast.FunctionDef, ast.ClassDef)):
                out.add(sub.name)
            if isinstance(sub, (ast.ListComp, ast.SetComp, ast.DictComp, ast.GeneratorExp, ast.Lambda)):
                continue  # their variables live in a scope of their own
            todo.extend(ast.iter_child_nodes(sub))
        return out

    def _bind_target(self, target: ast.expr, st: State, origin: Optional[str]) -> None:
        for sub in ast.walk(target):
            if isinstance(sub, ast.Name):
                st.kill_root(sub.id)
                if origin is not None and isinstance(target, ast.Name):
                    st.origin[sub.id] = origin
        if origin is not None and isinstance(target, ast.Tuple):
            for i, elt in enumerate(target.elts):
                if isinstance(elt, ast.Name):
                    st.origin[elt.id] = f"{origin}[{i}]"

    def _loop(self, node: ast.For | ast.While, st: State) -> "Flow":
        flow = Flow()
        entry = [st]
        if isinstance(node, ast.For):
            entry = self.touch(node.iter, st)
        bmark0 = self.mark_loop_body.get(id(node))
        if bmark0:
            cleared = []
            for s in entry:
                if bmark0 in s.marks:
                    s = s.copy()
                    s.marks = s.marks - {bmark0}
                cleared.append(s)
            entry = cleared
        head_seen: dict[tuple, State] = {}
        work = entry
        exits: list[State] = []
        brk: list[State] = []
        rounds = 0
        assigned = self._assigned_in(node.body)
        mark = self.clear_marks_at.get(id(node))
        self.loop_depth += 1
        collapsed: Optional[dict[tuple, State]] = None

        def gkey(s: State) -> tuple:
            consts = tuple(sorted((k, unparse(v)) for k, v in s.alias.items() if isinstance(v, ast.Constant)))
            return (consts, tuple(sorted(s.marks)))

        while work:
            rounds += 1
            fresh: list[State] = []
            if collapsed is None and rounds > MAX_LOOP_ROUNDS:
                # collapsed mode: one state per (flag values, marks); information only decreases -> terminates
                self.widened = True
                collapsed = {}
                for s in list(head_seen.values()) + work:
                    s = self._head_norm(s, assigned)
                    k = gkey(s)
                    collapsed[k] = self._merge([collapsed[k], s]) if k in collapsed else s
                fresh = list(collapsed.values())
            elif collapsed is not None:
                for s in work:
                    s = self._head_norm(s, assigned)
                    k = gkey(s)
                    if k not in collapsed:
                        collapsed[k] = s
                        fresh.append(s)
                    else:
                        merged = self._merge([collapsed[k], s])
                        if merged.sig() != collapsed[k].sig():
                            collapsed[k] = merged
                            fresh.append(merged)
                if len(collapsed) > MAX_STATES:
                    one = self._merge(list(collapsed.values()))
                    for name in assigned:
                        one.kill_root(name)
                    collapsed = {gkey(one): one}
                    fresh = [one]
            else:
                for s in work:
                    key = self._head_key(node, s, assigned)
                    if key not in head_seen:
                        head_seen[key] = s
                        fresh.append(s)
            work = []
            body_in: list[State] = []
            endless = isinstance(node, ast.For) and isinstance(node.iter, ast.Call) and not node.iter.args and (self.prg.resolve_callee(self.func, node.iter.func) or "") in ("itertools.count", "builtins.count")
            for s in fresh:
                if isinstance(node, ast.For):
                    if not endless:  # `for i in itertools.count():` only ends through break / return
                        exits.append(s)
                    b = self._head_norm(s, assigned)
                    if mark:
                        b.marks = b.marks - {mark}
                    origin = unparse(self.expand(node.iter, b)) + "[*]"
                    self._bind_target(node.target, b, origin)
                    body_in.append(b)
                else:
                    s = self._head_norm(s, assigned)
                    for s2, truth in self.eval_cond(node.test, s):
                        if truth:
                            if mark:
                                s2 = s2.copy()
                                s2.marks = s2.marks - {mark}
                            body_in.append(s2)
                        else:
                            exits.append(s2)
            if body_in:
                bmark = self.mark_loop_body.get(id(node))
                if bmark:
                    marked = []
                    for b in body_in:
                        b = b.copy()
                        b.marks = b.marks | {bmark}
                        marked.append(b)
                    body_in = marked
                sub = self.block(node.body, body_in)
                flow.ret.extend(sub.ret)
                flow.exc.extend(sub.exc)
                flow.iret.extend(sub.iret)
                brk.extend(sub.brk)
                work = self._dedup(sub.fall + sub.cont)
                self.loop_back.setdefault(id(node), []).extend(work)
        self.loop_depth -= 1
        exits = self._dedup(exits)
        if node.orelse and exits:
            sub = self.block(node.orelse, exits)
            flow.absorb(sub)
            flow.fall.extend(sub.fall)
        else:
            flow.fall.extend(exits)
        flow.fall.extend(brk)
        flow.fall = self._dedup(flow.fall)
        return flow

    @staticmethod
    def _head_norm(st: State, assigned: set[str]) -> State:
        """knowledge about names (re)bound in the loop body is not carried into the next iteration;
        aliases (flags, accumulators described over stable roots) are"""
        new = st.copy()
        for table in (new.vals, new.nvals, new.facts):
            for key in [k for k in table if any(_mentions(k, name) for name in assigned)]:
                del table[key]  # type: ignore[attr-defined]
        new.touch()
        return new

    def _head_key(self, node: ast.AST, st: State, assigned: set[str]) -> tuple:
        norm_st = self._head_norm(st, assigned)
        if isinstance(node, ast.For):
            self._bind_target(node.target, norm_st, None)
        return norm_st.sig()

    def s_For(self, node: ast.For, st: State) -> "Flow":
        return self._loop(node, st)

    def s_While(self, node: ast.While, st: State) -> "Flow":
        return self._loop(node, st)

    def s_With(self, node: ast.With, st: State) -> "Flow":
        if getattr(node, "ngosa_inline", None):
            # the body of a helper copied to its call site (inliner.py): `return E` inside binds the target and falls out
            self.inline_depth += 1
            sub = self.block(node.body, [st])
            self.inline_depth -= 1
            flow = Flow()
            flow.brk, flow.cont, flow.exc = sub.brk, sub.cont, sub.exc
            target = node.items[0].optional_vars
            # locals of the helper that nothing outside the block reads are dead at its end: what is known about them
            # must not keep otherwise equal states apart
            inside = {id(x) for x in ast.walk(node)}
            keep = {x.id for x in ast.walk(self.func.node) if isinstance(x, ast.Name) and id(x) not in inside}
            dead = [name for name in self._assigned_in(node.body) if name not in keep]
            out: list[State] = []
            for ret, s in sub.iret:
                s = s.copy()
                val = self.expand(ret.value, s) if ret.value is not None else ast.Constant(None)
                if target is not None:
                    self._assign(target, val, s)
                used = {x.id for x in ast.walk(val) if isinstance(x, ast.Name)}
                for name in dead:
                    if name not in used:
                        s.kill_root(name)
                        s.alias.pop(name, None)
                out.append(s)
            for s in sub.fall:
                s = s.copy()
                if target is not None:
                    self._assign(target, ast.Constant(None), s)
                for name in dead:
                    s.kill_root(name)
                    s.alias.pop(name, None)
                out.append(s)
            flow.fall = self._dedup(out)
            return flow
        states = [st]
        for item in node.items:
            nxt = []
            for s in states:
                for s2 in self.touch(item.context_expr, s):
                    if item.optional_vars is not None:
                        s2 = s2.copy()
                        self._bind_target(item.optional_vars, s2, None)
                    nxt.append(s2)
            states = nxt
        return self.block(node.body, states)

    def s_Try(self, node: ast.Try, st: State) -> "Flow":
        flow = Flow()
        body = self.block(node.body, [st])
        flow.ret.extend(body.ret)
        flow.brk.extend(body.brk)
        flow.cont.extend(body.cont)
        fall = list(body.fall)
        if node.orelse and fall:
            sub = self.block(node.orelse, fall)
            flow.absorb(sub)
            fall = sub.fall
        # handlers: entered from anywhere inside the body
        hstate = st.copy()
        for name in self._assigned_in(node.body):
            hstate.kill_root(name)
        caught_all = False
        for handler in node.handlers:
            h = hstate.copy()
            if handler.name:
                h.kill_root(handler.name)
            sub = self.block(handler.body, [h])
            flow.absorb(sub)
            fall.extend(sub.fall)
            if handler.type is None or (isinstance(handler.type, ast.Name) and handler.type.id in ("Exception", "BaseException")):
                caught_all = True
        if not caught_all:
            flow.exc.extend(body.exc)
        if node.finalbody:
            sub = self.block(node.finalbody, self._dedup(fall))
            flow.absorb(sub)
            fall = sub.fall
        flow.fall = self._dedup(fall)
        return flow

    def _assign_name(self, name: str, value: Optional[ast.expr], st: State) -> None:
        """bind local `name` to (already expanded) value"""
        if value is None:
            st.kill_root(name)
            return
        fresh_container = (
            isinstance(value, ast.Call)
            and isinstance(value.func, ast.Name)
            and (
                (value.func.id in ("set", "list", "dict", "tuple", "frozenset", "OrderedDict", "Counter") and not value.args and not value.keywords)
                or value.func.id == "defaultdict"
            )
        )
        literal_display = isinstance(value, (ast.List, ast.Tuple, ast.Set)) and value.elts and all(const_token(e) is not None for e in value.elts)
        if literal_display and name not in self.mutated:
            pass  # a constant table that is never mutated in this function: its text is its value
        elif fresh_container or isinstance(value, (ast.List, ast.Dict, ast.Set, ast.ListComp, ast.SetComp, ast.DictComp, ast.GeneratorExp)):
            # a fresh mutable object: its text does not identify it (two `[]` are different lists)
            st.kill_root(name)
            return
        self_ref = name in names_in(value)
        if self_ref and self.loop_depth > 0:
            st.kill_root(name)
            return
        if len(unparse(value)) > 1500:
            st.kill_root(name)
            return
        if self_ref:
            # value is described in terms of the *old* binding; old knowledge about `name` must not leak
            # (the text of the new alias contains the old root, which keeps denoting the old value)
            st.touch()
            for other in [k for k, v in st.alias.items() if k != name and name in names_in(v)]:
                st.kill_root(other)
            st.alias[name] = value
            return
        # `value` is an expression over root bindings (it was expanded before): giving `name` this alias makes every
        # later mention of `name` expand to it; knowledge about the previous binding stays valid for that binding
        # (still reachable through other aliases) and can never be confused with the new one
        st.origin.pop(name, None)
        st.alias[name] = value
        st.touch()

    def _assign(self, target: ast.expr, value: Optional[ast.expr], st: State) -> None:
        if isinstance(target, ast.Name):
            self._assign_name(target.id, value, st)
        elif isinstance(target, (ast.Tuple, ast.List)):
            if value is not None and isinstance(value, (ast.Tuple, ast.List)) and len(value.elts) == len(target.elts):
                for t, v in zip(target.elts, value.elts):
                    self._assign(t, v, st)
            else:
                for i, t in enumerate(target.elts):
                    if isinstance(t, ast.Starred):
                        self._assign(t.value, None, st)
                    elif value is not None:
                        self._assign(t, ast.Subscript(value=value, slice=ast.Constant(i), ctx=ast.Load()), st)
                    else:
                        self._assign(t, None, st)
        elif isinstance(target, (ast.Attribute, ast.Subscript)):
            st.kill_text(unparse(self.expand(target, st)))
        elif isinstance(target, ast.Starred):
            self._assign(target.value, None, st)

    def s_Assign(self, node: ast.Assign, st: State) -> "Flow":
        out = []
        for s in self.touch(node.value, st):
            s = s.copy()
            value = self.expand(node.value, s)
            for target in node.targets:
                if isinstance(target, (ast.Attribute, ast.Subscript)):
                    for s3 in self.touch(target.value, s):
                        pass
                self._assign(target, value, s)
            out.append(s)
        return Flow(fall=out)

    def s_AnnAssign(self, node: ast.AnnAssign, st: State) -> "Flow":
        if node.value is None:
            return Flow(fall=[st])
        out = []
        for s in self.touch(node.value, st):
            s = s.copy()
            self._assign(node.target, self.expand(node.value, s), s)
            out.append(s)
        return Flow(fall=out)

    def s_AugAssign(self, node: ast.AugAssign, st: State) -> "Flow":
        out = []
        for s in self.touch(node.value, st):
            s = s.copy()
            if isinstance(node.target, ast.Name):
                old = self.expand(ast.Name(node.target.id, ast.Load()), s)
                new = ast.BinOp(left=old, op=node.op, right=self.expand(node.value, s))
                if self.loop_depth > 0:
                    s.kill_root(node.target.id)
                else:
                    self._assign_name(node.target.id, new, s)
            else:
                s.kill_text(unparse(self.expand(node.target, s)))  # type: ignore[arg-type]
            out.append(s)
        return Flow(fall=out)

    # ------------------------------------------------------------------ expressions
    def touch(self, node: ast.expr, st: State) -> list[State]:
        """record reachability of all sub-expressions in evaluation order; returns the states after
        evaluation (learning happens only through short-circuit operators)"""
        if isinstance(node, (ast.BoolOp, ast.IfExp)) or (isinstance(node, ast.UnaryOp) and isinstance(node.op, ast.Not)):
            return self._dedup([s for s, _ in self.eval_cond(node, st)])
        self._record(node, st)
        if isinstance(node, (ast.Name, ast.Constant)):
            return [st]
        if isinstance(node, ast.Lambda):
            return [st]
        if isinstance(node, (ast.ListComp, ast.SetComp, ast.GeneratorExp, ast.DictComp)):
            self._comprehension(node, st)
            return [st]
        if isinstance(node, ast.NamedExpr):
            states = self.touch(node.value, st)
            out = []
            for s in states:
                s = s.copy()
                self._assign(node.target, self.expand(node.value, s), s)
                out.append(s)
            return out
        states = [st]
        for child in ast.iter_child_nodes(node):
            if isinstance(child, ast.expr):
                nxt: list[State] = []
                for s in states:
                    nxt.extend(self.touch(child, s))
                states = self._dedup(nxt)
            elif isinstance(child, ast.keyword):
                nxt = []
                for s in states:
                    nxt.extend(self.touch(child.value, s))
                states = self._dedup(nxt)
        if (
            isinstance(node, ast.Call)
            and isinstance(node.func, ast.Attribute)
            and node.func.attr in MUTATORS
            and not (node.func.attr == "update" and not node.args)  # clingo AST.update(k=v) returns a copy
        ):
            out = []
            for s in states:
                recv = self.expand(node.func.value, s)
                if not isinstance(recv, ast.Constant):
                    s = s.copy()
                    s.kill_text(unparse(recv))
                out.append(s)
            states = out
        return states

    def _comprehension(self, node: ast.AST, st: State) -> None:
        states = [st.copy()]
        for gen in node.generators:  # type: ignore[attr-defined]
            nxt: list[State] = []
            for s in states:
                for s2 in self.touch(gen.iter, s):
                    s2 = s2.copy()
                    self._bind_target(gen.target, s2, unparse(self.expand(gen.iter, s2)) + "[*]")
                    cur = [s2]
                    for cond in gen.ifs:
                        cur = [s3 for s0 in cur for s3, truth in self.eval_cond(cond, s0) if truth]
                    nxt.extend(cur)
            states = self._dedup(nxt)
        for s in states:
            if isinstance(node, ast.DictComp):
                self.touch(node.key, s)
                self.touch(node.value, s)
            else:
                self.touch(node.elt, s)  # type: ignore[attr-defined]

    def eval_cond(self, node: ast.expr, st: State, record: bool = True) -> list[tuple[State, bool]]:
        """evaluate a condition; returns refined states with the truth value on each"""
        if record:
            self._record(node, st)
        if isinstance(node, ast.BoolOp):
            is_and = isinstance(node.op, ast.And)
            live: list[State] = [st]
            done: list[tuple[State, bool]] = []
            for value in node.values:
                nxt: list[State] = []
                for s in live:
                    for s2, truth in self.eval_cond(value, s, record):
                        if truth == is_and:
                            nxt.append(s2)
                        else:
                            done.append((s2, truth))
                live = nxt
            done.extend((s, is_and) for s in live)
            return done
        if isinstance(node, ast.UnaryOp) and isinstance(node.op, ast.Not):
            return [(s, not t) for s, t in self.eval_cond(node.operand, st, record)]
        if isinstance(node, ast.IfExp):
            out: list[tuple[State, bool]] = []
            for s, truth in self.eval_cond(node.test, st, record):
                out.extend(self.eval_cond(node.body if truth else node.orelse, s, record))
            return out
        if isinstance(node, ast.Call) and isinstance(node.func, ast.Name) and node.func.id == "bool" and len(node.args) == 1 and "bool" not in self.locals:
            return self.eval_cond(node.args[0], st, record)
        if isinstance(node, ast.Compare) and len(node.ops) > 1:
            parts = []
            left = node.left
            for op, right in zip(node.ops, node.comparators):
                parts.append(ast.Compare(left=left, ops=[op], comparators=[right]))
                left = right
            return self.eval_cond(ast.BoolOp(op=ast.And(), values=parts), st, False)
        # atom
        states = [st]
        if record:
            states = []
            subs = [st]
            for child in ast.iter_child_nodes(node):
                if isinstance(child, ast.expr):
                    nxt = []
                    for s in subs:
                        nxt.extend(self.touch(child, s))
                    subs = nxt
                elif isinstance(child, ast.keyword):
                    nxt = []
                    for s in subs:
                        nxt.extend(self.touch(child.value, s))
                    subs = nxt
            states = self._dedup(subs) or [st]
        out = []
        for s in states:
            exp = self.expand(node, s)
            if isinstance(node, (ast.Name, ast.Call)) and (isinstance(exp, (ast.BoolOp, ast.IfExp)) or (isinstance(exp, ast.UnaryOp) and isinstance(exp.op, ast.Not)) or (isinstance(exp, ast.Compare) and len(exp.ops) > 1)):
                # a temporary (or an inlined helper) that holds a compound condition: evaluate the condition itself (already expanded)
                out.extend(self.eval_cond(exp, s, False))
                continue
            truth = self.eval_atom(exp, s)
            if truth is not None:
                out.append((s, truth))
                continue
            for want in (True, False):
                s2 = s.copy()
                if self.assume_atom(exp, want, s2, node):
                    out.append((s2, want))
        return out

    # ---- knowledge lookup
    def _vals(self, key: str, st: State) -> Optional[frozenset[str]]:
        a = st.vals.get(key)
        b = self.pins.vals.get(key)
        if a is None:
            return b
        if b is None:
            return a
        return a & b

    def _fact(self, key: str, st: State) -> Optional[bool]:
        if key in st.facts:
            return st.facts[key]
        return self.pins.facts.get(key)

    @staticmethod
    def _eq_key(left: ast.expr, right: ast.expr) -> str:
        a, b = sorted((unparse(left), unparse(right)))
        return f"{a} == {b}"

    def eval_atom(self, node: ast.expr, st: State) -> Optional[bool]:
        """truth of an *expanded* atomic condition, None if unknown"""
        if isinstance(node, ast.Constant):
            return bool(node.value)
        tok = const_token(node)
        if tok is not None:
            return tok not in FALSY
        if isinstance(node, ast.Compare) and len(node.ops) == 1:
            op, left, right = node.ops[0], node.left, node.comparators[0]
            if isinstance(op, (ast.Eq, ast.NotEq)):
                res = self._eval_eq(left, right, st)
                if res is None:
                    return None
                return res if isinstance(op, ast.Eq) else not res
            if isinstance(op, (ast.In, ast.NotIn)):
                res = self._eval_in(left, right, st)
                if res is None:
                    return None
                return res if isinstance(op, ast.In) else not res
            if isinstance(op, (ast.Is, ast.IsNot)):
                if const_token(right) == "None":
                    res = self._eval_none(left, st)
                elif const_token(left) == "None":
                    res = self._eval_none(right, st)
                else:
                    res = self._eval_eq(left, right, st)
                if res is None:
                    return None
                return res if isinstance(op, ast.Is) else not res
            if isinstance(op, (ast.Lt, ast.LtE, ast.Gt, ast.GtE)):
                lt, rt = const_token(left), const_token(right)
                if lt is not None and rt is not None:
                    try:
                        lv, rv = ast.literal_eval(lt), ast.literal_eval(rt)
                        return bool({ast.Lt: lv < rv, ast.LtE: lv <= rv, ast.Gt: lv > rv, ast.GtE: lv >= rv}[type(op)])
                    except (ValueError, TypeError, SyntaxError):
                        return None
                # one side has a known finite set of numbers
                if (lt is None) != (rt is None):
                    other = left if lt is None else right
                    vals = self._vals(unparse(other), st)
                    if vals:
                        try:
                            c = ast.literal_eval(rt if lt is None else lt)  # type: ignore[arg-type]
                            nums = [ast.literal_eval(v) for v in vals]
                            if isinstance(c, (int, float)) and all(isinstance(n, (int, float)) and not isinstance(n, bool) for n in nums):
                                pyop = {ast.Lt: lambda a, b: a < b, ast.LtE: lambda a, b: a <= b, ast.Gt: lambda a, b: a > b, ast.GtE: lambda a, b: a >= b}[type(op)]
                                outs = {bool(pyop(n, c) if lt is None else pyop(c, n)) for n in nums}
                                if len(outs) == 1:
                                    return outs.pop()
                        except (ValueError, TypeError, SyntaxError):
                            pass
                key, flip = self._lt_key(op, left, right)
                res = self._fact(key, st)
                if res is None:
                    return None
                return res != flip
            return None
        key = unparse(node)
        vals = self._vals(key, st)
        if vals is not None and vals:
            if all(v in FALSY for v in vals):
                return False
            if not any(v in FALSY for v in vals):
                return True
        fact = self._fact(key, st)
        if fact is not None:
            return fact
        if self._fact(f"{key} is None", st) is True:
            return False
        return None

    @staticmethod
    def _lt_key(op: ast.cmpop, left: ast.expr, right: ast.expr) -> tuple[str, bool]:
        """(key of a strict '<' atom, flip) such that truth(op) = fact(key) xor flip"""
        lt, rt = unparse(left), unparse(right)
        if isinstance(op, ast.Lt):
            return f"{lt} < {rt}", False
        if isinstance(op, ast.GtE):
            return f"{lt} < {rt}", True
        if isinstance(op, ast.Gt):
            return f"{rt} < {lt}", False
        return f"{rt} < {lt}", True  # LtE

    def _eval_eq(self, left: ast.expr, right: ast.expr, st: State) -> Optional[bool]:
        lt, rt = const_token(left), const_token(right)
        if lt is not None and rt is not None:
            return lt == rt
        if lt is not None:
            left, right, lt, rt = right, left, rt, lt
        if rt is not None:
            key = unparse(left)
            vals = self._vals(key, st)
            if vals is not None:
                if vals == {rt}:
                    return True
                if rt not in vals:
                    return False
                return None
            if rt in st.nvals.get(key, ()):  # excluded
                return False
            if rt == "None":
                return self._eval_none(left, st)
            if self._fact(f"{key} is None", st) is True:
                return False
            return self._fact(self._eq_key(left, right), st)
        if unparse(left) == unparse(right):
            return True
        return self._fact(self._eq_key(left, right), st)

    def _eval_in(self, left: ast.expr, right: ast.expr, st: State) -> Optional[bool]:
        if isinstance(right, (ast.Tuple, ast.List, ast.Set)):
            toks = [const_token(e) for e in right.elts]
            if all(t is not None for t in toks):
                lt = const_token(left)
                if lt is not None:
                    return lt in toks
                key = unparse(left)
                vals = self._vals(key, st)
                if vals is not None:
                    if vals <= set(toks):
                        return True
                    if not vals & set(toks):
                        return False
                    return None
                if set(toks) <= st.nvals.get(key, frozenset()):
                    return False
                return None
            # generic elements: x in (a, b)  ==  x == a or x == b
            results = [self._eval_eq(left, e, st) for e in right.elts]
            if any(r is True for r in results):
                return True
            if all(r is False for r in results):
                return False
        if isinstance(right, ast.Name) and right.id not in self.locals and const_token(left) is not None:
            try:
                folded = self.prg.fold(self.func.module, right)
                return ast.literal_eval(const_token(left)) in folded  # type: ignore[operator,arg-type]
            except (ValueError, TypeError, SyntaxError):
                pass
        return self._fact(f"{unparse(left)} in {unparse(right)}", st)

    def _eval_none(self, node: ast.expr, st: State) -> Optional[bool]:
        tok = const_token(node)
        if tok is not None:
            return tok == "None"
        if isinstance(node, (ast.Call,)) and isinstance(node.func, ast.Name) and node.func.id in ("list", "set", "dict", "tuple", "sorted", "len", "str", "int", "bool", "frozenset"):
            return False
        if isinstance(node, (ast.List, ast.Tuple, ast.Set, ast.Dict, ast.ListComp, ast.SetComp, ast.DictComp, ast.JoinedStr, ast.BinOp, ast.Lambda)):
            return False
        key = unparse(node)
        vals = self._vals(key, st)
        if vals is not None:
            if vals == {"None"}:
                return True
            if "None" not in vals:
                return False
        fact = self._fact(f"{key} is None", st)
        if fact is not None:
            return fact
        if self._fact(key, st) is True:  # truthy -> not None
            return False
        return None

    # ---- learning
    def _learn_val(self, key: str, tok: str, want: bool, st: State) -> bool:
        st.touch()
        cur = self._vals(key, st)
        if cur is None:
            dom = token_domain(tok)
            if dom is not None and len(dom) <= 10:
                cur = dom - st.nvals.get(key, frozenset())
        if want:
            new = frozenset({tok}) if cur is None else cur & {tok}
            if cur is None and tok in st.nvals.get(key, ()):  # contradiction
                return False
            if not new:
                return False
            st.vals[key] = new
            return True
        if cur is not None:
            new = cur - {tok}
            if not new:
                return False
            st.vals[key] = new
            return True
        st.nvals[key] = st.nvals.get(key, frozenset()) | {tok}
        return True

    def _learn_in(self, key: str, toks: set[str], want: bool, st: State) -> bool:
        st.touch()
        cur = self._vals(key, st)
        if cur is None:
            for tok in toks:
                dom = token_domain(tok)
                if dom is not None and len(dom) <= 10:
                    cur = dom - st.nvals.get(key, frozenset())
                    break
        if want:
            new = frozenset(toks) - st.nvals.get(key, frozenset()) if cur is None else cur & toks
            if not new:
                return False
            st.vals[key] = new
            return True
        if cur is not None:
            new = cur - toks
            if not new:
                return False
            st.vals[key] = new
            return True
        st.nvals[key] = st.nvals.get(key, frozenset()) | toks
        return True

    def assume_atom(self, node: ast.expr, want: bool, st: State, orig: Optional[ast.expr] = None) -> bool:
        """learn that the *expanded* atom has truth `want`; False if contradictory"""
        st.touch()
        if isinstance(node, ast.Compare) and len(node.ops) == 1:
            op, left, right = node.ops[0], node.left, node.comparators[0]
            if isinstance(op, (ast.Eq, ast.NotEq, ast.Is, ast.IsNot)):
                pos = want if isinstance(op, (ast.Eq, ast.Is)) else not want
                lt, rt = const_token(left), const_token(right)
                if lt is not None and rt is None:
                    left, right, lt, rt = right, left, rt, lt
                if rt is not None and lt is None:
                    if rt == "None":
                        st.facts[f"{unparse(left)} is None"] = pos
                        if pos:
                            st.facts[unparse(left)] = False
                        return True
                    return self._learn_val(unparse(left), rt, pos, st)
                st.facts[self._eq_key(left, right)] = pos
                return True
            if isinstance(op, (ast.In, ast.NotIn)):
                pos = want if isinstance(op, ast.In) else not want
                if isinstance(right, (ast.Tuple, ast.List, ast.Set)):
                    toks = [const_token(e) for e in right.elts]
                    if all(t is not None for t in toks) and const_token(left) is None:
                        return self._learn_in(unparse(left), set(toks), pos, st)  # type: ignore[arg-type]
                    if not pos:
                        for e in right.elts:
                            if const_token(e) is None and const_token(left) is None:
                                st.facts[self._eq_key(left, e)] = False
                st.facts[f"{unparse(left)} in {unparse(right)}"] = pos
                return True
            if isinstance(op, (ast.Lt, ast.LtE, ast.Gt, ast.GtE)):
                key, flip = self._lt_key(op, left, right)
                st.facts[key] = want != flip
                return True
        key = unparse(node)
        st.facts[key] = want
        if want:
            st.facts[f"{key} is None"] = False
        # helper summaries
        if isinstance(node, ast.Call) and self.summaries is not None and orig is not None and isinstance(orig, ast.Call):
            self._apply_summary(orig, node, want, st)
        return True

    def _apply_summary(self, orig: ast.Call, expanded: ast.Call, want: bool, st: State) -> None:
        callee = self.prg.resolve_callee(self.func, orig.func) if not (isinstance(orig.func, ast.Name) and orig.func.id in self.locals) else None
        if callee is None or callee not in self.prg.funcs or self.summaries is None:
            return
        summ = self.summaries.get(callee, self.depth + 1)
        if summ is None:
            return
        conds = summ.truthy if want else summ.falsy
        if not conds:
            return
        params = list(summ.params)
        if params and params[0] in ("self", "cls") and isinstance(orig.func, ast.Attribute):
            params = params[1:]
        mapping: dict[str, ast.expr] = {}
        for p, a in zip(params, expanded.args):
            mapping[p] = a
        for kw in expanded.keywords:
            if kw.arg:
                mapping[kw.arg] = kw.value
        for cond, truth in conds:
            if not names_in(cond) <= set(mapping) | {"self"} | set(load_enums()) | {"Infimum", "Supremum"}:
                continue
            inst = _Expander(mapping, {}).visit(copy.deepcopy(cond))
            self.assume_atom(inst, truth, st)


def _local_names(func: Func) -> set[str]:
    out = set(func.params())
    node = func.node
    body = [node.body] if isinstance(node, ast.Lambda) else node.body  # type: ignore[attr-defined]
    todo: list[ast.AST] = list(body)
    while todo:
        cur = todo.pop()
        if isinstance(cur, (ast.FunctionDef, ast.AsyncFunctionDef, ast.ClassDef)):
            out.add(cur.name)
            continue
        if isinstance(cur, ast.Lambda):
            continue
        if isinstance(cur, ast.Name) and isinstance(cur.ctx, (ast.Store, ast.Del)):
            out.add(cur.id)
        todo.extend(ast.iter_child_nodes(cur))
    return out


def _mutated_names(func: Func) -> set[str]:
    """locals that are mutated in place somewhere in the function (receiver of a mutator, subscript store, augmented assignment)"""
    out: set[str] = set()
    for node in ast.walk(func.node):
        if isinstance(node, ast.Call) and isinstance(node.func, ast.Attribute) and node.func.attr in MUTATORS and isinstance(node.func.value, ast.Name):
            out.add(node.func.value.id)
        elif isinstance(node, (ast.Assign, ast.AugAssign, ast.Delete)):
            targets = node.targets if isinstance(node, (ast.Assign, ast.Delete)) else [node.target]
            for t in targets:
                if isinstance(t, ast.Subscript) and isinstance(t.value, ast.Name):
                    out.add(t.value.id)
                if isinstance(node, ast.AugAssign) and isinstance(t, ast.Name):
                    out.add(t.id)
    return out


@dataclass
class Flow:
    fall: list[State] = field(default_factory=list)
    brk: list[State] = field(default_factory=list)
    cont: list[State] = field(default_factory=list)
    ret: list[State] = field(default_factory=list)
    exc: list[State] = field(default_factory=list)
    iret: list[tuple[ast.Return, State]] = field(default_factory=list)  # returns of an inlined helper (see s_With)

    def absorb(self, other: "Flow") -> None:
        self.brk.extend(other.brk)
        self.cont.extend(other.cont)
        self.ret.extend(other.ret)
        self.exc.extend(other.exc)
        self.iret.extend(other.iret)


class SummaryTable:
    """facts about the arguments at truthy / falsy / non-None returns of small ngo helpers"""

    def __init__(self, prg: Program, max_depth: int = 3) -> None:
        self.prg = prg
        self.max_depth = max_depth
        self.cache: dict[str, Optional[Summary]] = {}
        self.active: set[str] = set()

    def get(self, qualname: str, depth: int = 0) -> Optional[Summary]:
        if qualname in self.cache:
            return self.cache[qualname]
        if depth > self.max_depth or qualname in self.active:
            return None
        func = self.prg.funcs.get(qualname)
        if func is None or isinstance(func.node, ast.Lambda):
            return None
        if sum(1 for _ in ast.walk(func.node)) > 1200:
            self.cache[qualname] = None
            return None
        self.active.add(qualname)
        try:
            interp = Interp(self.prg, func, summaries=self, depth=depth)
            summ = self._summarise(interp, func)
        finally:
            self.active.discard(qualname)
        self.cache[qualname] = summ
        return summ

    def _summarise(self, interp: Interp, func: Func) -> Summary:
        params = func.params()
        truthy: list[State] = []
        falsy: list[State] = []
        notnone: list[State] = []
        maybe_implicit_none = bool(interp.exits)
        for node, st in interp.returns:
            if node.value is None:
                falsy.append(st)
                continue
            tok = const_token(node.value)
            if tok == "None":
                falsy.append(st)
                continue
            notnone.append(st)
            for s, truth in interp.eval_cond(node.value, st.copy(), record=False):
                (truthy if truth else falsy).append(s)
        falsy.extend(interp.exits)
        if maybe_implicit_none:
            pass

        def common(states: list[State]) -> Optional[list[tuple[ast.expr, bool]]]:
            if not states:
                return None
            allowed = set(params)
            out: list[tuple[ast.expr, bool]] = []
            facts = set(states[0].facts.items())
            for st in states[1:]:
                facts &= set(st.facts.items())
            for key, truth in sorted(facts):
                try:
                    tree = ast.parse(key, mode="eval").body
                except SyntaxError:
                    continue
                if _param_only(tree, allowed):
                    out.append((tree, truth))
            keys = set(states[0].vals)
            for st in states[1:]:
                keys &= set(st.vals)
            for key in sorted(keys):
                union: set[str] = set()
                for st in states:
                    union |= st.vals[key]
                try:
                    tree = ast.parse(key, mode="eval").body
                except SyntaxError:
                    continue
                if _param_only(tree, allowed):
                    elts = [ast.parse(tok, mode="eval").body for tok in sorted(union)]
                    out.append((ast.Compare(left=tree, ops=[ast.In()], comparators=[ast.Tuple(elts=elts, ctx=ast.Load())]), True))
            nkeys = set(states[0].nvals)
            for st in states[1:]:
                nkeys &= set(st.nvals)
            for key in sorted(nkeys):
                inter = set(states[0].nvals[key])
                for st in states[1:]:
                    inter &= st.nvals[key]
                try:
                    tree = ast.parse(key, mode="eval").body
                except SyntaxError:
                    continue
                if inter and _param_only(tree, allowed):
                    elts = [ast.parse(tok, mode="eval").body for tok in sorted(inter)]
                    out.append((ast.Compare(left=tree, ops=[ast.NotIn()], comparators=[ast.Tuple(elts=elts, ctx=ast.Load())]), True))
            return out

        return Summary(params, common(truthy), common(falsy), common(notnone))


def _param_only(tree: ast.expr, params: set[str]) -> bool:
    """the expression mentions parameters (and enum classes) only, and no calls of unknown purity on locals"""
    enums = set(load_enums()) | {"Infimum", "Supremum", "len", "bool", "isinstance", "AST"}
    for name in names_in(tree):
        if name not in params and name not in enums:
            return False
    return bool(names_in(tree) & params)


def find_nodes(root: ast.AST, pred: Callable[[ast.AST], bool], into_nested: bool = False) -> list[ast.AST]:
    """nodes below root (in source order) that satisfy pred; nested defs/lambdas are skipped unless asked"""
    out: list[ast.AST] = []

    def walk(node: ast.AST, top: bool) -> None:
        if not top and not into_nested and isinstance(node, (ast.FunctionDef, ast.AsyncFunctionDef, ast.Lambda, ast.ClassDef)):
            return
        if pred(node):
            out.append(node)
        for child in ast.iter_child_nodes(node):
            walk(child, False)

    walk(root, True)
    return out
