"""seeded-variant battery (thorough tier) - see DESIGN §6"""
from __future__ import annotations


def run(prop: str, rule_ids: list[str]) -> dict[str, object]:
    from .battery import run_battery

    return run_battery(prop, rule_ids)


def main(argv: list[str]) -> int:
    from .battery import main as bmain

    return bmain(argv)
