"""variant battery of the thorough tier (DESIGN §6): tests the *checker*, never turns into a verdict about /repo.

Variants are computed on scratch copies of /repo/src/ngo (under $TMPDIR, removed immediately):
  neutral  - behaviour-preserving rewrites of the whole package (ast round trip, renaming of local variables, ...):
             every check must stay silent (no VIOLATION, no ANALYSIS-ERROR beyond the clean tree's output);
  breaking - the confirmed seeded changes under /verif/seeded (patch.diff): the check of the seeded property must fire.
Results go into the evidence (`selftest`)."""

from __future__ import annotations

import ast
import json
import os
import shutil
import subprocess
import sys
import tempfile
from concurrent.futures import ThreadPoolExecutor
from typing import Callable, Optional

VERIF = os.path.dirname(os.path.dirname(os.path.abspath(__file__)))
REPO = os.environ.get("NGOSA_REPO", "/repo")


# ------------------------------------------------------------------------------------------------ neutral rewrites
def n_unparse(src: str, path: str) -> str:
    """ast round trip: drops comments, normalises layout, quotes and parentheses"""
    return ast.unparse(ast.parse(src)) + "\n"


class _Renamer(ast.NodeTransformer):
    """rename the local variables of every function (not parameters, not names declared global)"""

    def __init__(self, suffix: str):
        self.suffix = suffix
        self.stack: list[set[str]] = []

    def _locals(self, node: ast.AST) -> set[str]:
        params = set()
        args = node.args  # type: ignore[attr-defined]
        for a in args.posonlyargs + args.args + args.kwonlyargs:
            params.add(a.arg)
        if args.vararg:
            params.add(args.vararg.arg)
        if args.kwarg:
            params.add(args.kwarg.arg)
        assigned: set[str] = set()
        glob: set[str] = set()
        todo = list(node.body) if not isinstance(node, ast.Lambda) else [node.body]  # type: ignore[attr-defined]
        while todo:
            cur = todo.pop()
            if isinstance(cur, (ast.FunctionDef, ast.AsyncFunctionDef, ast.ClassDef)):
                assigned.add(cur.name)
                continue
            if isinstance(cur, ast.Lambda):
                continue
            if isinstance(cur, ast.Global):
                glob |= set(cur.names)
            if isinstance(cur, ast.Name) and isinstance(cur.ctx, (ast.Store, ast.Del)):
                assigned.add(cur.id)
            if isinstance(cur, (ast.ListComp, ast.SetComp, ast.DictComp, ast.GeneratorExp)):
                # comprehension targets live in their own scope; renaming them consistently is fine too
                pass
            todo.extend(ast.iter_child_nodes(cur))
        nested_defs = {n.name for n in ast.walk(node) if isinstance(n, (ast.FunctionDef, ast.ClassDef)) and n is not node}
        return {n for n in assigned - params - glob - nested_defs if not n.startswith("__")}

    def visit_FunctionDef(self, node: ast.FunctionDef) -> ast.AST:
        args = node.args
        params = {a.arg for a in args.posonlyargs + args.args + args.kwonlyargs}
        if args.vararg:
            params.add(args.vararg.arg)
        if args.kwarg:
            params.add(args.kwarg.arg)
        node.args.defaults = [self.visit(d) for d in node.args.defaults]
        node.args.kw_defaults = [self.visit(d) if d is not None else None for d in node.args.kw_defaults]
        node.decorator_list = [self.visit(d) for d in node.decorator_list]
        self.stack.append(self._locals(node) | {f"-{p}" for p in params})
        node.body = [self.visit(b) for b in node.body]
        self.stack.pop()
        return node

    visit_AsyncFunctionDef = visit_FunctionDef  # type: ignore[assignment]

    def visit_Lambda(self, node: ast.Lambda) -> ast.AST:
        # lambda parameters shadow outer locals
        params = {a.arg for a in node.args.posonlyargs + node.args.args + node.args.kwonlyargs}
        node.args.defaults = [self.visit(d) for d in node.args.defaults]  # evaluated in the enclosing scope
        node.args.kw_defaults = [self.visit(d) if d is not None else None for d in node.args.kw_defaults]
        self.stack.append({"<lambda>"} | {f"-{p}" for p in params})
        node.body = self.visit(node.body)
        self.stack.pop()
        return node

    def _rename(self, name: str) -> str:
        for scope in reversed(self.stack):
            if f"-{name}" in scope:
                return name  # shadowed by a lambda parameter
            if name in scope:
                return name + self.suffix
        return name

    def visit_Name(self, node: ast.Name) -> ast.AST:
        node.id = self._rename(node.id)
        return node

    def visit_Nonlocal(self, node: ast.Nonlocal) -> ast.AST:
        node.names = [self._rename(n) for n in node.names]
        return node


def n_rename(src: str, path: str) -> str:
    tree = ast.parse(src)
    tree = _Renamer("_v").visit(tree)
    return ast.unparse(ast.fix_missing_locations(tree)) + "\n"


class _ExtractConditions(ast.NodeTransformer):
    """`if <cond>:` (not elif)  ->  `_c<n> = <cond>; if _c<n>:`  for compound conditions"""

    def __init__(self) -> None:
        self.n = 0

    def _block(self, stmts: list[ast.stmt]) -> list[ast.stmt]:
        out: list[ast.stmt] = []
        for stmt in stmts:
            stmt = self.visit(stmt)
            if isinstance(stmt, ast.If) and isinstance(stmt.test, (ast.BoolOp, ast.Compare)) and not any(isinstance(n, (ast.NamedExpr, ast.Yield, ast.Await)) for n in ast.walk(stmt.test)):
                self.n += 1
                name = f"cond_tmp{self.n}"
                out.append(ast.Assign(targets=[ast.Name(name, ast.Store())], value=stmt.test, lineno=stmt.lineno))
                stmt.test = ast.Name(name, ast.Load())
            out.append(stmt)
        return out

    def generic_visit(self, node: ast.AST) -> ast.AST:
        for fld in ("body", "orelse", "finalbody"):
            val = getattr(node, fld, None)
            if isinstance(val, list) and val and isinstance(val[0], ast.stmt):
                if fld == "orelse" and isinstance(node, ast.If) and len(val) == 1 and isinstance(val[0], ast.If):
                    val[0] = self.generic_visit(val[0])  # elif: keep evaluation order  # type: ignore[assignment]
                    continue
                setattr(node, fld, self._block(val))
        for name, val in ast.iter_fields(node):
            if name in ("body", "orelse", "finalbody"):
                continue
            if isinstance(val, ast.AST):
                self.generic_visit(val) if not isinstance(val, ast.stmt) else None
            elif isinstance(val, list):
                for item in val:
                    if isinstance(item, ast.ExceptHandler):
                        item.body = self._block(item.body)
        return node


def n_extract(src: str, path: str) -> str:
    tree = ast.parse(src)
    tree = _ExtractConditions().generic_visit(tree)
    return ast.unparse(ast.fix_missing_locations(tree)) + "\n"


class _Membership(ast.NodeTransformer):
    """x in (A, B) -> x == A or x == B ; x not in (A, B) -> x != A and x != B ; a == b -> b == a for non-constant sides"""

    def visit_Compare(self, node: ast.Compare) -> ast.AST:
        self.generic_visit(node)
        if len(node.ops) != 1:
            return node
        op, right = node.ops[0], node.comparators[0]
        simple = isinstance(node.left, (ast.Name, ast.Attribute))
        if isinstance(op, (ast.In, ast.NotIn)) and isinstance(right, ast.Tuple) and 1 < len(right.elts) <= 4 and simple and all(isinstance(e, ast.Attribute) for e in right.elts):
            import copy as _c

            parts = [ast.Compare(left=_c.deepcopy(node.left), ops=[ast.Eq() if isinstance(op, ast.In) else ast.NotEq()], comparators=[e]) for e in right.elts]
            return ast.BoolOp(op=ast.Or() if isinstance(op, ast.In) else ast.And(), values=parts)
        if isinstance(op, (ast.Eq, ast.NotEq)) and not isinstance(node.left, ast.Constant) and not isinstance(right, ast.Constant) and isinstance(right, (ast.Name, ast.Attribute)) and isinstance(node.left, (ast.Name, ast.Attribute)):
            return ast.Compare(left=right, ops=[op], comparators=[node.left])
        return node


def n_membership(src: str, path: str) -> str:
    tree = _Membership().visit(ast.parse(src))
    return ast.unparse(ast.fix_missing_locations(tree)) + "\n"


def _ends(block: list[ast.stmt]) -> bool:
    if not block:
        return False
    last = block[-1]
    if isinstance(last, (ast.Return, ast.Raise, ast.Continue, ast.Break)):
        return True
    return isinstance(last, ast.If) and bool(last.orelse) and _ends(last.body) and _ends(last.orelse)


def n_invert_if(src: str, path: str) -> str:
    """`if c: A else: B` -> `if not c: B else: A` (every if that has an else part)"""
    tree = ast.parse(src)
    for node in ast.walk(tree):
        if isinstance(node, ast.If) and node.orelse and not any(isinstance(n, ast.NamedExpr) for n in ast.walk(node.test)):
            node.test = ast.UnaryOp(op=ast.Not(), operand=node.test)
            node.body, node.orelse = node.orelse, node.body
    return ast.unparse(ast.fix_missing_locations(tree)) + "\n"


def n_else_after_return(src: str, path: str) -> str:
    """`if c: ...; return` followed by more statements -> the rest moves into an `else:`"""
    tree = ast.parse(src)
    changed = True
    while changed:
        changed = False
        for holder in ast.walk(tree):
            for fld in ("body", "orelse", "finalbody"):
                block = getattr(holder, fld, None)
                if not isinstance(block, list) or len(block) < 2 or not isinstance(block[0], ast.stmt):
                    continue
                for i, stmt in enumerate(block[:-1]):
                    if isinstance(stmt, ast.If) and not stmt.orelse and _ends(stmt.body) and not getattr(stmt, "_done", False):
                        stmt.orelse = block[i + 1 :]
                        del block[i + 1 :]
                        stmt._done = True  # type: ignore[attr-defined]
                        changed = True
                        break
                if changed:
                    break
            if changed:
                break
    return ast.unparse(ast.fix_missing_locations(tree)) + "\n"


def n_logging(src: str, path: str) -> str:
    """a log.debug(...) call at the start of every loop body and every branch (modules that have a module logger `log`)"""
    tree = ast.parse(src)
    if not any(isinstance(n, ast.Assign) and any(isinstance(t, ast.Name) and t.id == "log" for t in n.targets) for n in tree.body):
        return src
    k = [0]

    def stmt() -> ast.stmt:
        k[0] += 1
        return ast.Expr(ast.Call(func=ast.Attribute(value=ast.Name("log", ast.Load()), attr="debug", ctx=ast.Load()), args=[ast.Constant(f"trace {k[0]}")], keywords=[]))

    for node in ast.walk(tree):
        if isinstance(node, (ast.For, ast.While, ast.If)):
            node.body.insert(0, stmt())
            if isinstance(node, ast.If) and node.orelse and not (len(node.orelse) == 1 and isinstance(node.orelse[0], ast.If)):
                node.orelse.insert(0, stmt())
    return ast.unparse(ast.fix_missing_locations(tree)) + "\n"


def n_combined(src: str, path: str) -> str:
    """all of the above on top of each other"""
    for fn in (n_rename, n_membership, n_else_after_return, n_invert_if, n_extract):
        src = fn(src, path)
    return src


NEUTRAL: dict[str, Callable[[str, str], str]] = {"ast-roundtrip": n_unparse, "rename-locals": n_rename, "extract-conditions": n_extract, "membership-and-eq-forms": n_membership, "invert-if-else": n_invert_if, "else-after-return": n_else_after_return, "combined": n_combined, "logging-calls": n_logging}


# ------------------------------------------------------------------------------------------------ running
def _scratch(transform: Optional[Callable[[str, str], str]] = None, patch: Optional[str] = None) -> str:
    root = tempfile.mkdtemp(prefix="ngosa-variant-")
    dst = os.path.join(root, "src", "ngo")
    shutil.copytree(os.path.join(REPO, "src", "ngo"), dst, ignore=shutil.ignore_patterns("__pycache__"))
    if transform is not None:
        for dirpath, _dirs, files in os.walk(dst):
            for fn in files:
                if fn.endswith(".py"):
                    p = os.path.join(dirpath, fn)
                    with open(p, encoding="utf-8") as fh:
                        src = fh.read()
                    with open(p, "w", encoding="utf-8") as fh:
                        fh.write(transform(src, p))
    if patch is not None:
        res = subprocess.run(["patch", "-s", "-p1", "-F3", "-i", patch], cwd=root, capture_output=True, text=True, check=False)
        if res.returncode != 0:
            shutil.rmtree(root, ignore_errors=True)
            raise RuntimeError(f"patch does not apply: {res.stdout}{res.stderr}")
    return root


def _run_check(root: str, prop: str) -> tuple[int, list[str]]:
    env = dict(os.environ)
    env["NGOSA_REPO"] = root
    env["NGOSA_EVIDENCE"] = os.path.join(root, "evidence")
    env["VERIF_TIER"] = "quick"
    res = subprocess.run([sys.executable, "-m", "ngosa.cli", prop, "--tier", "quick"], cwd=VERIF, env=env, capture_output=True, text=True, check=False)
    lines = [l for l in res.stdout.splitlines() if l.startswith(("VIOLATION", "ANALYSIS-ERROR", "  rule "))]
    return res.returncode, lines


def run_battery(prop: str, rule_ids: list[str]) -> dict[str, object]:
    """neutral variants for this property + the seeds recorded for it"""
    out: dict[str, object] = {}
    jobs: list[tuple[str, str, Optional[Callable[[str, str], str]], Optional[str]]] = []
    for name, fn in NEUTRAL.items():
        jobs.append(("neutral", name, fn, None))
    refac = os.path.join(VERIF, "neutral")
    for rid in sorted(os.listdir(refac)) if os.path.isdir(refac) else []:
        pth = os.path.join(refac, rid, "patch.diff")
        if os.path.exists(pth):
            jobs.append(("neutral", f"refactoring {rid}", None, pth))
    seeded = os.path.join(VERIF, "seeded")
    for sid in sorted(os.listdir(seeded)) if os.path.isdir(seeded) else []:
        meta_p = os.path.join(seeded, sid, "meta.json")
        if not os.path.exists(meta_p):
            continue
        with open(meta_p, encoding="utf-8") as fh:
            meta = json.load(fh)
        if meta.get("property") == prop or prop in meta.get("also_breaks", []):
            jobs.append(("breaking", sid, None, os.path.join(seeded, sid, "patch.diff")))

    def work(job):  # type: ignore[no-untyped-def]
        kind, name, fn, patch = job
        try:
            root = _scratch(fn, patch)
        except Exception as err:  # pylint: disable=broad-exception-caught
            return kind, name, 3, [f"variant could not be built: {err}"]
        try:
            rc, lines = _run_check(root, prop)
        finally:
            shutil.rmtree(root, ignore_errors=True)
        return kind, name, rc, lines

    with ThreadPoolExecutor(max_workers=min(12, max(1, len(jobs)))) as pool:
        results = list(pool.map(work, jobs))
    neutral = {name: {"exit": rc, "silent": rc == 0, "report": lines[:4]} for kind, name, rc, lines in results if kind == "neutral"}
    breaking = {name: {"exit": rc, "detected": rc == 1, "report": [l for l in lines if l.startswith("  rule ")][:2]} for kind, name, rc, lines in results if kind == "breaking"}
    out["neutral_variants"] = neutral
    out["neutral_silent"] = sum(1 for v in neutral.values() if v["silent"])
    out["neutral_total"] = len(neutral)
    out["seeded_variants"] = breaking
    out["variants_detected"] = sum(1 for v in breaking.values() if v["detected"])
    out["variants_missed"] = sum(1 for v in breaking.values() if not v["detected"])
    out["note"] = "the battery measures the checker; it never produces a VIOLATION for /repo"
    return out


def main(argv: list[str]) -> int:
    props = argv or [c["property_id"] for c in json.load(open(os.path.join(VERIF, "MANIFEST.json"), encoding="utf-8"))["checks"]]
    bad = 0
    for prop in props:
        res = run_battery(prop, [])
        print(prop, "neutral silent", res["neutral_silent"], "/", res["neutral_total"], "| seeds detected", res["variants_detected"], "missed", res["variants_missed"])
        for name, v in res["neutral_variants"].items():  # type: ignore[union-attr]
            if not v["silent"]:
                bad += 1
                print("   NOT SILENT on", name, v["exit"], v["report"])
        for name, v in res["seeded_variants"].items():  # type: ignore[union-attr]
            if not v["detected"]:
                print("   MISSED", name, v["exit"])
    return 1 if bad else 0
