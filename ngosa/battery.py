"""placeholder until the variant battery is built"""
from __future__ import annotations


def run_battery(prop: str, rule_ids: list[str]) -> dict[str, object]:
    return {"status": "battery not built yet", "variants": 0}


def main(argv: list[str]) -> int:
    print("battery not built yet")
    return 0
