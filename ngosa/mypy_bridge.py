"""one mypy build (as a library) of /repo/src/ngo: expression types keyed by source span, and the error list.

mypy is the repository's own `typecheck` extra (pyproject.toml) and is present in /venv; it is used only to read
types - nothing of ngo is executed.  Run in a subprocess-free way but cached per process."""

from __future__ import annotations

import os
import sys
from typing import Optional

from .model import SRC, AnalysisError

_RESULT: Optional["TypeInfo"] = None


class TypeInfo:
    def __init__(self) -> None:
        self.types: dict[tuple[str, int, int, int, int], str] = {}  # (module, line, col, end_line, end_col) -> type text
        self.errors: list[tuple[str, int, str, str]] = []  # (file, line, code, message)
        self.notes: list[str] = []

    def type_at(self, module: str, node: object) -> Optional[str]:
        key = (module, getattr(node, "lineno", -1), getattr(node, "col_offset", -1), getattr(node, "end_lineno", -1), getattr(node, "end_col_offset", -1))
        return self.types.get(key)


def build(src: str = SRC, fresh: bool = False) -> TypeInfo:
    global _RESULT  # pylint: disable=global-statement
    if _RESULT is not None and not fresh:
        return _RESULT
    try:
        from mypy import build as mbuild
        from mypy.nodes import Expression, MypyFile
        from mypy.options import Options
        from mypy.find_sources import create_source_list
    except ImportError as err:  # pragma: no cover
        raise AnalysisError(f"mypy (the repository's typecheck extra) is not importable: {err}") from err
    opts = Options()
    opts.preserve_asts = True
    opts.export_types = True
    opts.incremental = False
    opts.cache_dir = os.devnull
    opts.follow_imports = "silent"
    opts.ignore_missing_imports = True
    opts.strict_optional = True
    opts.check_untyped_defs = True
    opts.hide_error_codes = False
    opts.enabled_error_codes = set()
    opts.mypy_path = [src]
    opts.namespace_packages = True
    opts.explicit_package_bases = True
    # sympy / networkx are huge and irrelevant for the types we read: do not follow them
    opts.per_module_options = {}
    cwd = os.getcwd()
    try:
        os.chdir(src)
        for mod in ("sympy", "sympy.*", "networkx", "networkx.*"):
            opts.per_module_options[mod] = {"follow_imports": "skip", "ignore_missing_imports": True}
        sources = create_source_list(["ngo"], opts)
        try:
            res = mbuild.build(sources=sources, options=opts)
        except Exception as err:  # pylint: disable=broad-exception-caught
            raise AnalysisError(f"mypy build failed: {err}") from err
    finally:
        os.chdir(cwd)
    info = TypeInfo()
    for line in res.errors:
        # src/ngo/x.py:12: error: message  [code]
        parts = line.split(":", 3)
        if len(parts) >= 4 and "error" in parts[2]:
            msg = parts[3].strip()
            code = ""
            if msg.endswith("]") and "[" in msg:
                code = msg[msg.rindex("[") + 1 : -1]
            try:
                info.errors.append((parts[0], int(parts[1]), code, msg))
            except ValueError:
                info.notes.append(line)
        else:
            info.notes.append(line)
    for expr, typ in res.types.items():
        pass
    # map expression nodes to modules through the trees
    for modname, state in res.graph.items():
        if not modname.startswith("ngo") or state.tree is None:
            continue
        _collect(state.tree, modname, res.types, info)
    if not fresh:
        _RESULT = info
    return info


def _collect(tree: object, modname: str, types: dict, info: TypeInfo) -> None:
    """walk a mypy tree without TraverserVisitor (which cannot be subclassed here): generic attribute walk"""
    from mypy.nodes import Expression, Node

    seen: set[int] = set()
    todo: list[object] = [tree]
    while todo:
        cur = todo.pop()
        if id(cur) in seen:
            continue
        seen.add(id(cur))
        if isinstance(cur, Expression):
            typ = types.get(cur)
            if typ is not None and cur.line >= 0 and cur.end_line is not None:
                info.types[(modname, cur.line, cur.column, cur.end_line, cur.end_column or -1)] = str(typ)
        if isinstance(cur, Node):
            for name in dir(type(cur)):
                pass
            for name, val in _fields(cur):
                if isinstance(val, Node):
                    todo.append(val)
                elif isinstance(val, (list, tuple)):
                    for item in val:
                        if isinstance(item, Node):
                            todo.append(item)
                        elif isinstance(item, (list, tuple)):
                            todo.extend(x for x in item if isinstance(x, Node))
                        elif isinstance(item, tuple):
                            todo.extend(x for x in item if isinstance(x, Node))
                elif isinstance(val, dict):
                    todo.extend(x for x in val.values() if isinstance(x, Node))


_SKIP = {"info", "type", "fullname", "node", "defn", "expr_fallback", "names", "imports", "defs_by_name", "unanalyzed_type", "type_annotation", "mro", "alias_deps", "plugin_deps"}


def _fields(node: object):  # type: ignore[no-untyped-def]
    """attributes of a (mypyc-compiled) mypy node: no __dict__, so walk dir(type(node))"""
    for name in dir(type(node)):
        if name.startswith("_") or name in _SKIP:
            continue
        try:
            val = getattr(node, name)
        except Exception:  # pylint: disable=broad-exception-caught
            continue
        if callable(val):
            continue
        yield name, val


if __name__ == "__main__":
    import time

    t = time.time()
    ti = build()
    print(len(ti.types), "typed expressions,", len(ti.errors), "errors", round(time.time() - t, 2), "s")
    for e in ti.errors[:20]:
        print(e)
