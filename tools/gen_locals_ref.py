#!/venv/bin/python
"""regenerate ngosa/locals_ref.json (fingerprints of local variables of the reference tree = /repo's current HEAD).
Run after every fix: commit in /repo."""
import json, os, sys
os.environ["NGOSA_NO_ALPHA"] = "1"
sys.path.insert(0, os.path.dirname(os.path.dirname(os.path.abspath(__file__))))
from ngosa import alpha
from ngosa.model import Program

prg = Program()
ref = {q: [list(t) for t in alpha.fingerprints(f.node)] for q, f in sorted(prg.funcs.items())}
json.dump(ref, open(alpha.REF_FILE, "w"), indent=0, sort_keys=True)
import ast
callers = {}
for q, f in sorted(prg.funcs.items()):
    for node in ast.walk(f.node):
        if isinstance(node, ast.Call):
            res = prg.resolve_callee(f, node.func)
            if res in prg.funcs and res != q:
                # the innermost enclosing function only
                callers.setdefault(res, set()).add(q)
inner = {c: sorted(x for x in qs if not any(y != x and y.startswith(x + ".<locals>.") for y in qs)) for c, qs in callers.items()}
json.dump(inner, open(os.path.join(os.path.dirname(alpha.REF_FILE), "callers_ref.json"), "w"), indent=0, sort_keys=True)
print(len(inner), "called functions")
print(len(ref), "functions,", sum(len(v) for v in ref.values()), "variables")
