#!/bin/bash
# patchcheck.sh <patch.diff> [props...] : run the checks against a scratch copy of /repo/src/ngo with an arbitrary patch applied
# (used for behaviour-preserving refactorings: every check must stay silent). /repo itself is never modified.
set -u
PATCH=$(readlink -f $1); shift
D=$(mktemp -d /tmp/patchchk.XXXXXX)
mkdir -p $D/src && cp -r /repo/src/ngo $D/src/ngo
find $D -name __pycache__ -prune -exec rm -rf {} + 2>/dev/null
(cd $D && patch -s -p1 -F3 < $PATCH) || { echo "$PATCH: patch does not apply"; rm -rf $D; exit 3; }
PROPS="$@"
[ -z "$PROPS" ] && PROPS=$(/venv/bin/python -c "import json;print(' '.join(c['property_id'] for c in json.load(open('/verif/MANIFEST.json'))['checks']))")
export D
run() { p=$1; out=$(cd ${VERIF_HOME:-/verif} && NGOSA_REPO=$D NGOSA_EVIDENCE=$D/evidence/$p ./check $p 2>&1); rc=$?; if [ $rc -ne 0 ]; then echo "== $p rc=$rc"; echo "$out" | grep -v "^\[\|^KNOWN" | sed "s#$D#<scratch>#g" | head -${PATCHCHECK_LINES:-6}; fi; }
export -f run
printf "%s\n" $PROPS | xargs -P 10 -I{} bash -c 'run {}'
rm -rf $D
