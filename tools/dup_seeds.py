#!/venv/bin/python
"""dup_seeds.py : stored seeded changes whose patch has the same changed lines (+/- lines, whitespace-insensitive); prints
groups, marking those within ONE property (a second copy for the same property adds nothing)"""
import glob
import hashlib
import os
import re
from collections import defaultdict

groups = defaultdict(list)
for patch in sorted(glob.glob("/verif/seeded/*/patch.diff")):
    lines = [re.sub(r"\s+", "", ln[1:]) for ln in open(patch, encoding="utf-8", errors="replace") if (ln.startswith("+") or ln.startswith("-")) and not ln.startswith(("+++", "---"))]
    sign = [ln[0] for ln in open(patch, encoding="utf-8", errors="replace") if (ln.startswith("+") or ln.startswith("-")) and not ln.startswith(("+++", "---"))]
    key = hashlib.md5("\n".join(s + l for s, l in zip(sign, lines) if l).encode()).hexdigest()
    groups[key].append(os.path.basename(os.path.dirname(patch)))
for key, ids in groups.items():
    if len(ids) > 1:
        props = [i.split("-")[0] for i in ids]
        same = sorted({p for p in props if props.count(p) > 1})
        print(" ".join(ids), "| same property:" if same else "", " ".join(same))
