#!/venv/bin/python
"""used_functions.py : the functions of /repo/src/ngo that stored seeded changes touch (per file), from the hunks of every
seeded/<id>/patch.diff - used to ask the next round of mutation agents for OTHER places"""
import ast
import glob
import re
import sys
from collections import defaultdict

REPO = "/repo"


def func_ranges(path):
    tree = ast.parse(open(path, encoding="utf-8").read())
    out = []

    def walk(node, prefix):
        for ch in ast.iter_child_nodes(node):
            if isinstance(ch, (ast.FunctionDef, ast.AsyncFunctionDef, ast.ClassDef)):
                name = f"{prefix}.{ch.name}" if prefix else ch.name
                if not isinstance(ch, ast.ClassDef):
                    out.append((ch.lineno - len(ch.decorator_list), ch.end_lineno, name))
                walk(ch, name)
            else:
                walk(ch, prefix)

    walk(tree, "")
    return out


def main():
    used = defaultdict(set)
    for patch in sorted(glob.glob("/verif/seeded/*/patch.diff")):
        cur = None
        old_line = 0
        for line in open(patch, encoding="utf-8", errors="replace"):
            if line.startswith("--- a/"):
                cur = line[6:].strip()
                continue
            if line.startswith("+++ ") or cur is None:
                continue
            m = re.match(r"@@ -(\d+)(?:,\d+)? \+\d+(?:,\d+)? @@", line)
            if m:
                old_line = int(m.group(1))
                continue
            if line.startswith("-"):
                used[cur].add(old_line)
                old_line += 1
            elif line.startswith("+"):
                used[cur].add(old_line)  # an insertion in front of old_line
            elif line.startswith(" "):
                old_line += 1
    for path in sorted(used):
        try:
            ranges = func_ranges(f"{REPO}/{path}")
        except (OSError, SyntaxError):
            continue
        names = set()
        for ln in used[path]:
            inner = [r for r in ranges if r[0] <= ln <= r[1]]
            if inner:
                names.add(max(inner, key=lambda r: r[0])[2])
        if names:
            print(f"  - {path}: {', '.join(sorted(names))}")


if __name__ == "__main__":
    sys.exit(main())
