#!/bin/bash
# seedcheck.sh <seed-id> [props...] : run checks against a scratch copy of /repo's working tree with the seeded patch applied
# (scratch copy under /tmp, removed afterwards; /repo itself is never modified)
set -u
ID=$1; shift
D=$(mktemp -d /tmp/seedchk.XXXXXX)
mkdir -p $D/src && cp -r /repo/src/ngo $D/src/ngo
find $D -name __pycache__ -prune -exec rm -rf {} + 2>/dev/null
(cd $D && patch -s -p1 < /verif/seeded/$ID/patch.diff) || { echo "$ID: patch does not apply"; rm -rf $D; exit 3; }
PROPS="$@"
[ -z "$PROPS" ] && PROPS=$(/venv/bin/python -c "import json;print(json.load(open('/verif/seeded/$ID/meta.json'))['property'])")
rc_all=0
for p in $PROPS; do
  out=$(cd ${VERIF_HOME:-/verif} && NGOSA_REPO=$D NGOSA_EVIDENCE=$D/evidence ./check $p 2>&1); rc=$?
  echo "== $ID vs $p: rc=$rc"
  echo "$out" | grep -v "^\[" | sed "s#$D#<scratch>#g" | head -${SEEDCHECK_LINES:-8}
done
rm -rf $D
