#!/venv/bin/python
"""regenerate MANIFEST.json from the table below (keeps it valid and in step with the registered rules)"""
import json, os, sys
sys.path.insert(0, os.path.dirname(os.path.dirname(os.path.abspath(__file__))))
from ngosa.manifest_data import CLAIMS, NOT_APPLICABLE

ids = [json.loads(l)["id"] for l in open("/verif/properties.jsonl")]
checks = []
for pid in ids:
    if pid not in CLAIMS:
        continue
    c = CLAIMS[pid]
    checks.append({
        "property_id": pid,
        "quick_cmd": f"./check {pid} --tier quick",
        "thorough_cmd": f"./check {pid} --tier thorough",
        "evidence_file": f"/verif/evidence/{pid}.json",
        "replay_cmd_template": "./check replay {path}",
        "engine": "ngosa",
        "level_claimed": {"category": "other", "text": c["text"], "design_ref": c.get("design_ref", f"DESIGN.md §4 {pid}")},
        "level_note": c["note"],
        "technique": c["technique"],
    })
na = [{"property_id": pid, "reason": NOT_APPLICABLE.get(pid, "check under construction (see DESIGN.md); not claimed yet")} for pid in ids if pid not in CLAIMS]
manifest = {
    "version": 1,
    "setup_cmd": "true",
    "hooks": {"guard": "NGO_VERIF", "enable": "none needed: the analyser reads /repo/src/ngo as text; there is no hook in /repo", "baseline_off_cmd": "cd /repo && /venv/bin/python -m pytest -q -p no:cacheprovider", "source_commits": [], "add_only": True},
    "engines": [{"name": "ngosa", "path": "/verif/ngosa", "serves_properties": sorted(CLAIMS), "kind_free_text": "repository-specific static analyser: program model + structured abstract interpreter (path-sensitive must-facts, enum value sets, pins) + decision tables + flow/kind rules over the Python source of ngo; stdlib ast only (mypy of the repo's own dev environment for type-dependent rules)"}],
    "checks": checks,
    "not_applicable": na,
    "notes": "Static analysis only: no check imports or runs ngo, grounds or solves. Every claimed check decides named structural clauses (necessary conditions) of its property, see level_claimed.text and DESIGN.md; exit 2 + ANALYSIS-ERROR means the analyser could not do its job (vanished anchor), never a verdict.",
}
json.dump(manifest, open("/verif/MANIFEST.json", "w"), indent=1)
print("claimed:", [c["property_id"] for c in checks])
