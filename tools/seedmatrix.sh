#!/bin/bash
# seedmatrix.sh [seed ids...] : every seed against every claimed property; one line per seed: which properties report VIOLATION / ANALYSIS-ERROR
cd /verif
PROPS=$(/venv/bin/python -c "import json;print(' '.join(c['property_id'] for c in json.load(open('MANIFEST.json'))['checks']))")
SEEDS="$@"; [ -z "$SEEDS" ] && SEEDS=$(ls -d seeded/*/ | xargs -n1 basename)
run() {
  id=$1
  out=$(SEEDCHECK_LINES=400 tools/seedcheck.sh $id $PROPS 2>&1)
  viol=$(echo "$out" | awk '/^== /{p=$4} /^VIOLATION/{v[p]=1} /^ANALYSIS-ERROR/{e[p]=1} END{for(k in v) printf "%s ", k; printf "| err: "; for(k in e) printf "%s ", k}')
  rules=$(echo "$out" | grep "^  rule " | awk '{print $2}' | sort -u | tr '\n' ' ')
  echo "$id -> VIOLATION in: $viol || rules: $rules"
}
export -f run; export PROPS
printf "%s\n" $SEEDS | xargs -P 8 -I{} bash -c 'run {}' | sort
