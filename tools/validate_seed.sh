#!/bin/bash
# validate_seed.sh <prop> <variant> : confirm a sub-agent's mutation in a fresh scratch worktree and store it under /verif/seeded
# usage: tools/validate_seed.sh C08 a
set -u
P=$1; V=$2
SRCROOT=${3:-/tmp/wt/out}; NEWV=${4:-$V}; SRC=$SRCROOT/$P/$V
ID=$P-$NEWV
WT=/tmp/val/$ID
mkdir -p /tmp/val
git -C /repo worktree add -q --detach $WT HEAD || exit 3
cd $WT
res_apply=ok
git apply $SRC/patch.diff 2>/dev/null || patch -s -p1 -F3 < $SRC/patch.diff || res_apply=fail; find . -name "*.orig" -delete
demo_with=NA; demo_without=NA; suite=NA
if [ $res_apply = ok ]; then
  changed=$(git diff --name-only | tr '\n' ' ')
  git diff > /tmp/val/$ID.applied.diff
  suite=$(PYTHONPATH=$WT/src /venv/bin/python -m pytest -q -p no:cacheprovider -n 6 -x 2>&1 | tail -1)
  (cd /tmp && PYTHONPATH=$WT/src timeout 600 /venv/bin/python $SRC/demo.py > /tmp/val/$ID.with.log 2>&1); demo_with=$?
  git checkout -q -- .
  (cd /tmp && PYTHONPATH=$WT/src timeout 600 /venv/bin/python $SRC/demo.py > /tmp/val/$ID.without.log 2>&1); demo_without=$?
fi
cd /
git -C /repo worktree remove --force $WT
echo "$ID apply=$res_apply suite=[$suite] demo_with=$demo_with demo_without=$demo_without changed=[${changed:-}]"
if [ "$res_apply" = ok ] && [ "$demo_with" = 1 ] && [ "$demo_without" = 0 ] && echo "$suite" | grep -q "466 passed"; then
  mkdir -p /verif/seeded/$ID
  cp $SRC/demo.py /verif/seeded/$ID/; cp /tmp/val/$ID.applied.diff /verif/seeded/$ID/patch.diff
  [ -f $SRC/notes.md ] && cp $SRC/notes.md /verif/seeded/$ID/
  /venv/bin/python - <<PY
import json
json.dump({"id":"$ID","property":"$P","patch":"patch.diff","demonstration":"demo.py",
 "changed_files":"${changed:-}".split(),
 "confirmed":{"suite":"$suite","demo_exit_with_patch":$demo_with,"demo_exit_without_patch":$demo_without,
  "how":"fresh git worktree of /repo HEAD; git apply patch.diff; PYTHONPATH=<wt>/src pytest -n 6 (466 tests); demo.py with and without the patch"},
 "needs_to_manifest":"see notes.md","detected_by":None}, open("/verif/seeded/$ID/meta.json","w"), indent=1)
PY
  echo "$ID KEPT"
else
  echo "$ID REJECTED"
fi
