#!/venv/bin/python
"""record_detection.py <matrix output>... : write the `detected_by` entry of seeded/<id>/meta.json from the lines tools/seedmatrix.sh prints"""
import json, os, re, sys
ROOT = os.path.dirname(os.path.dirname(os.path.abspath(__file__)))
n = 0
for path in sys.argv[1:]:
    for line in open(path):
        m = re.match(r"(C\d\d-\w+) -> VIOLATION in: (.*?)\| err: (.*?)\|\| rules: (.*)$", line.strip())
        if not m:
            continue
        sid, viol, err, rules = m.groups()
        mp = os.path.join(ROOT, "seeded", sid, "meta.json")
        if not os.path.exists(mp):
            continue
        meta = json.load(open(mp))
        meta["detected_by"] = {"checks_reporting_violation": sorted(x.strip(":") for x in viol.split()), "rules": sorted(rules.split())}
        json.dump(meta, open(mp, "w"), indent=1)
        n += 1
print(n, "seeds updated")
