#!/venv/bin/python
"""record_detection.py <matrix output>... : write the `detected_by` entry of seeded/<id>/meta.json from the lines that
tools/seedmatrix.sh (all checks) or tools/ownmatrix.sh (own property only) print"""
import json, os, re, sys
ROOT = os.path.dirname(os.path.dirname(os.path.abspath(__file__)))
n = 0
for path in sys.argv[1:]:
    for line in open(path):
        line = line.strip()
        m = re.match(r"(C\d\d-\w+) -> VIOLATION in: (.*?)\| err: (.*?)\|\| rules: (.*)$", line)
        o = re.match(r"(C\d\d-\w+) rc=(\d*) err=(\d+) rules: (.*)$", line)
        if m:
            sid, viol, err, rules = m.groups()
            checks = sorted(x.strip(":") for x in viol.split())
            merge = False
        elif o:
            sid, rc, err, rules = o.groups()
            if rc != "1":
                continue
            checks = [sid.split("-")[0]]
            merge = True
        else:
            continue
        mp = os.path.join(ROOT, "seeded", sid, "meta.json")
        if not os.path.exists(mp):
            continue
        meta = json.load(open(mp))
        old = meta.get("detected_by") or {}
        if merge:
            checks = sorted(set(old.get("checks_reporting_violation", [])) | set(checks))
            own_rules = sorted(rules.split())
            rules_ = sorted(set(own_rules)) if own_rules else old.get("rules", [])
        else:
            rules_ = sorted(rules.split())
        meta["detected_by"] = {"checks_reporting_violation": checks, "rules": rules_}
        json.dump(meta, open(mp, "w"), indent=1)
        n += 1
print(n, "seeds updated")
