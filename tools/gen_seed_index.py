#!/venv/bin/python
"""regenerate seeded/INDEX.md and the seed table inside DESIGN.md (between the SEEDS markers) from seeded/*/meta.json"""
import json, os, re
ROOT = os.path.dirname(os.path.dirname(os.path.abspath(__file__)))
rows = []
for sid in sorted(os.listdir(os.path.join(ROOT, "seeded"))):
    d = os.path.join(ROOT, "seeded", sid)
    mp = os.path.join(d, "meta.json")
    if not os.path.exists(mp):
        continue
    meta = json.load(open(mp))
    title = ""
    np_ = os.path.join(d, "notes.md")
    if os.path.exists(np_):
        for line in open(np_):
            line = line.strip()
            if line:
                title = re.sub(r"^#+\s*", "", line)
                title = re.sub(r"^C\d\d variant [ab]\s*[-:–]\s*", "", title)
                break
    files = ", ".join(os.path.basename(f) for f in meta.get("changed_files", []))
    det = meta.get("detected_by") or {}
    rules = ", ".join(det.get("rules", [])) or "—"
    checks = " ".join(det.get("checks_reporting_violation", [])) or "—"
    own = meta["property"] in det.get("checks_reporting_violation", [])
    rows.append((sid, files, title.replace("|", "/"), rules, checks, "yes" if own else "NO"))
lines = ["| seed | file | change | reporting rule(s) | checks that report a VIOLATION | caught by own property |", "|---|---|---|---|---|---|"]
for r in rows:
    lines.append("| " + " | ".join(r) + " |")
table = "\n".join(lines)
open(os.path.join(ROOT, "seeded", "INDEX.md"), "w").write("# Seeded changes (confirmed: suite passes, demonstration flips) and the checks that catch them\n\n" + table + "\n")
dp = os.path.join(ROOT, "DESIGN.md")
s = open(dp).read()
if "<!-- SEEDS:BEGIN -->" in s:
    s = re.sub(r"<!-- SEEDS:BEGIN -->.*?<!-- SEEDS:END -->", lambda m: "<!-- SEEDS:BEGIN -->\n" + table + "\n<!-- SEEDS:END -->", s, flags=re.S)
    open(dp, "w").write(s)
print(len(rows), "seeds;", sum(1 for r in rows if r[5] == "NO"), "not caught by their own property")
