#!/bin/bash
# rebase_seeds.sh : make every /verif/seeded/*/patch.diff apply to /repo's HEAD again (after fix: commits); uses patch fuzz,
# keeps the first version as patch.orig.diff; prints seeds that need manual work
for d in /verif/seeded/*/; do
  id=$(basename $d)
  if git -C /repo apply --check $d/patch.diff 2>/dev/null; then continue; fi
  T=$(mktemp -d /tmp/rebase.XXXX); mkdir -p $T/src; cp -r /repo/src/ngo $T/src/ngo; (cd $T && git init -q . && git add -A && git commit -qm base >/dev/null)
  if (cd $T && patch -s -p1 -F3 < $d/patch.diff); then
    [ -f $d/patch.orig.diff ] || cp $d/patch.diff $d/patch.orig.diff
    (cd $T && find . -name '*.orig' -delete; git diff) > $d/patch.diff
    echo "$id rebased"
  else
    echo "$id NEEDS MANUAL REBASE"
  fi
  rm -rf $T
done
