#!/bin/bash
# neutralmatrix.sh [ids...] : every behaviour-preserving refactoring under /verif/neutral against every check; prints the checks that are not silent
cd /verif
IDS="$@"; [ -z "$IDS" ] && IDS=$(ls neutral)
for id in $IDS; do
  out=$(PATCHCHECK_LINES=3 tools/patchcheck.sh neutral/$id/patch.diff 2>&1)
  v=$(echo "$out" | awk '/^== /{p=$2; rc=$3} /^== .*rc=1/{printf "%s ", $2}')
  e=$(echo "$out" | awk '/^== .*rc=2/{printf "%s ", $2}')
  r=$(echo "$out" | grep "^  rule \|^ANALYSIS-ERROR" | awk '{print ($1=="rule")?$2:$2}' | sort -u | tr '\n' ' ')
  echo "$id | VIOLATION: $v| ERROR: $e| $r"
done
