#!/bin/bash
# ownmatrix.sh [seed ids...] : every seed against the check of ITS OWN property only (fast); one line per seed
cd /verif
SEEDS="$@"; [ -z "$SEEDS" ] && SEEDS=$(ls -d seeded/*/ | xargs -n1 basename)
run() {
  id=$1; p=${id%-*}
  out=$(SEEDCHECK_LINES=400 tools/seedcheck.sh $id $p 2>&1)
  rc=$(echo "$out" | grep "^== " | sed 's/.*rc=//')
  rules=$(echo "$out" | grep "^  rule " | awk '{print $2}' | sort -u | tr '\n' ' ')
  err=$(echo "$out" | grep -c "^ANALYSIS-ERROR")
  echo "$id rc=$rc err=$err rules: $rules"
}
export -f run
printf "%s\n" $SEEDS | xargs -P 10 -I{} bash -c 'run {}' | sort
